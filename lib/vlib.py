"""Shared machinery of ./check: building, running Coq, deciding, writing evidence."""
import concurrent.futures
import hashlib
import json
import os
import re
import shutil
import signal
import subprocess
import sys
import time

VERIF = os.path.dirname(os.path.dirname(os.path.abspath(__file__)))
REPO = os.environ.get("VERIF_REPO", "/repo")
COQ = os.path.join(VERIF, "coq")
HARNESS = os.path.join(VERIF, "harness")
VH = os.path.join(HARNESS, "target", "debug", "vh")
WORK = os.path.join(VERIF, "work")
SCRATCH = os.environ.get("VERIF_SCRATCH", "/var/tmp/verif-scratch")
GUARD = "graphql_client_verif"

ENV = dict(os.environ)
ENV["CARGO_NET_OFFLINE"] = "true"
ENV["VERIF_SCRATCH"] = SCRATCH
ENV.pop("RUST_BACKTRACE", None)
ENV["RUST_BACKTRACE"] = "0"
ENV["RUSTFLAGS"] = (ENV.get("RUSTFLAGS", "") + " --cfg " + GUARD + " -Awarnings").strip()

AXIOM_ALLOWLIST = set()  # the development is expected to be closed under the global context

FORBIDDEN = re.compile(
    r"\b(Admitted|admit|Axiom|Axioms|Parameter|Parameters|Conjecture|Admit Obligations|bypass_check)\b|Unset Guard|Unset Positivity|Unset Universe|type-in-type|impredicative-set"
)


def log(*a):
    print(*a, file=sys.stderr, flush=True)


def run(cmd, cwd=None, timeout=1800, env=None, stdin=None):
    """Run a command in its own process group; on timeout the whole group is killed (a harness that is
    killed must not leave its worker processes behind)."""
    t0 = time.time()
    p = subprocess.Popen(
        cmd, cwd=cwd, env=env or ENV, stdout=subprocess.PIPE, stderr=subprocess.STDOUT,
        stdin=subprocess.PIPE if stdin is not None else None, text=True, errors="replace",
        start_new_session=True)
    try:
        out, _ = p.communicate(input=stdin, timeout=timeout)
        return p.returncode, out, time.time() - t0
    except subprocess.TimeoutExpired:
        try:
            os.killpg(p.pid, signal.SIGKILL)
        except OSError:
            pass
        try:
            out, _ = p.communicate(timeout=10)
        except Exception:
            out = ""
        return 124, (out or "") + "\n<timeout>", time.time() - t0


def build_harness():
    lock = os.path.join(HARNESS, "Cargo.lock")
    rc, out, dt = run(["cargo", "build", "--offline", "--quiet"], cwd=HARNESS, timeout=1500)
    if rc != 0:
        log(out[-4000:])
    return rc == 0, out, dt


def extract():
    rc, out, dt = run([VH, "extract", "--repo", REPO, "--out", os.path.join(COQ, "theories", "Gen")])
    if rc != 0:
        log(out[-3000:])
    return rc == 0, out


def coq_makefile():
    mk = os.path.join(COQ, "Makefile")
    cp = os.path.join(COQ, "_CoqProject")
    if not os.path.exists(mk) or os.path.getmtime(mk) < os.path.getmtime(cp):
        run(["coq_makefile", "-f", "_CoqProject", "-o", "Makefile"], cwd=COQ)


def coq_make(targets, timeout=1500):
    """make the .vo closure of the given theories-relative .v files. Returns (ok, output)."""
    coq_makefile()
    tg = [os.path.join("theories", t[:-2] + ".vo") for t in targets]
    rc, out, dt = run(["timeout", str(timeout), "make", "-j16", "-k"] + tg, cwd=COQ, timeout=timeout + 30)
    return rc == 0, out, dt


COQ_FLAGS = ["-Q", os.path.join(COQ, "theories"), "GC", "-w", "-notation-overridden,-deprecated-hint-without-locality"]


def check_property_file(relpath, timeout=600):
    """Re-run coqc on a Properties file to capture `Print Assumptions` output on every run.
    Returns dict(theorems=[names], closed=[names], axioms={name:[axioms]}, ok, output)."""
    path = os.path.join(COQ, "theories", relpath)
    src = open(path).read()
    theorems = re.findall(r"^\s*(?:Theorem|Corollary)\s+(\w+)", src, re.M)
    printed = re.findall(r"^\s*Print Assumptions\s+(\w+)\s*\.", src, re.M)
    rc, out, dt = run(["timeout", str(timeout), "coqc"] + COQ_FLAGS + [path], cwd=COQ, timeout=timeout + 30)
    res = {"theorems": theorems, "printed": printed, "closed": [], "axioms": {}, "ok": rc == 0, "output": out, "wall_s": dt}
    if rc != 0:
        return res
    # split the output into one block per Print Assumptions, in order
    blocks = re.split(r"(?m)^(?=Closed under the global context|Axioms:)", out)
    blocks = [b for b in blocks if b.startswith("Closed under") or b.startswith("Axioms:")]
    for name, blk in zip(printed, blocks):
        if blk.startswith("Closed under"):
            res["closed"].append(name)
        else:
            ax = re.findall(r"(?m)^(\S+)\s*:", blk[len("Axioms:"):])
            res["axioms"][name] = ax
    if len(blocks) != len(printed):
        res["ok"] = False
        res["output"] += "\n<could not match Print Assumptions blocks: %d vs %d>" % (len(blocks), len(printed))
    return res


def grep_forbidden():
    bad = []
    for root, _, files in os.walk(os.path.join(COQ, "theories")):
        for f in files:
            if not f.endswith(".v"):
                continue
            p = os.path.join(root, f)
            src = open(p, errors="replace").read()
            # strip comments (non-nested is enough for our style; nested handled by loop)
            prev = None
            while prev != src:
                prev = src
                src = re.sub(r"\(\*[^()*]*(?:\*(?!\))[^()*]*|\((?!\*)[^()*]*|\)[^()*]*)*\*\)", " ", src)
            for m in FORBIDDEN.finditer(src):
                bad.append("%s: %s" % (os.path.relpath(p, VERIF), m.group(0)))
    return bad


def parse_fail_lists(out):
    """cases files print `= ("name", [i; j]%N)` blocks; return {name: [ints]}"""
    res = {}
    for m in re.finditer(r'=\s*\(\s*"(\w+)"\s*,\s*(.*?)\)\s*:\s*string \* list N', out, re.S):
        name, body = m.group(1), m.group(2)
        res[name] = [int(x) for x in re.findall(r"(\d+)", body)]
    return res


def run_cases(workdir, timeout=1200):
    """coqc every cases_<k>.v of workdir in parallel; returns ({checker: [global failing indices]}, errors)"""
    stats = json.load(open(os.path.join(workdir, "stats.json")))
    shards = stats["shards"]
    fails = {c: [] for c in stats["checkers"]}
    errors = []

    def one(sh):
        rc, out, dt = run(["timeout", str(timeout), "coqc"] + COQ_FLAGS + [sh["file"]], cwd=workdir, timeout=timeout + 30)
        return sh, rc, out

    # memory-aware parallelism: a shard needs roughly 800 x its source size (measured: 6.7 MB -> 4.8 GB)
    try:
        biggest = max(os.path.getsize(os.path.join(workdir, sh["file"])) for sh in shards) if shards else 0
        avail = 0
        for line in open("/proc/meminfo"):
            if line.startswith("MemAvailable:"):
                avail = int(line.split()[1]) * 1024
        per = max(1.5e9, 800.0 * biggest)
        workers = int(max(2, min(16, (avail * 0.8) // per))) if avail else 8
    except Exception:
        workers = 8
    results = []
    with concurrent.futures.ThreadPoolExecutor(max_workers=workers) as ex:
        results = list(ex.map(one, shards))
    # a shard killed by the kernel (out of memory under load) is retried alone
    results = [one(sh) if rc in (-9, 137) else (sh, rc, out) for sh, rc, out in results]
    if True:
        for sh, rc, out in results:
            if rc != 0:
                errors.append("%s: coqc exit %d: %s" % (sh["file"], rc, out[-1500:]))
                continue
            got = parse_fail_lists(out)
            for c in stats["checkers"]:
                if c not in got:
                    errors.append("%s: no result for checker %s" % (sh["file"], c))
                    continue
                fails[c].extend(sh["offset"] + i for i in got[c])
    return stats, fails, errors


def load_known(prop):
    p = os.path.join(VERIF, "known_findings.json")
    if not os.path.exists(p):
        return []
    return [e for e in json.load(open(p)) if e.get("property") == prop and e.get("status") == "known"]


def write_replay(prop, payload):
    os.makedirs(os.path.join(VERIF, "replays"), exist_ok=True)
    h = hashlib.sha1(json.dumps(payload, sort_keys=True).encode()).hexdigest()[:12]
    path = os.path.join(VERIF, "replays", "%s-%s.json" % (prop, h))
    json.dump(payload, open(path, "w"), indent=1)
    return path


def write_evidence(prop, tier, seed, coverage, assumptions, wall, violations):
    os.makedirs(os.path.join(VERIF, "evidence"), exist_ok=True)
    ev = {
        "property_id": prop, "tier": tier, "seed": seed, "level": "proof",
        "coverage": coverage, "assumptions": assumptions, "wall_s": round(wall, 2), "violations": violations,
    }
    json.dump(ev, open(os.path.join(VERIF, "evidence", prop + ".json"), "w"), indent=1)


def fingerprint():
    rc, out, _ = run(["git", "-C", REPO, "rev-parse", "HEAD"])
    rc2, diff, _ = run(["git", "-C", REPO, "diff", "HEAD"])
    return out.strip()[:12] + "+" + hashlib.sha1(diff.encode()).hexdigest()[:8]
