"""Per-property configuration of ./check."""

COMMON_TB = [
    "Coq 8.16.1 kernel and vm_compute (no native_compute); no axioms: every property theorem must print 'Closed under the global context'",
    "translator harness/src/extract.rs + items.rs (syn -> Gen/*.v: declarations and literal tables only)",
    "correspondence harness (generators, renderers, syn-based observation of emitted token streams, case writer); the library is called the way derive and CLI call it — generate_module_token_stream on content-addressed query / schema files, after a call on a decoy schema with the definitions reversed — so state kept between calls is part of what is observed",
]

PROPS = {
    "C13": dict(
        coq_props=["Properties/C13.v"],
        run_modules=["RunC13.v"],
        harness_cmd="c13",
        trusted_base=COMMON_TB + [
            "TypeExpr.v is a hand model of codegen.rs decorate_type, schema.rs resolve_field_type, json_conversion.rs from_json_type_inner; tied by the exhaustive correspondence RunC13.corr",
            "graphql_parser / serde_json parsing of the rendered schemas; syn parsing of the emitted field types",
            "rustc's meaning of Option/Vec and of the four alias declarations (translated, not compiled here)",
        ],
        assumptions=[
            "type expressions are those of the GraphQL grammar (no `!!`)",
            "named-type identifier at the leaf is compared as emitted (normalization = none)",
        ],
    ),
    "C11": dict(
        coq_props=["Properties/C11.v"],
        run_modules=["RunC11.v"],
        harness_cmd="c11",
        trusted_base=COMMON_TB + [
            "Naming.v is a hand model of shared.rs keyword_replace (incl. std's binary_search loop) and of the identifier/rename computation at the six name positions; Heck.v is an ASCII model of heck 0.5; both tied by RunC11.corr / RunC11.heck on every run",
            "serde's meaning of #[serde(rename)] (wire key = rename or identifier) and rustc's identifier rules (ASCII, reference keyword list written out in Naming.v)",
            "token-level observation: compilation of the emitted items is not run by this check (necessary conditions only: identifier-shaped, not a keyword)",
        ],
        assumptions=[
            "GraphQL names are ASCII [_A-Za-z][_0-9A-Za-z]* and do not start with __",
            "two names of one scope that become equal after case conversion are outside the supported subset (K3)",
        ],
    ),
    "C10": dict(
        coq_props=["Properties/C10.v"],
        run_modules=["RunC10.v"],
        harness_cmd="c10",
        trusted_base=COMMON_TB + [
            "Enums.v is a hand model of codegen/enums.rs (variant identifiers, both hand-written impls as arm lists) tied by RunC10.corr on the emitted item and on compiled round trips",
            "meaning of the two emitted impls: `match` takes the first matching arm; `String` deserialisation accepts exactly JSON strings (validated against real rustc + serde_json through from_str and from_value)",
            "rustc: an enum with duplicate variant identifiers does not compile (validated: such modules are observed as compile errors)",
        ],
        assumptions=[
            "value names of one enum are distinct (GraphQL validity) and so are their Rust identifiers; collisions (`type`/`type_`, `foo_bar`/`fooBar` under normalization = rust, a value named `Other`) are the known class ident_collision",
        ],
    ),
    "C18": dict(
        coq_props=["Properties/C18.v"],
        run_modules=["RunC18.v"],
        harness_cmd="c18",
        trusted_base=COMMON_TB + [
            "Attrs.v is a hand model of attributes.rs (three scanners) and of the option record lib.rs:58 builds; tied by RunC18.corr to the real functions (attributes.rs is compiled into the harness from the working tree by #[path])",
            "syn's tokenisation of the attribute and LitStr decoding of plain / raw / escaped literals (the model's literals carry decoded values)",
            "the glue in graphql_query_derive/src/lib.rs (which extractor feeds which setter) is mirrored by Attrs.derive_options and observed end to end by seven compiled probes per run: the real macro in a workspace member (cargo check / cargo run), programs that compile and exit 0 only if the options written in the attribute were applied and relative paths were resolved against the member's manifest directory",
            "rustc's #[expect(deprecated)] / unfulfilled_lint_expectations (how a probe observes that a field is marked deprecated)",
        ],
        assumptions=["keys of one attribute are pairwise distinct (a repeated key is outside the property's quantifier)"],
    ),
    "C16": dict(
        coq_props=["Properties/C16.v"],
        run_modules=["RunC16.v"],
        harness_cmd="c16",
        trusted_base=COMMON_TB + [
            "Serde.v: specification of serde_derive 1.0.217 + serde_json (untagged enums, Option, missing-field rule, deserialize_with, default, flatten, internally tagged enums), validated on this run against real rustc + serde: whole-payload CSerde cases of the compiled module",
            "`From<IntOrString> for String` (n.to_string() = decimal) and the IdContainer impls are hand-modelled inside Serde.deser_field; `IntOrString` itself is translated",
            "attach_model is a hand model of ExpandedField::render's helper choice, tied by CAttach cases on every ID type expression",
        ],
        assumptions=["payload objects have unique keys", "ID type expressions are well-formed (no `!!`)"],
    ),
    "C15": dict(
        coq_props=["Properties/C15.v"],
        run_modules=["RunC15.v"],
        harness_cmd="c15",
        trusted_base=COMMON_TB + [
            "Serde.v (specification of serde_derive + serde_json for structs, Option, Vec, HashMap, untagged enums, i32/String/Value) validated on this run by RunC15.corr against graphql_client built from the working tree, through from_str and from_value",
            "Envelope.display_error is a hand model of `impl Display for Error / PathFragment` (tied by CDisplay cases); i32::to_string is modelled by Coq's decimal printer",
            "T = serde_json::Value stands for the data type (opaque JSON in the model)",
            "round trip deserialize(serialize(r)) = r: a theorem over Serde.ser / Serde.deser for every value satisfying Envelope.wt_response / wt_error (which rvalue trees are values of the Rust types: i32 members, a HashMap as its key-sorted entry list, Data any non-null JSON), together with the theorem that every value deser returns satisfies them; the same round trip is observed on the implementation for every generated body (prop_roundtrip). Serde.ser writes a HashMap in key order: Rust's iteration order is arbitrary, and the theorem does not depend on it only because serde_json reads objects order-independently (claim walk, insert_kv)",
        ],
        assumptions=["bodies have unique keys per object", "path indices and line/column are in i32 range (the declared field types)"],
    ),
    "C14": dict(
        coq_props=['Properties/C14.v'],
        run_modules=['RunC14.v'],
        harness_cmd='c14',
        trusted_base=COMMON_TB + ["Codegen.render_field is a hand model of ExpandedField::render; Codegen.v as a whole (selection expansion, naming, item order) is tied to the implementation by RunGen.gen_corr: the emitted items must be EQUAL to the model's on every generated program", "Schema.schema_of_sdl models the SDL builder; the JSON-format cases compare the implementation's JSON path with the model's SDL path (so they also depend on C07 holding on the implementation)", "rustc's meaning of #[deprecated] / #[deprecated(note = ...)] and of an absent field (use is a compile error)"],
        assumptions=['`exercises` reports how many cases select no deprecated field at all'],
    ),
    "C05": dict(
        coq_props=['Properties/C05.v'],
        run_modules=['RunC05.v'],
        harness_cmd='c05',
        trusted_base=COMMON_TB + ["Codegen.generate / module_of / select_operation model lib.rs:133-150, generated_module.rs and query.rs:551; tied by RunGen.gen_corr (emitted modules, incl. OPERATION_NAME, QUERY, struct declaration, build_query wiring, must EQUAL the model's)", "QueryBody is translated from graphql_client/src/lib.rs; Serde.ser is the specification of serde's derive(Serialize) (validated in-process on QueryBody itself and by C15/C16)", "quote!'s printing of the query string literal and rustc's reading of it (QUERY constant): observed byte-for-byte through syn's LitStr on the emitted tokens, not compiled", 'the document text is opaque in the theorems (they hold for every text)'],
        assumptions=['operation names are pairwise distinct under the chosen normalization (otherwise both operations map to one module name and nothing compiles: K3)'],
    ),
    "C06": dict(
        coq_props=['Properties/C06.v'],
        run_modules=['RunC06.v'],
        harness_cmd='c06',
        trusted_base=COMMON_TB + ['Query.v is a hand model of query.rs (create_roots, resolve_*), query/validation.rs and query/selection.rs validate_type_conditions; tied by RunC06.corr (outcome class Ok / Err / Panic on every valid and edited program, exact emitted modules on the valid ones)', "`applicable` (Properties) is the GraphQL spec's possible-types overlap restricted to the pairs the generator supports (equal, or one a possible concrete type of the other)", "graphql_parser's reading of the rendered documents"],
        assumptions=['the rules are stated on the abstract schema the SDL builder produces (Schema.schema_of_sdl)'],
    ),
    "C12": dict(
        coq_props=['Properties/C12.v'],
        run_modules=['RunC12.v'],
        harness_cmd='c12',
        trusted_base=COMMON_TB + ['Dfs.dfs is the model of the visited-set search in schema.rs:398-440 and (after the repair) query/selection.rs contains_fragment; Codegen.input_succs / frag_succs say which edges the code follows; Box placement (input_field_type, push_alias / push_field boxed) is tied by RunGen.gen_corr on every generated graph and pattern', "rustc's sizedness rule, as the oracle RunC12.finite_size states it: Option is inline, Vec and Box are indirections, an alias contains its target (E0072 otherwise); not compiled in this check", 'serde treats Box<T> as T (Serde.v: RBox is transparent)'],
        assumptions=['spreads name defined fragments (frags_closed; guaranteed by resolve, C06_spread_rule)'],
    ),
    "C17": dict(
        coq_props=['Properties/C17.v'],
        run_modules=['RunC17.v'],
        harness_cmd='c17',
        trusted_base=COMMON_TB + ["the recursion structure of the models (Dfs.dfs, Query.contains_typename, Codegen.collect / used_inputs / calc) mirrors the code's, visited sets included; tied by RunGen (outcome class of every surviving adversarial program, and exact output on the random corpus)", "stack capacity, graphql_parser's own recursion and the OS are runtime: the theorems bound the recursion depth of the generator's walks (by #fragments, #inputs, selection depth); the worker processes measure what actually happens (exit status / signal / wall time)", 'a Rust panic carries a message iff the payload is a &str / String (observed by the worker)'],
        assumptions=['spreads name defined fragments (guaranteed by resolve) for the fragment recursion test'],
    ),
    "C08": dict(
        coq_props=['Properties/C08.v'],
        run_modules=['RunC08.v'],
        harness_cmd='c08',
        trusted_base=COMMON_TB + ['Cache.v is a hand model of lib.rs:48-150: two maps keyed by the path as given, get-or-insert under one lock each, loader panics leave the map unchanged (after the repair), the rest of the call is pure; tied by RunC08.corr (outcome classes of every call, the sequential log of the state machine, and digest equality exactly when (query, schema, options) contents coincide)', 'std::sync::Mutex gives the atomicity of each critical section; lazy_static initialisation; that equality of token streams is equality of their digests (64-bit FNV-1a)', 'files do not change during a history; fresh-process equality is observed, not proved', 'that generate_module_token_stream_inner is a pure function of (query text, schema, options) — it reads no global state (BTreeSet / BTreeMap orderings only)'],
        assumptions=['options are compared by the four option sets the harness uses'],
    ),
    "C07": dict(
        coq_props=['Properties/C07.v'],
        run_modules=['RunC07.v'],
        harness_cmd='c07',
        trusted_base=COMMON_TB + ["Schema.schema_of_sdl / SchemaJson.schema_of_json are hand models of graphql_parser_conversion.rs and json_conversion.rs into a name-based, order-preserving abstract schema; tied by RunC07: the model predicts the SDL output exactly (corr), the JSON documents fed to the implementation map through the model of the JSON builder to the SDL builder's schema (corr_json_builder), and the harness's renderer agrees with the theorem's `render` (corr_render)", "serde's reading of the introspection document (both response shapes through the untagged IntrospectionResponse) and graphql_parser's reading of SDL", '`render` is the specification of what a spec-compliant server answers to the introspection query (section 4 of the GraphQL spec): kinds, ofType chains, interfaces, possibleTypes, enumValues, inputFields, isDeprecated / deprecationReason, isOneOf, root type names, extensions folded into their objects'],
        assumptions=['wf_sdl: the SDL builder does not panic (all names resolve), built-in scalars are not re-declared, one definition per object type', '`__` introspection types listed by a server are additional, unreferenced types: covered by the correspondence, not by the theorem'],
    ),
    "C19": dict(
        coq_props=['Properties/C19.v'],
        run_modules=['RunC19.v'],
        harness_cmd='c19',
        trusted_base=COMMON_TB + ["Cli.v (options_of_args, dest_path, cli_generate) is a hand model of graphql_client_cli/src/generate.rs; tied by RunC19.corr: for the flags of each invocation the model's options fed to the model of the generator must reproduce the written file, and the model's destination must be the file that changed", "clap's parsing of the command line; rustfmt (the formatted file is re-parsed with syn, so only its token content is compared); std::path file_name / with_extension / join (modelled on component lists); the file system", 'the warning-suppression header is translated from generate.rs on every run'],
        assumptions=["paths are relative, '/'-separated, with a non-empty last component"],
    ),
    "C20": dict(
        coq_props=['Properties/C20.v'],
        run_modules=['RunC20.v'],
        harness_cmd='c20',
        trusted_base=COMMON_TB + ["Cli.parse_header / chosen_document / cli_introspect are hand models of introspection_schema.rs (Header::from_str over code points with the 25 White_Space code points of str::trim / split_whitespace; the flag cascade; status handling with the output file created after the reply is parsed); tied by RunC20.corr to the built binary (header acceptance observed through clap's exit status and the header the mock server receives; operationName per flag combination; exit status per server behaviour)", "the four introspection documents' operation names are translated from the .graphql files and the derive declarations on every run; that the generated QUERY constants are those files is C05", 'reqwest (HTTP, header transmission, bearer_auth), clap, serde_json pretty printing (compared as JSON values), the OS and the python3 mock server'],
        assumptions=['header names are transmitted case-insensitively by HTTP; an empty header value may be dropped by the transport'],
    ),
    "C01": dict(
        coq_props=['Properties/C01.v'],
        run_modules=['RunResp.v'],
        harness_cmd='c01',
        trusted_base=COMMON_TB + ['Conform.v is the SPECIFICATION of a conforming `data` payload and of the permitted differences (CollectFields with visitedFragments, field merging by response key, CompleteValue per type expression; Int = 32-bit, Float as a JSON number, ID as string or 64-bit integer, custom scalars = any non-null JSON); it is written on the raw query AST and shares nothing with the generator model', 'Codegen.v (whole-generator model; RunResp.corr_gen: its items equal the items the real library emitted for every program of the run) and Serde.v (meaning of the emitted items; RunResp.corr_serde: equal to what the compiled consumer crate does on every vector)', 'the harness payload generator mirrors the execution rules; every payload it calls conforming is re-checked by Conform.conforms (checker corr_spec)', 'custom scalars are supplied by the consumer crate as serde_json::Value; JSON numbers are compared textually, so Float payloads are generated in the form serde_json prints (an integral token at a Float position would come back as `3.0`)'],
        assumptions=['programs whose module rustc refuses are not judged here (C02)', "deprecation = deny is excluded: the removed fields are C14's subject"],
    ),
    "C03": dict(
        coq_props=['Properties/C03.v'],
        run_modules=['RunResp.v'],
        harness_cmd='c03',
        trusted_base=COMMON_TB + ['Conform.v (specification of conforming payloads; a corruption counts only if Conform.conforms says the corrupted payload no longer conforms: checker corr_spec)', 'Codegen.v and Serde.v, tied to the real generator and to rustc+serde on every run (corr_gen, corr_serde)', 'custom scalars are consumer-supplied (serde_json::Value here, which takes null): null is not probed there; Int is i64 in the generated code, so a 64-bit integer at an Int position is not a kind error'],
        assumptions=['programs whose module rustc refuses are not judged here (C02)'],
    ),
    "C04": dict(
        coq_props=['Properties/C04.v'],
        run_modules=['RunVars.v'],
        harness_cmd='c04',
        trusted_base=COMMON_TB + ["VarSpec.v is the SPECIFICATION of a valid input value / variables object (kind-level scalars: Int and Float as JSON numbers, ID as string; enum values; input-object keys among the schema's field names with absent members only where nullable; @oneOf exactly one non-null member)", 'Codegen.v and Serde.v tied to the real generator and to rustc+serde on every run (RunVars.corr_gen, corr_serde); Variables values are obtained by deserializing reference assignments (variables_derives = Deserialize) in the consumer crate and pass through the real Op::build_query and serde_json::to_value', "values that JSON cannot express are outside the model: a non-finite f64 is written as null by serde_json, also at a non-null Float position; custom scalars write whatever the consumer's type writes (serde_json::Value here)", 'an operation without variables serialises `variables: null` (unit struct), which GraphQL-over-HTTP treats as no variables: counted as the empty object'],
        assumptions=['programs whose module rustc refuses are not judged here (C02)'],
    ),
    "C09": dict(
        coq_props=['Properties/C09.v'],
        run_modules=['RunC09.v'],
        harness_cmd='c09',
        trusted_base=COMMON_TB + ["Codegen.v and Serde.v tied to the real generator and to rustc+serde for every option variant (RunC09.corr_gen, corr_serde); variants with externally defined enums are judged on the consumer crate's observations only (the enum is the consumer's type, opaque to the model)", "extern enums and custom scalar types are supplied by the harness with the schema's value names / as serde_json::Value; error MESSAGES are not compared (they mention Rust identifiers), only accept/reject and the re-serialised JSON"],
        assumptions=["a variant whose module rustc refuses is C02's subject"],
    ),
    "C02": dict(
        coq_props=['Properties/C02.v'],
        run_modules=['RunC02.v'],
        harness_cmd='c02',
        trusted_base=COMMON_TB + ['rustc, serde_derive and the proc-macro bridge decide whether the emitted items type-check: observed, not modelled; Closed.v captures only name resolution between the items of a module (sound and complete checker, evaluated on the generator model per case; RunC02.corr_static: whenever rustc accepted the library form the checker accepts)', 'Codegen.v tied to the real generator by RunC02.corr_gen on every program of the run (library form); the CLI form and the derive form are the real binary and the real proc macro run on the same schema / query files', 'consumer crates supply only what the documentation asks for: types for custom scalars (beside the module, in `crate::scalars`, or in `super::super::types`) and the externally defined enums, written with the serde re-exported by graphql_client', '`supported` = the directed programs, valid by construction; random programs are judged only once the library accepts them'],
        assumptions=['one rustc / cargo toolchain: the one installed in the sandbox'],
    ),
}
