#!/bin/sh
# Build the framework from files on disk only (offline): harness, translator output, Coq development.
set -e
cd "$(dirname "$0")"
export CARGO_NET_OFFLINE=true
export RUSTFLAGS="--cfg graphql_client_verif -Awarnings"
export RUST_BACKTRACE=0
(cd harness && cargo build --offline --quiet)
./harness/target/debug/vh extract --repo "${VERIF_REPO:-/repo}" --out coq/theories/Gen
(cd coq && coq_makefile -f _CoqProject -o Makefile >/dev/null && timeout 3000 make -j16 >/dev/null)
echo setup-ok
