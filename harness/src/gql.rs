//! Harness-side ASTs for schemas and query documents, with renderers to SDL text,
//! introspection JSON, query text and Gallina terms.
use crate::coq;
use serde::{Deserialize, Serialize};
use serde_json::{json, Value};

#[derive(Clone, Debug, PartialEq, Serialize, Deserialize)]
pub enum GType {
    Named(String),
    List(Box<GType>),
    NonNull(Box<GType>),
}

impl GType {
    pub fn named(n: &str) -> GType {
        GType::Named(n.to_string())
    }
    pub fn list(t: GType) -> GType {
        GType::List(Box::new(t))
    }
    pub fn nn(t: GType) -> GType {
        GType::NonNull(Box::new(t))
    }
    pub fn name(&self) -> &str {
        match self {
            GType::Named(n) => n,
            GType::List(t) | GType::NonNull(t) => t.name(),
        }
    }
    pub fn sdl(&self) -> String {
        match self {
            GType::Named(n) => n.clone(),
            GType::List(t) => format!("[{}]", t.sdl()),
            GType::NonNull(t) => format!("{}!", t.sdl()),
        }
    }
    pub fn to_coq(&self) -> String {
        match self {
            GType::Named(n) => format!("(GNamed {})", coq::s(n)),
            GType::List(t) => format!("(GList {})", t.to_coq()),
            GType::NonNull(t) => format!("(GNonNull {})", t.to_coq()),
        }
    }
    /// introspection TypeRef; `kind_of` gives the kind of a named type
    pub fn typeref(&self, kind_of: &dyn Fn(&str) -> &'static str) -> Value {
        match self {
            GType::Named(n) => json!({"kind": kind_of(n), "name": n, "ofType": null}),
            GType::List(t) => json!({"kind": "LIST", "name": null, "ofType": t.typeref(kind_of)}),
            GType::NonNull(t) => json!({"kind": "NON_NULL", "name": null, "ofType": t.typeref(kind_of)}),
        }
    }
    pub fn is_nonnull(&self) -> bool {
        matches!(self, GType::NonNull(_))
    }
    pub fn depth(&self) -> usize {
        match self {
            GType::Named(_) => 0,
            GType::List(t) => 1 + t.depth(),
            GType::NonNull(t) => t.depth(),
        }
    }
}

#[derive(Clone, Debug, PartialEq, Serialize, Deserialize)]
pub struct FieldDef {
    pub name: String,
    pub ty: GType,
    pub deprecated: Option<Option<String>>,
}

impl FieldDef {
    pub fn new(name: &str, ty: GType) -> Self {
        FieldDef { name: name.into(), ty, deprecated: None }
    }
    pub fn to_coq(&self) -> String {
        format!(
            "(mkFD {} {} {})",
            coq::s(&self.name),
            self.ty.to_coq(),
            coq::opt(&self.deprecated, |d| coq::ostr(d))
        )
    }
}

#[derive(Clone, Debug, PartialEq, Serialize, Deserialize)]
pub enum TypeDef {
    Scalar { name: String },
    Enum { name: String, values: Vec<String> },
    Object { name: String, implements: Vec<String>, fields: Vec<FieldDef> },
    Interface { name: String, fields: Vec<FieldDef> },
    Union { name: String, members: Vec<String> },
    Input { name: String, fields: Vec<(String, GType)>, one_of: bool },
    Extend { name: String, implements: Vec<String>, fields: Vec<FieldDef> },
}

impl TypeDef {
    pub fn name(&self) -> &str {
        match self {
            TypeDef::Scalar { name }
            | TypeDef::Enum { name, .. }
            | TypeDef::Object { name, .. }
            | TypeDef::Interface { name, .. }
            | TypeDef::Union { name, .. }
            | TypeDef::Input { name, .. }
            | TypeDef::Extend { name, .. } => name,
        }
    }
    pub fn to_coq(&self) -> String {
        match self {
            TypeDef::Scalar { name } => format!("(DScalar {})", coq::s(name)),
            TypeDef::Enum { name, values } => format!("(DEnum {} {})", coq::s(name), coq::strs(values)),
            TypeDef::Object { name, implements, fields } => format!(
                "(DObject {} {} {})",
                coq::s(name),
                coq::strs(implements),
                coq::list(fields, |f| f.to_coq())
            ),
            TypeDef::Interface { name, fields } => {
                format!("(DInterface {} {})", coq::s(name), coq::list(fields, |f| f.to_coq()))
            }
            TypeDef::Union { name, members } => format!("(DUnion {} {})", coq::s(name), coq::strs(members)),
            TypeDef::Input { name, fields, one_of } => format!(
                "(DInput {} {} {})",
                coq::s(name),
                coq::list(fields, |(n, t)| format!("({}, {})", coq::s(n), t.to_coq())),
                coq::b(*one_of)
            ),
            TypeDef::Extend { name, implements, fields } => format!(
                "(DExtend {} {} {})",
                coq::s(name),
                coq::strs(implements),
                coq::list(fields, |f| f.to_coq())
            ),
        }
    }
}

#[derive(Clone, Debug, PartialEq, Serialize, Deserialize, Default)]
pub struct SchemaDoc {
    pub defs: Vec<TypeDef>,
    /// explicit `schema { query: .. mutation: .. subscription: .. }`
    pub schema_block: Option<(Option<String>, Option<String>, Option<String>)>,
    /// default values of input-object fields: (input type, field, GraphQL value text).  The library
    /// documents no effect of them on the generated code; they are rendered into the schema text only.
    #[serde(default)]
    pub input_defaults: Vec<(String, String, String)>,
}

fn sdl_string(s: &str) -> String {
    // GraphQL string literal
    let mut o = String::from("\"");
    for c in s.chars() {
        match c {
            '"' => o.push_str("\\\""),
            '\\' => o.push_str("\\\\"),
            '\n' => o.push_str("\\n"),
            '\r' => o.push_str("\\r"),
            '\t' => o.push_str("\\t"),
            c => o.push(c),
        }
    }
    o.push('"');
    o
}

fn sdl_fields(fields: &[FieldDef]) -> String {
    let mut o = String::new();
    for f in fields {
        o.push_str(&format!("  {}: {}", f.name, f.ty.sdl()));
        match &f.deprecated {
            None => {}
            Some(None) => o.push_str(" @deprecated"),
            Some(Some(r)) => o.push_str(&format!(" @deprecated(reason: {})", sdl_string(r))),
        }
        o.push('\n');
    }
    o
}

pub const BUILTIN: [&str; 5] = ["ID", "String", "Int", "Float", "Boolean"];

/// How the same schema is rendered as introspection JSON.
#[derive(Clone, Debug, PartialEq, Serialize, Deserialize)]
pub struct JsonVariant {
    pub data_wrapped: bool,
    /// 0: no built-in scalars listed, 1: before user types, 2: after
    pub builtin_scalars: u8,
    /// 0: no `__` introspection types, 1: before, 2: after, 3: interleaved
    pub meta_types: u8,
    /// emit `isOneOf` on input objects
    pub is_one_of: bool,
    /// a field that is NOT deprecated still carries a `deprecationReason` string (a server that kept the
    /// text after un-deprecating, or that fills in a default reason): `isDeprecated: false` decides
    pub leftover_reason: bool,
}

impl JsonVariant {
    pub fn plain() -> Self {
        JsonVariant { data_wrapped: false, builtin_scalars: 0, meta_types: 0, is_one_of: true, leftover_reason: false }
    }
}

impl SchemaDoc {
    pub fn to_coq(&self) -> String {
        format!(
            "(mkSdl {} {})",
            coq::list(&self.defs, |d| format!("\n    {}", d.to_coq())),
            coq::opt(&self.schema_block, |(q, m, s)| format!(
                "({}, {}, {})",
                coq::ostr(q),
                coq::ostr(m),
                coq::ostr(s)
            ))
        )
    }

    pub fn render_sdl(&self) -> String {
        let mut o = String::new();
        if let Some((q, m, s)) = &self.schema_block {
            o.push_str("schema {\n");
            if let Some(q) = q {
                o.push_str(&format!("  query: {}\n", q));
            }
            if let Some(m) = m {
                o.push_str(&format!("  mutation: {}\n", m));
            }
            if let Some(s) = s {
                o.push_str(&format!("  subscription: {}\n", s));
            }
            o.push_str("}\n\n");
        }
        for d in &self.defs {
            match d {
                TypeDef::Scalar { name } => o.push_str(&format!("scalar {}\n\n", name)),
                TypeDef::Enum { name, values } => {
                    o.push_str(&format!("enum {} {{\n", name));
                    for v in values {
                        o.push_str(&format!("  {}\n", v));
                    }
                    o.push_str("}\n\n");
                }
                TypeDef::Object { name, implements, fields } => {
                    let imp = if implements.is_empty() {
                        String::new()
                    } else {
                        format!(" implements {}", implements.join(" & "))
                    };
                    o.push_str(&format!("type {}{} {{\n{}}}\n\n", name, imp, sdl_fields(fields)));
                }
                TypeDef::Extend { name, implements, fields } => {
                    let imp = if implements.is_empty() {
                        String::new()
                    } else {
                        format!(" implements {}", implements.join(" & "))
                    };
                    if fields.is_empty() {
                        // an extension that only adds interfaces has no field block at all
                        o.push_str(&format!("extend type {}{}\n\n", name, imp));
                    } else {
                        o.push_str(&format!("extend type {}{} {{\n{}}}\n\n", name, imp, sdl_fields(fields)));
                    }
                }
                TypeDef::Interface { name, fields } => {
                    o.push_str(&format!("interface {} {{\n{}}}\n\n", name, sdl_fields(fields)));
                }
                TypeDef::Union { name, members } => {
                    o.push_str(&format!("union {} = {}\n\n", name, members.join(" | ")));
                }
                TypeDef::Input { name, fields, one_of } => {
                    let dir = if *one_of { " @oneOf" } else { "" };
                    o.push_str(&format!("input {}{} {{\n", name, dir));
                    for (n, t) in fields {
                        let dv = self.input_defaults.iter().find(|(i, f, _)| i == name && f == n).map(|(_, _, v)| format!(" = {}", v)).unwrap_or_default();
                        o.push_str(&format!("  {}: {}{}\n", n, t.sdl(), dv));
                    }
                    o.push_str("}\n\n");
                }
            }
        }
        o
    }

    pub fn kind_of(&self, n: &str) -> &'static str {
        if BUILTIN.contains(&n) {
            return "SCALAR";
        }
        for d in &self.defs {
            if d.name() == n {
                return match d {
                    TypeDef::Scalar { .. } => "SCALAR",
                    TypeDef::Enum { .. } => "ENUM",
                    TypeDef::Object { .. } => "OBJECT",
                    TypeDef::Interface { .. } => "INTERFACE",
                    TypeDef::Union { .. } => "UNION",
                    TypeDef::Input { .. } => "INPUT_OBJECT",
                    TypeDef::Extend { .. } => continue,
                };
            }
        }
        "SCALAR"
    }

    pub fn root_names(&self) -> (Option<String>, Option<String>, Option<String>) {
        match &self.schema_block {
            Some(b) => b.clone(),
            None => {
                let has = |n: &str| {
                    self.defs.iter().any(|d| matches!(d, TypeDef::Object { name, .. } if name == n))
                };
                (
                    if has("Query") { Some("Query".into()) } else { None },
                    if has("Mutation") { Some("Mutation".into()) } else { None },
                    if has("Subscription") { Some("Subscription".into()) } else { None },
                )
            }
        }
    }

    /// Introspection result of a spec-compliant server for this schema: extensions folded
    /// into their objects, interfaces' possibleTypes computed, ofType chains.
    pub fn render_json(&self, var: &JsonVariant) -> String {
        let kind_of = |n: &str| self.kind_of(n);
        let jfields = |fields: &[FieldDef]| -> Value {
            Value::Array(
                fields
                    .iter()
                    .map(|f| {
                        json!({
                            "name": f.name, "description": null, "args": [],
                            "type": f.ty.typeref(&kind_of),
                            "isDeprecated": f.deprecated.is_some(),
                            "deprecationReason": match &f.deprecated { Some(Some(r)) => Value::String(r.clone()), None if var.leftover_reason => Value::String("No longer supported".into()), _ => Value::Null },
                        })
                    })
                    .collect(),
            )
        };
        let mut types: Vec<Value> = vec![];
        for d in &self.defs {
            match d {
                TypeDef::Scalar { name } => types.push(json!({"kind":"SCALAR","name":name,"description":null,"fields":null,"inputFields":null,"interfaces":null,"enumValues":null,"possibleTypes":null})),
                TypeDef::Enum { name, values } => types.push(json!({"kind":"ENUM","name":name,"description":null,"fields":null,"inputFields":null,"interfaces":null,
                    "enumValues": values.iter().map(|v| json!({"name":v,"description":null,"isDeprecated":false,"deprecationReason":null})).collect::<Vec<_>>(),
                    "possibleTypes":null})),
                TypeDef::Object { name, implements, fields } => {
                    let mut fs = fields.clone();
                    let mut imps = implements.clone();
                    for e in &self.defs {
                        if let TypeDef::Extend { name: en, implements: ei, fields: ef } = e {
                            if en == name {
                                fs.extend(ef.iter().cloned());
                                imps.extend(ei.iter().cloned());
                            }
                        }
                    }
                    types.push(json!({"kind":"OBJECT","name":name,"description":null,"fields":jfields(&fs),"inputFields":null,
                        "interfaces": imps.iter().map(|i| json!({"kind":"INTERFACE","name":i,"ofType":null})).collect::<Vec<_>>(),
                        "enumValues":null,"possibleTypes":null}));
                }
                TypeDef::Interface { name, fields } => {
                    let mut poss = vec![];
                    for e in &self.defs {
                        match e {
                            TypeDef::Object { name: on, implements, .. } => {
                                let mut imps = implements.clone();
                                for x in &self.defs {
                                    if let TypeDef::Extend { name: en, implements: ei, .. } = x {
                                        if en == on {
                                            imps.extend(ei.iter().cloned());
                                        }
                                    }
                                }
                                if imps.contains(name) {
                                    poss.push(json!({"kind":"OBJECT","name":on,"ofType":null}));
                                }
                            }
                            _ => {}
                        }
                    }
                    types.push(json!({"kind":"INTERFACE","name":name,"description":null,"fields":jfields(fields),"inputFields":null,
                        "interfaces":[],"enumValues":null,"possibleTypes":poss}));
                }
                TypeDef::Union { name, members } => types.push(json!({"kind":"UNION","name":name,"description":null,"fields":null,"inputFields":null,"interfaces":null,"enumValues":null,
                    "possibleTypes": members.iter().map(|m| json!({"kind":"OBJECT","name":m,"ofType":null})).collect::<Vec<_>>()})),
                TypeDef::Input { name, fields, one_of } => {
                    let mut v = json!({"kind":"INPUT_OBJECT","name":name,"description":null,"fields":null,
                        "inputFields": fields.iter().map(|(n,t)| json!({"name":n,"description":null,"type":t.typeref(&kind_of),
                            "defaultValue": self.input_defaults.iter().find(|(i, f, _)| i == name && f == n).map(|(_, _, v)| Value::String(v.clone())).unwrap_or(Value::Null)})).collect::<Vec<_>>(),
                        "interfaces":null,"enumValues":null,"possibleTypes":null});
                    if var.is_one_of {
                        v.as_object_mut().unwrap().insert("isOneOf".into(), Value::Bool(*one_of));
                    }
                    types.push(v);
                }
                TypeDef::Extend { .. } => {}
            }
        }
        let builtins: Vec<Value> = BUILTIN.iter().map(|n| json!({"kind":"SCALAR","name":n,"description":null,"fields":null,"inputFields":null,"interfaces":null,"enumValues":null,"possibleTypes":null})).collect();
        let str_nn = json!({"kind":"NON_NULL","name":null,"ofType":{"kind":"SCALAR","name":"String","ofType":null}});
        let metas: Vec<Value> = vec![
            json!({"kind":"OBJECT","name":"__Schema","description":null,"fields":[{"name":"description","description":null,"args":[],"type":{"kind":"SCALAR","name":"String","ofType":null},"isDeprecated":false,"deprecationReason":null}],"inputFields":null,"interfaces":[],"enumValues":null,"possibleTypes":null}),
            json!({"kind":"OBJECT","name":"__Type","description":null,"fields":[{"name":"name","description":null,"args":[],"type":{"kind":"SCALAR","name":"String","ofType":null},"isDeprecated":false,"deprecationReason":null}],"inputFields":null,"interfaces":[],"enumValues":null,"possibleTypes":null}),
            json!({"kind":"ENUM","name":"__TypeKind","description":null,"fields":null,"inputFields":null,"interfaces":null,"enumValues":[{"name":"SCALAR","description":null,"isDeprecated":false,"deprecationReason":null},{"name":"OBJECT","description":null,"isDeprecated":false,"deprecationReason":null}],"possibleTypes":null}),
            json!({"kind":"OBJECT","name":"__Field","description":null,"fields":[{"name":"name","description":null,"args":[],"type":str_nn,"isDeprecated":false,"deprecationReason":null}],"inputFields":null,"interfaces":[],"enumValues":null,"possibleTypes":null}),
        ];
        let mut all: Vec<Value> = vec![];
        if var.builtin_scalars == 1 {
            all.extend(builtins.iter().cloned());
        }
        if var.meta_types == 1 {
            all.extend(metas.iter().cloned());
        }
        if var.meta_types == 3 {
            let mut mi = metas.iter();
            for (i, t) in types.iter().enumerate() {
                if i % 2 == 1 {
                    if let Some(m) = mi.next() {
                        all.push(m.clone());
                    }
                }
                all.push(t.clone());
            }
            all.extend(mi.cloned());
        } else {
            all.extend(types.iter().cloned());
        }
        if var.meta_types == 2 {
            all.extend(metas.iter().cloned());
        }
        if var.builtin_scalars == 2 {
            all.extend(builtins.iter().cloned());
        }
        // a server that knows `isOneOf` answers it on EVERY type: null where it does not apply (in the variants
        // that also list the `__` types, i.e. a full reply)
        if var.is_one_of && var.meta_types != 0 {
            for t in all.iter_mut() {
                if let Some(o) = t.as_object_mut() {
                    o.entry("isOneOf").or_insert(Value::Null);
                }
            }
        }
        let (q, m, s) = self.root_names();
        let nm = |x: Option<String>| match x {
            Some(n) => json!({ "name": n }),
            None => Value::Null,
        };
        let schema = json!({"__schema": {"queryType": nm(q), "mutationType": nm(m), "subscriptionType": nm(s), "types": all, "directives": []}});
        let top = if var.data_wrapped { json!({ "data": schema }) } else { schema };
        serde_json::to_string_pretty(&top).unwrap()
    }
}

// ---------------------------------------------------------------- queries

#[derive(Clone, Debug, PartialEq, Serialize, Deserialize)]
pub enum Sel {
    Field { alias: Option<String>, name: String, sub: Vec<Sel> },
    Inline { on: Option<String>, sub: Vec<Sel> },
    Spread(String),
}

impl Sel {
    pub fn field(name: &str) -> Sel {
        Sel::Field { alias: None, name: name.into(), sub: vec![] }
    }
    pub fn obj(name: &str, sub: Vec<Sel>) -> Sel {
        Sel::Field { alias: None, name: name.into(), sub }
    }
    pub fn typename() -> Sel {
        Sel::field("__typename")
    }
    pub fn to_coq(&self) -> String {
        match self {
            Sel::Field { alias, name, sub } => format!(
                "(SField {} {} {})",
                coq::ostr(alias),
                coq::s(name),
                coq::list(sub, |s| s.to_coq())
            ),
            Sel::Inline { on, sub } => format!("(SInline {} {})", coq::ostr(on), coq::list(sub, |s| s.to_coq())),
            Sel::Spread(n) => format!("(SSpread {})", coq::s(n)),
        }
    }
    pub fn render(&self, ind: usize, o: &mut String) {
        let pad = "  ".repeat(ind);
        match self {
            Sel::Field { alias, name, sub } => {
                o.push_str(&pad);
                if let Some(a) = alias {
                    o.push_str(a);
                    o.push_str(": ");
                }
                o.push_str(name);
                if !sub.is_empty() {
                    o.push_str(" {\n");
                    for s in sub {
                        s.render(ind + 1, o);
                    }
                    o.push_str(&pad);
                    o.push('}');
                }
                o.push('\n');
            }
            Sel::Inline { on, sub } => {
                o.push_str(&pad);
                match on {
                    Some(t) => o.push_str(&format!("... on {} {{\n", t)),
                    None => o.push_str("... {\n"),
                }
                for s in sub {
                    s.render(ind + 1, o);
                }
                o.push_str(&pad);
                o.push_str("}\n");
            }
            Sel::Spread(n) => {
                o.push_str(&pad);
                o.push_str("...");
                o.push_str(n);
                o.push('\n');
            }
        }
    }
}

#[derive(Clone, Copy, Debug, PartialEq, Serialize, Deserialize)]
pub enum OpKind {
    Query,
    Mutation,
    Subscription,
}

#[derive(Clone, Debug, PartialEq, Serialize, Deserialize)]
pub struct VarDef {
    pub name: String,
    pub ty: GType,
    /// default value as GraphQL text (rendering of defaults is outside the model)
    pub default: Option<String>,
}

#[derive(Clone, Debug, PartialEq, Serialize, Deserialize)]
pub enum QDef {
    Op { kind: OpKind, name: Option<String>, vars: Vec<VarDef>, sel: Vec<Sel> },
    Frag { name: String, on: String, sel: Vec<Sel> },
    Anon { sel: Vec<Sel> },
}

#[derive(Clone, Debug, PartialEq, Serialize, Deserialize, Default)]
pub struct QueryDoc {
    pub defs: Vec<QDef>,
}

impl QueryDoc {
    pub fn render(&self) -> String {
        let mut o = String::new();
        for d in &self.defs {
            match d {
                QDef::Op { kind, name, vars, sel } => {
                    o.push_str(match kind {
                        OpKind::Query => "query",
                        OpKind::Mutation => "mutation",
                        OpKind::Subscription => "subscription",
                    });
                    if let Some(n) = name {
                        o.push(' ');
                        o.push_str(n);
                    }
                    if !vars.is_empty() {
                        let vs: Vec<String> = vars
                            .iter()
                            .map(|v| match &v.default {
                                Some(d) => format!("${}: {} = {}", v.name, v.ty.sdl(), d),
                                None => format!("${}: {}", v.name, v.ty.sdl()),
                            })
                            .collect();
                        o.push_str(&format!("({})", vs.join(", ")));
                    }
                    o.push_str(" {\n");
                    for s in sel {
                        s.render(1, &mut o);
                    }
                    o.push_str("}\n\n");
                }
                QDef::Frag { name, on, sel } => {
                    o.push_str(&format!("fragment {} on {} {{\n", name, on));
                    for s in sel {
                        s.render(1, &mut o);
                    }
                    o.push_str("}\n\n");
                }
                QDef::Anon { sel } => {
                    o.push_str("{\n");
                    for s in sel {
                        s.render(1, &mut o);
                    }
                    o.push_str("}\n\n");
                }
            }
        }
        o
    }
    pub fn to_coq(&self) -> String {
        coq::list(&self.defs, |d| match d {
            QDef::Op { kind, name, vars, sel } => format!(
                "\n    (QOp {} {} {} {})",
                match kind {
                    OpKind::Query => "OQuery",
                    OpKind::Mutation => "OMutation",
                    OpKind::Subscription => "OSubscription",
                },
                coq::ostr(name),
                coq::list(vars, |v| format!(
                    "(mkVar {} {} {})",
                    coq::s(&v.name),
                    v.ty.to_coq(),
                    coq::b(v.default.is_some())
                )),
                coq::list(sel, |s| s.to_coq())
            ),
            QDef::Frag { name, on, sel } => {
                format!("\n    (QFrag {} {} {})", coq::s(name), coq::s(on), coq::list(sel, |s| s.to_coq()))
            }
            QDef::Anon { sel } => format!("\n    (QAnon {})", coq::list(sel, |s| s.to_coq())),
        })
    }
}

/// Options of the library that the model knows about.
#[derive(Clone, Debug, PartialEq, Serialize, Deserialize)]
pub struct Opts {
    pub cli_mode: bool,
    pub operation_name: Option<String>,
    pub struct_name: Option<String>,
    pub variables_derives: Option<String>,
    pub response_derives: Option<String>,
    /// 0 allow, 1 warn, 2 deny; None = unset (default warn)
    pub deprecation: Option<u8>,
    pub normalization_rust: bool,
    pub custom_scalars_module: Option<String>,
    pub extern_enums: Vec<String>,
    pub fragments_other_variant: bool,
    pub skip_serializing_none: bool,
    pub serde_path: Option<String>,
    /// None = unset, Some("") inherited, "pub", or restricted path
    pub visibility: Option<String>,
    pub query_file: Option<String>,
}

impl Default for Opts {
    fn default() -> Self {
        Opts {
            cli_mode: true,
            operation_name: None,
            struct_name: None,
            variables_derives: None,
            response_derives: None,
            deprecation: None,
            normalization_rust: false,
            custom_scalars_module: None,
            extern_enums: vec![],
            fragments_other_variant: false,
            skip_serializing_none: false,
            serde_path: None,
            visibility: None,
            query_file: None,
        }
    }
}

impl Opts {
    pub fn to_lib(&self) -> graphql_client_codegen::GraphQLClientCodegenOptions {
        use graphql_client_codegen::*;
        let mut o = GraphQLClientCodegenOptions::new(if self.cli_mode { CodegenMode::Cli } else { CodegenMode::Derive });
        if let Some(n) = &self.operation_name {
            o.set_operation_name(n.clone());
        }
        if let Some(n) = &self.struct_name {
            o.set_struct_name(n.clone());
            o.set_struct_ident(proc_macro2::Ident::new(n, proc_macro2::Span::call_site()));
        }
        if let Some(d) = &self.variables_derives {
            o.set_variables_derives(d.clone());
        }
        if let Some(d) = &self.response_derives {
            o.set_response_derives(d.clone());
        }
        if let Some(d) = self.deprecation {
            o.set_deprecation_strategy(match d {
                0 => deprecation::DeprecationStrategy::Allow,
                1 => deprecation::DeprecationStrategy::Warn,
                _ => deprecation::DeprecationStrategy::Deny,
            });
        }
        if self.normalization_rust {
            o.set_normalization(normalization::Normalization::Rust);
        }
        if let Some(m) = &self.custom_scalars_module {
            o.set_custom_scalars_module(syn::parse_str(m).unwrap());
        }
        o.set_extern_enums(self.extern_enums.clone());
        o.set_fragments_other_variant(self.fragments_other_variant);
        o.set_skip_serializing_none(self.skip_serializing_none);
        if let Some(p) = &self.serde_path {
            o.set_serde_path(syn::parse_str(p).unwrap());
        }
        if let Some(v) = &self.visibility {
            let vis: syn::Visibility = match v.as_str() {
                "" => syn::Visibility::Inherited,
                "pub" => syn::parse_str("pub").unwrap(),
                p => syn::parse_str(&format!("pub({})", p)).unwrap(),
            };
            o.set_module_visibility(vis);
        }
        if let Some(q) = &self.query_file {
            o.set_query_file(std::path::PathBuf::from(q));
        }
        o
    }
    pub fn to_coq(&self) -> String {
        format!(
            "(mkOpts {} {} {} {} {} {} {} {} {} {} {} {} {} {})",
            coq::b(self.cli_mode),
            coq::ostr(&self.operation_name),
            coq::ostr(&self.struct_name),
            coq::ostr(&self.variables_derives),
            coq::ostr(&self.response_derives),
            match self.deprecation {
                None => "None".to_string(),
                Some(0) => "(Some DAllow)".into(),
                Some(1) => "(Some DWarn)".into(),
                Some(_) => "(Some DDeny)".into(),
            },
            coq::b(self.normalization_rust),
            coq::ostr(&self.custom_scalars_module),
            coq::strs(&self.extern_enums),
            coq::b(self.fragments_other_variant),
            coq::b(self.skip_serializing_none),
            coq::ostr(&self.serde_path),
            match &self.visibility {
                None => "None".to_string(),
                Some(v) if v.is_empty() => "(Some VInherited)".into(),
                Some(v) if v == "pub" => "(Some VPub)".into(),
                Some(v) => format!("(Some (VRestricted {}))", coq::s(v)),
            },
            coq::ostr(&self.query_file)
        )
    }
}
