//! C15: Response / Error envelope — bodies from the spec grammar plus a malformed stream,
//! against graphql_client built from the working tree (in-process).
use crate::coq;
use crate::out::{Case, CaseSet};
use crate::rng::Rng;
use serde_json::{json, Map, Value};
use std::path::Path;

type Resp = graphql_client::Response<Value>;

fn gen_ext(rng: &mut Rng, depth: usize) -> Value {
    match rng.below(if depth == 0 { 5 } else { 7 }) {
        0 => Value::Null,
        1 => json!(rng.below(1000) as i64 - 500),
        2 => json!(rng.chance(1, 2)),
        3 => json!(["s", "", "k/", "h\u{e9}"][rng.below(4)]),
        4 => json!((rng.below(1000) as f64) / 8.0 + 0.5),
        5 => Value::Array((0..rng.below(3)).map(|_| gen_ext(rng, depth - 1)).collect()),
        _ => {
            let mut m = Map::new();
            for i in 0..rng.below(3) {
                m.insert(format!("k{}", i), gen_ext(rng, depth - 1));
            }
            Value::Object(m)
        }
    }
}

fn gen_opt(rng: &mut Rng, m: &mut Map<String, Value>, key: &str, mk: &mut dyn FnMut(&mut Rng) -> Value) {
    match rng.below(4) {
        0 => {}
        1 => {
            m.insert(key.into(), Value::Null);
        }
        _ => {
            let v = mk(rng);
            m.insert(key.into(), v);
        }
    }
}

fn gen_path_elem(rng: &mut Rng) -> Value {
    match rng.below(8) {
        0 => json!(0),
        1 => json!(i32::MAX),
        2 => json!(rng.below(50)),
        3 => json!(""),
        4 => json!("a/"),
        5 => json!("/"),
        6 => json!("user"),
        _ => json!("fri\u{e9}nds"),
    }
}

fn gen_error(rng: &mut Rng) -> Value {
    let mut m = Map::new();
    m.insert("message".into(), json!(["boom", "", "a: b", "multi\nline"][rng.below(4)]));
    gen_opt(rng, &mut m, "locations", &mut |rng| {
        Value::Array(
            (0..rng.below(3))
                .map(|_| {
                    let mut l = Map::new();
                    l.insert("line".into(), json!([0, 1, 7, i32::MAX][rng.below(4)]));
                    l.insert("column".into(), json!([0, 2, 80][rng.below(3)]));
                    if rng.chance(1, 5) {
                        l.insert("extra".into(), json!(true));
                    }
                    Value::Object(l)
                })
                .collect(),
        )
    });
    gen_opt(rng, &mut m, "path", &mut |rng| Value::Array((0..rng.below(5)).map(|_| gen_path_elem(rng)).collect()));
    gen_opt(rng, &mut m, "extensions", &mut |rng| {
        let mut e = Map::new();
        for i in 0..rng.below(3) {
            e.insert(format!("e{}", i), gen_ext(rng, 2));
        }
        Value::Object(e)
    });
    if rng.chance(1, 6) {
        m.insert("unknownMember".into(), gen_ext(rng, 1));
    }
    Value::Object(m)
}

fn gen_body(rng: &mut Rng) -> Value {
    let mut m = Map::new();
    gen_opt(rng, &mut m, "data", &mut |rng| {
        let mut d = Map::new();
        for i in 0..rng.below(3) {
            d.insert(format!("f{}", i), gen_ext(rng, 2));
        }
        Value::Object(d)
    });
    gen_opt(rng, &mut m, "errors", &mut |rng| Value::Array((0..rng.below(4)).map(|_| gen_error(rng)).collect()));
    gen_opt(rng, &mut m, "extensions", &mut |rng| {
        let mut e = Map::new();
        for i in 0..rng.below(3) {
            e.insert(format!("x{}", i), gen_ext(rng, 2));
        }
        Value::Object(e)
    });
    if rng.chance(1, 6) {
        m.insert("hasNext".into(), json!(false));
    }
    Value::Object(m)
}

/// single-point corruption: makes the body (usually) not spec-shaped
fn corrupt(rng: &mut Rng, v: &Value) -> Value {
    let mut v = v.clone();
    let bad = [json!(5), json!("str"), json!([1]), json!({"a": 1}), json!(true), json!(1.5), json!(3000000000u64)];
    let pick = bad[rng.below(bad.len())].clone();
    if let Some(o) = v.as_object_mut() {
        let keys: Vec<String> = o.keys().cloned().collect();
        if keys.is_empty() {
            return pick;
        }
        let k = keys[rng.below(keys.len())].clone();
        if rng.chance(1, 2) {
            o.insert(k, pick);
        } else {
            let inner = o[&k].clone();
            let c = match &inner {
                Value::Array(a) if !a.is_empty() => {
                    let mut a2 = a.clone();
                    let i = rng.below(a2.len());
                    a2[i] = corrupt(rng, &a2[i]);
                    Value::Array(a2)
                }
                Value::Object(_) => corrupt(rng, &inner),
                _ => pick,
            };
            o.insert(k, c);
        }
    } else {
        return pick;
    }
    v
}

fn sobs(text: &str) -> String {
    let a: Result<Resp, _> = serde_json::from_str(text);
    let val: Value = serde_json::from_str(text).unwrap();
    let b: Result<Resp, _> = serde_json::from_value(val);
    match (a, b) {
        (Ok(x), Ok(y)) => {
            let sx = serde_json::to_value(&x).unwrap();
            let sy = serde_json::to_value(&y).unwrap();
            if sx == sy && x == y {
                format!("(SOk {})", coq::json(&sx))
            } else {
                "SSplit".into()
            }
        }
        (Err(_), Err(_)) => "SErr".into(),
        _ => "SSplit".into(),
    }
}

/// The HTTP helper the crate offers (`graphql_client::reqwest::post_graphql_blocking`, feature
/// reqwest-blocking — the one the CLI is built with): a server may answer a GraphQL request with a
/// well-formed response body under ANY status code (validation errors under 400 / 422, resolver failures
/// under 500 ...); the helper's job is to hand that body to `Response<T>`.
struct HttpQ;
impl graphql_client::GraphQLQuery for HttpQ {
    type Variables = Value;
    type ResponseData = Value;
    fn build_query(variables: Value) -> graphql_client::QueryBody<Value> {
        graphql_client::QueryBody { variables, query: "query Q { x }", operation_name: "Q" }
    }
}

/// one request on a loopback listener, answered with `status` and `body`
fn http_sobs(status: u16, body: &str) -> Option<String> {
    use std::io::{Read, Write};
    let listener = std::net::TcpListener::bind("127.0.0.1:0").ok()?;
    let port = listener.local_addr().ok()?.port();
    let body_owned = body.to_string();
    let server = std::thread::spawn(move || {
        if let Ok((mut s, _)) = listener.accept() {
            let _ = s.set_read_timeout(Some(std::time::Duration::from_secs(5)));
            let mut buf = vec![];
            let mut tmp = [0u8; 4096];
            // read the head, then as many body bytes as Content-Length announces
            let (mut head_end, mut want) = (None, 0usize);
            loop {
                match s.read(&mut tmp) {
                    Ok(0) | Err(_) => break,
                    Ok(n) => buf.extend_from_slice(&tmp[..n]),
                }
                if head_end.is_none() {
                    if let Some(i) = buf.windows(4).position(|w| w == b"\r\n\r\n") {
                        head_end = Some(i + 4);
                        let head = String::from_utf8_lossy(&buf[..i]).to_lowercase();
                        want = head.lines().find_map(|l| l.strip_prefix("content-length:").and_then(|v| v.trim().parse().ok())).unwrap_or(0);
                    }
                }
                if let Some(h) = head_end {
                    if buf.len() >= h + want {
                        break;
                    }
                }
            }
            let reason = match status { 200 => "OK", 400 => "Bad Request", 422 => "Unprocessable Entity", 500 => "Internal Server Error", _ => "Status" };
            let _ = write!(s, "HTTP/1.1 {} {}\r\nContent-Type: application/json\r\nContent-Length: {}\r\nConnection: close\r\n\r\n", status, reason, body_owned.len());
            let _ = s.write_all(body_owned.as_bytes());
            let _ = s.flush();
        }
    });
    let client = reqwest::blocking::Client::builder().no_proxy().timeout(std::time::Duration::from_secs(10)).build().ok()?;
    let r = graphql_client::reqwest::post_graphql_blocking::<HttpQ, _>(&client, format!("http://127.0.0.1:{}/graphql", port), json!({}));
    // should the client never have connected, unblock the listener so that the thread can finish
    let _ = std::net::TcpStream::connect(("127.0.0.1", port));
    let _ = server.join();
    Some(match r {
        Ok(resp) => format!("(SOk {})", coq::json(&serde_json::to_value(&resp).unwrap())),
        Err(_) => "SErr".into(),
    })
}

pub fn run(outdir: &Path, tier: &str, seed: u64, shards: usize, replay: Option<String>) {
    crate::runner::quiet_panics();
    let mut rng = Rng::new(seed ^ 0xC15);
    let mut bodies: Vec<Value> = vec![];
    if let Some(rp) = replay {
        let v: Value = serde_json::from_str(&std::fs::read_to_string(rp).unwrap()).unwrap();
        bodies.push(v["case"]["input"].clone());
    } else {
        bodies.extend(vec![
            json!({}),
            json!({"data": null}),
            json!({"data": {"a": 1}}),
            json!({"errors": []}),
            json!({"data": {"a": 1}, "errors": [{"message": "m"}]}),
            json!({"errors": [{"message": "m", "path": ["a", 1, "b"], "locations": [{"line": 3, "column": 4}, {"line": 9, "column": 9}]}]}),
            json!({"errors": [{"message": "m", "path": ["a/"]}, {"message": "n", "path": ["a", ""]}, {"message": "o", "path": []}, {"message": "p", "path": ["/"]}]}),
            json!({"errors": [{"message": "m", "locations": []}]}),
            json!({"errors": [{"message": "m", "path": [2147483647, 0]}]}),
            json!({"errors": [{"message": "m", "extensions": {"code": "X", "nested": {"a": [1, 2.5, null]}}}], "extensions": {"tracing": {"v": 1}}}),
        ]);
        let n = if tier == "thorough" { 20000 } else { 1500 };
        for _ in 0..n {
            let b = gen_body(&mut rng);
            if rng.chance(1, 4) {
                bodies.push(corrupt(&mut rng, &b));
            }
            bodies.push(b);
        }
    }
    let mut cases = vec![];
    let mut dist = std::collections::BTreeMap::<String, usize>::new();
    let mut seen_err = std::collections::BTreeSet::new();
    for b in &bodies {
        let text = serde_json::to_string(b).unwrap();
        let o = sobs(&text);
        *dist.entry(format!("body/{}", o.split(' ').next().unwrap().trim_start_matches('('))).or_default() += 1;
        cases.push(Case {
            coq: format!("(CBody {} {})", coq::json(b), o),
            desc: json!({"kind": "body", "input": b, "observed": o.chars().take(200).collect::<String>()}),
            key: format!("body|{}", text),
            nontrivial: b.as_object().map(|m| m.len() > 0).unwrap_or(false),
        });
        // the same body through the HTTP helper, under the status codes servers use for GraphQL replies
        if cases.len() < 400 || cases.len() % 97 == 0 {
            let status = [200u16, 400, 500, 422][cases.len() % 4];
            if let Some(oh) = http_sobs(status, &text) {
                *dist.entry(format!("http {}/{}", status, oh.split(' ').next().unwrap().trim_start_matches('('))).or_default() += 1;
                cases.push(Case {
                    coq: format!("(CBody {} {})", coq::json(b), oh),
                    desc: json!({"kind": "body through post_graphql_blocking", "http_status": status, "input": b, "observed": oh.chars().take(200).collect::<String>()}),
                    key: format!("http|{}|{}", status, text),
                    nontrivial: true,
                });
            }
        }
        // round trip through the Rust values
        let rt: Option<bool> = serde_json::from_str::<Resp>(&text).ok().map(|r| {
            let s = serde_json::to_string(&r).unwrap();
            match serde_json::from_str::<Resp>(&s) {
                Ok(r2) => r == r2,
                Err(_) => false,
            }
        });
        cases.push(Case {
            coq: format!("(CRoundtrip {} {})", coq::json(b), coq::opt(&rt, |x| coq::b(*x).to_string())),
            desc: json!({"kind": "roundtrip", "input": b, "observed": rt}),
            key: format!("rt|{}", text),
            nontrivial: true,
        });
        // Display of every error entry
        if let Some(errs) = b.get("errors").and_then(|e| e.as_array()) {
            for e in errs {
                let et = serde_json::to_string(e).unwrap();
                if !seen_err.insert(et.clone()) {
                    continue;
                }
                let shown: Option<String> = serde_json::from_str::<graphql_client::Error>(&et).ok().and_then(|err| {
                    std::panic::catch_unwind(|| format!("{}", err)).ok()
                });
                *dist.entry(format!("display/{}", if shown.is_some() { "shown" } else { "rejected-or-panic" })).or_default() += 1;
                cases.push(Case {
                    coq: format!("(CDisplay {} {})", coq::json(e), coq::ostr(&shown)),
                    desc: json!({"kind": "display", "input": e, "observed": shown}),
                    key: format!("display|{}", et),
                    nontrivial: e.get("path").map(|p| p.is_array()).unwrap_or(false),
                });
            }
        }
    }
    let samples: Vec<_> = cases.iter().step_by((cases.len() / 8).max(1)).map(|c| c.desc.clone()).collect();
    let cs = CaseSet {
        run_module: "RunC15".into(),
        cases,
        checkers: vec!["corr".into(), "corr_wt".into(), "prop_accept".into(), "prop_display".into(), "prop_roundtrip".into(), "wellformed".into()],
        extra_imports: vec!["Json".into(), "RunSerde".into()],
        preludes: vec![],
    };
    cs.write(
        outdir,
        shards,
        json!({
            "rule": "bodies generated from the envelope grammar (every optional member absent / null / present; paths of length 0-4 mixing names (incl. empty, `a/`, `/`) and indices (0, i32::MAX); locations; nested extension JSON with floats; unknown members at every level) plus a stream of single-point corruptions; each through from_str and from_value with T = serde_json::Value, re-serialised; a share of them also through the crate's HTTP helper (reqwest::post_graphql_blocking against a loopback listener answering 200 / 400 / 422 / 500 with that body); Rust-value round trip r == from_str(to_string(r)); Display of every distinct error entry. `wellformed` lists the cases outside the grammar.",
            "exhaustive": false,
            "distribution": dist,
            "samples": samples,
        }),
    );
}
