//! Directed programs for C04 (and the variables half of C09).
use crate::gql::*;
use crate::progs::{apply_wrap, Program};

pub fn schema() -> SchemaDoc {
    let f = |n: &str, t: GType| (n.to_string(), t);
    let n = GType::named;
    SchemaDoc {
        defs: vec![
            TypeDef::Scalar { name: "Date".into() },
            TypeDef::Enum { name: "Color".into(), values: vec!["RED".into(), "GREEN".into(), "type".into(), "snake_value".into()] },
            TypeDef::Input { name: "Point".into(), fields: vec![f("x", GType::nn(n("Int"))), f("y", n("Float")), f("label", n("String"))], one_of: false },
            TypeDef::Input { name: "Filter".into(), fields: vec![f("nameLike", n("String")), f("type", n("Color")), f("in", GType::list(GType::nn(n("ID")))), f("snake_case", GType::nn(n("Boolean"))), f("at", n("Date")), f("corner", n("Point")), f("corners", GType::list(n("Point")))], one_of: false },
            TypeDef::Input { name: "Tree".into(), fields: vec![f("value", GType::nn(n("Int"))), f("left", n("Tree")), f("children", GType::list(GType::nn(n("Tree")))), f("pick", n("Choice"))], one_of: false },
            TypeDef::Input { name: "Choice".into(), fields: vec![f("byId", n("ID")), f("byPoint", n("Point")), f("byColor", n("Color")), f("many", GType::list(GType::nn(n("Int")))), f("self", n("Tree")), f("snake_member", n("Int")), f("URL", n("String")), f("Capital", n("Boolean"))], one_of: true },
            TypeDef::Object { name: "Query".into(), implements: vec![], fields: vec![FieldDef::new("ok", n("Boolean"))] },
        ],
        schema_block: None,
        // defaults do not change the generated types: a non-null member stays required
        input_defaults: vec![("Point".into(), "x".into(), "0".into()), ("Filter".into(), "snake_case".into(), "true".into()),
                             ("Filter".into(), "nameLike".into(), "\"abc\"".into()), ("Tree".into(), "value".into(), "1".into()),
                             ("Filter".into(), "in".into(), "[]".into())],
    }
}

pub fn directed() -> Vec<Program> {
    let wraps = ["T", "T!", "[T]", "[T!]", "[T]!", "[T!]!", "[[T!]]", "[[T]!]!"];
    let leaves = ["Int", "Float", "String", "Boolean", "ID", "Date", "Color", "Point", "Filter", "Tree", "Choice"];
    let mut out = vec![];
    let mut k = 0;
    // every leaf under every wrapping, three variables per operation
    let mut all: Vec<(String, GType)> = vec![];
    for l in leaves {
        for w in wraps {
            all.push((format!("v{}", all.len()), apply_wrap(w, l)));
        }
    }
    for chunk in all.chunks(8) {
        k += 1;
        for (skip, norm) in [(false, false), (true, true)] {
            let vars: Vec<VarDef> = chunk.iter().map(|(n, t)| VarDef { name: n.clone(), ty: t.clone(), default: None }).collect();
            let opts = Opts { operation_name: Some("Vars".into()), variables_derives: Some("Deserialize,Debug".into()), visibility: Some("pub".into()), skip_serializing_none: skip, normalization_rust: norm, ..Opts::default() };
            out.push(Program {
                schema: schema(),
                doc: QueryDoc { defs: vec![QDef::Op { kind: OpKind::Query, name: Some("Vars".into()), vars, sel: vec![Sel::field("ok")] }] },
                opts,
                tags: vec![format!("directed-vars-{}", k)],
            });
        }
    }
    // names that need escaping or renaming, a default, no variables at all
    for skip in [false, true] {
        let vars = vec![
            VarDef { name: "type".into(), ty: GType::named("Color"), default: None },
            VarDef { name: "camelCase".into(), ty: GType::nn(GType::named("Filter")), default: None },
            VarDef { name: "The_Id".into(), ty: GType::named("ID"), default: None },
            VarDef { name: "first".into(), ty: GType::named("Int"), default: Some("3".into()) },
        ];
        out.push(Program {
            schema: schema(),
            doc: QueryDoc { defs: vec![QDef::Op { kind: OpKind::Query, name: Some("Names".into()), vars, sel: vec![Sel::field("ok")] }] },
            opts: Opts { operation_name: Some("Names".into()), variables_derives: Some("Deserialize".into()), visibility: Some("pub".into()), skip_serializing_none: skip, ..Opts::default() },
            tags: vec!["directed-names".into()],
        });
    }
    // default values of every shape: scalars, enum, lists (non-null, nested, with nulls), an object with a list
    // member and a nested object; the generated `default_<name>()` bodies must have the declared types
    {
        let l = GType::list;
        let nn = GType::nn;
        let n = GType::named;
        // the shapes the generator renders correctly: scalars and ID, and lists of them at any non-null nesting
        let vars = vec![
            VarDef { name: "ids".into(), ty: nn(l(nn(n("Int")))), default: Some("[1, 2]".into()) },
            VarDef { name: "grid".into(), ty: l(nn(l(nn(n("Int"))))), default: Some("[[1, 2], [3]]".into()) },
            VarDef { name: "names".into(), ty: l(nn(n("String"))), default: Some("[\"a\", \"b\"]".into()) },
            VarDef { name: "flag".into(), ty: nn(n("Boolean")), default: Some("true".into()) },
            VarDef { name: "ratio".into(), ty: n("Float"), default: Some("1.5".into()) },
            VarDef { name: "key".into(), ty: n("ID"), default: Some("\"k1\"".into()) },
            VarDef { name: "keys".into(), ty: nn(l(nn(n("ID")))), default: Some("[\"k1\", \"k2\"]".into()) },
            VarDef { name: "empty".into(), ty: l(nn(n("Float"))), default: Some("[]".into()) },
        ];
        for skip in [false, true] {
            out.push(Program {
                schema: schema(),
                doc: QueryDoc { defs: vec![QDef::Op { kind: OpKind::Query, name: Some("Defaults".into()), vars: vars.clone(), sel: vec![Sel::field("ok")] }] },
                opts: Opts { operation_name: Some("Defaults".into()), variables_derives: Some("Debug".into()), visibility: Some("pub".into()), skip_serializing_none: skip, ..Opts::default() },
                tags: vec!["directed-defaults".into()],
            });
        }
        // known finding K14: defaults of enum / input-object type (bare enum identifier, raw member names)
        for v in [
            VarDef { name: "color".into(), ty: n("Color"), default: Some("GREEN".into()) },
            VarDef { name: "point".into(), ty: n("Point"), default: Some("{x: 1, y: 2.5}".into()) },
            VarDef { name: "filter".into(), ty: n("Filter"), default: Some("{snake_case: true, in: [\"a\"], corner: {x: 0}}".into()) },
        ] {
            out.push(Program {
                schema: schema(),
                doc: QueryDoc { defs: vec![QDef::Op { kind: OpKind::Query, name: Some("Defaults".into()), vars: vec![v], sel: vec![Sel::field("ok")] }] },
                opts: Opts { operation_name: Some("Defaults".into()), variables_derives: Some("Debug".into()), visibility: Some("pub".into()), ..Opts::default() },
                tags: vec!["directed-defaults-k14".into()],
            });
        }
    }
    out.push(Program {
        schema: schema(),
        doc: QueryDoc { defs: vec![QDef::Op { kind: OpKind::Query, name: Some("NoVars".into()), vars: vec![], sel: vec![Sel::field("ok")] }] },
        opts: Opts { operation_name: Some("NoVars".into()), variables_derives: Some("Deserialize".into()), visibility: Some("pub".into()), ..Opts::default() },
        tags: vec!["directed-novars".into()],
    });
    out
}
