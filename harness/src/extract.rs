//! Translator (T): reads declarations and literal tables from the CURRENT /repo working tree
//! and writes coq/theories/Gen/*.v.  Declarations and literals only.
use crate::coq;
use crate::items;
use std::fs;
use std::path::Path;

fn parse(path: &Path) -> syn::File {
    let src = fs::read_to_string(path).unwrap_or_else(|e| panic!("read {}: {}", path.display(), e));
    syn::parse_file(&src).unwrap_or_else(|e| panic!("parse {}: {}", path.display(), e))
}

fn const_str_array(f: &syn::File, name: &str) -> Option<Vec<String>> {
    for it in &f.items {
        if let syn::Item::Const(c) = it {
            if c.ident == name {
                let mut e: &syn::Expr = &c.expr;
                if let syn::Expr::Reference(r) = e {
                    e = &r.expr;
                }
                if let syn::Expr::Array(a) = e {
                    let mut out = vec![];
                    for el in &a.elems {
                        if let syn::Expr::Lit(syn::ExprLit { lit: syn::Lit::Str(s), .. }) = el {
                            out.push(s.value());
                        } else {
                            return None;
                        }
                    }
                    return Some(out);
                }
            }
        }
    }
    None
}

/// The table is found by name, or — if a refactoring renamed it — as the only constant of the
/// file that is an array of string literals (the tables this translator reads are the only such
/// constants in their files); two candidates are not guessed between.
fn str_table(f: &syn::File, name: &str) -> Option<Vec<String>> {
    if let Some(v) = const_str_array(f, name) {
        return Some(v);
    }
    let mut found = vec![];
    for it in &f.items {
        if let syn::Item::Const(c) = it {
            if let Some(v) = const_str_array(f, &c.ident.to_string()) {
                if !v.is_empty() {
                    found.push(v);
                }
            }
        }
    }
    if found.len() == 1 {
        found.pop()
    } else {
        None
    }
}

fn const_str(f: &syn::File, name: &str) -> Option<String> {
    for it in &f.items {
        if let syn::Item::Const(c) = it {
            if c.ident == name {
                if let syn::Expr::Lit(syn::ExprLit { lit: syn::Lit::Str(s), .. }) = &*c.expr {
                    return Some(s.value());
                }
            }
        }
    }
    None
}

/// A string constant by name or, if renamed, the only string constant of the file that `keep` admits.
fn str_const(f: &syn::File, name: &str, keep: &dyn Fn(&str) -> bool) -> Option<String> {
    if let Some(v) = const_str(f, name) {
        return Some(v);
    }
    let mut found = vec![];
    for it in &f.items {
        if let syn::Item::Const(c) = it {
            if let Some(v) = const_str(f, &c.ident.to_string()) {
                if keep(&v) {
                    found.push(v);
                }
            }
        }
    }
    if found.len() == 1 {
        found.pop()
    } else {
        None
    }
}

/// scan a token stream (recursively) for `type A = B ;`
fn scan_aliases(ts: proc_macro2::TokenStream, out: &mut Vec<(String, String)>) {
    use proc_macro2::TokenTree as TT;
    let toks: Vec<TT> = ts.into_iter().collect();
    let mut i = 0;
    while i < toks.len() {
        if let TT::Group(g) = &toks[i] {
            scan_aliases(g.stream(), out);
        }
        if let TT::Ident(id) = &toks[i] {
            if id == "type" && i + 4 < toks.len() {
                if let (TT::Ident(a), TT::Punct(eq), TT::Ident(b), TT::Punct(semi)) =
                    (&toks[i + 1], &toks[i + 2], &toks[i + 3], &toks[i + 4])
                {
                    if eq.as_char() == '=' && semi.as_char() == ';' {
                        out.push((a.to_string(), b.to_string()));
                    }
                }
            }
        }
        i += 1;
    }
}

struct MacroScan {
    aliases: Vec<(String, String)>,
}
impl<'a> syn::visit::Visit<'a> for MacroScan {
    fn visit_macro(&mut self, m: &'a syn::Macro) {
        if m.path.segments.last().map(|s| s.ident == "quote").unwrap_or(false) {
            scan_aliases(m.tokens.clone(), &mut self.aliases);
        }
    }
}

fn write_if_changed(path: &Path, content: &str) {
    if let Ok(old) = fs::read_to_string(path) {
        if old == content {
            return;
        }
    }
    fs::write(path, content).unwrap();
}

fn operation_names(doc_path: &Path) -> Vec<String> {
    let src = fs::read_to_string(doc_path).unwrap_or_default();
    let mut out = vec![];
    if let Ok(doc) = graphql_parser::parse_query::<String>(&src) {
        for d in doc.definitions {
            if let graphql_parser::query::Definition::Operation(op) = d {
                use graphql_parser::query::OperationDefinition::*;
                let n = match op {
                    Query(q) => q.name,
                    Mutation(m) => m.name,
                    Subscription(s) => s.name,
                    SelectionSet(_) => None,
                };
                out.push(n.unwrap_or_default());
            }
        }
    }
    out
}

pub fn run(repo: &Path, outdir: &Path) {
    fs::create_dir_all(outdir).unwrap();
    let header = "(* GENERATED by the translator (harness `vh extract`) from the current /repo working tree.\n   Do not edit; regenerated on every check. *)\nFrom GC Require Import Base Rust.\n\n";

    // ---- Keywords.v
    let shared = parse(&repo.join("graphql_client_codegen/src/codegen/shared.rs"));
    let kws = str_table(&shared, "RUST_KEYWORDS").expect("keyword table (RUST_KEYWORDS) not found in codegen/shared.rs");
    let schema_rs = parse(&repo.join("graphql_client_codegen/src/schema.rs"));
    let scalars = str_table(&schema_rs, "DEFAULT_SCALARS").expect("built-in scalar table (DEFAULT_SCALARS) not found in schema.rs");
    let codegen = parse(&repo.join("graphql_client_codegen/src/codegen.rs"));
    let mut ms = MacroScan { aliases: vec![] };
    syn::visit::Visit::visit_file(&mut ms, &codegen);
    let constants = parse(&repo.join("graphql_client_codegen/src/constants.rs"));
    let typename = str_const(&constants, "TYPENAME_FIELD", &|v| !v.is_empty() && !v.contains(char::is_whitespace)).unwrap_or_default();
    let mut k = String::from(header);
    k.push_str(&format!("Definition rust_keywords : list string :=\n  {}.\n\n", coq::strs(&kws)));
    k.push_str(&format!("Definition default_scalars : list string := {}.\n\n", coq::strs(&scalars)));
    k.push_str(&format!(
        "Definition builtin_aliases : list (string * string) := {}.\n\n",
        coq::list(&ms.aliases, |(a, b)| format!("({}, {})", coq::s(a), coq::s(b)))
    ));
    k.push_str(&format!("Definition typename_field : string := {}.\n", coq::s(&typename)));
    write_if_changed(&outdir.join("Keywords.v"), &k);

    // ---- LibTypes.v
    let lib = parse(&repo.join("graphql_client/src/lib.rs"));
    let sw = parse(&repo.join("graphql_client/src/serde_with.rs"));
    let (lib_items, _, _) = items::conv_items(&lib.items);
    let (sw_items, _, _) = items::conv_items(&sw.items);
    let mut l = String::from(header);
    l.push_str(&format!("Definition lib_items : list ritem :=\n  {}.\n\n", coq::list(&lib_items, |i| format!("\n   {}", i.to_coq()))));
    l.push_str(&format!("Definition serde_with_items : list ritem :=\n  {}.\n", coq::list(&sw_items, |i| format!("\n   {}", i.to_coq()))));
    write_if_changed(&outdir.join("LibTypes.v"), &l);

    // ---- CliFacts.v
    let gen = parse(&repo.join("graphql_client_cli/src/generate.rs"));
    let warn = str_const(&gen, "WARNING_SUPPRESSION", &|v| v.starts_with("#!")).unwrap_or_default();
    let iq = parse(&repo.join("graphql_client_cli/src/introspection_queries.rs"));
    let mut docs: Vec<(String, String, Vec<String>)> = vec![];
    for it in &iq.items {
        if let syn::Item::Struct(s) = it {
            let mut qp = None;
            for a in &s.attrs {
                if a.path().is_ident("graphql") {
                    if let Ok(ms) = a.parse_args_with(
                        syn::punctuated::Punctuated::<syn::Meta, syn::Token![,]>::parse_terminated,
                    ) {
                        for m in ms {
                            if let syn::Meta::NameValue(nv) = m {
                                if nv.path.is_ident("query_path") {
                                    if let syn::Expr::Lit(syn::ExprLit { lit: syn::Lit::Str(v), .. }) = &nv.value {
                                        qp = Some(v.value());
                                    }
                                }
                            }
                        }
                    }
                }
            }
            if let Some(qp) = qp {
                let ops = operation_names(&repo.join("graphql_client_cli").join(&qp));
                docs.push((s.ident.to_string(), qp, ops));
            }
        }
    }
    let mut c = String::from(header);
    c.push_str(&format!("Definition warning_suppression : string := {}.\n\n", coq::s(&warn)));
    c.push_str(&format!(
        "(* (derive struct, query file, operation names defined in that file) *)\nDefinition introspection_docs : list (string * string * list string) :=\n  {}.\n",
        coq::list(&docs, |(a, b, ops)| format!("({}, {}, {})", coq::s(a), coq::s(b), coq::strs(ops)))
    ));
    write_if_changed(&outdir.join("CliFacts.v"), &c);
}
