//! Random (seeded) generation of schemas, query documents and option sets: structured,
//! mostly-valid programs; the invalidating edits of C06 live in c06.rs.
use crate::gql::*;
use crate::rng::Rng;
use serde::{Deserialize, Serialize};

#[derive(Clone, Debug, Serialize, Deserialize)]
pub struct Program {
    pub schema: SchemaDoc,
    pub doc: QueryDoc,
    pub opts: Opts,
    /// features present (for the distribution report and for known-class filtering)
    pub tags: Vec<String>,
}

const WRAPS: [&str; 8] = ["T", "T!", "[T]", "[T!]", "[T]!", "[T!]!", "[[T!]]", "[[T]!]!"];

pub fn wrap(rng: &mut Rng, leaf: &str, plain_bias: usize) -> GType {
    let w = if rng.chance(plain_bias, 10) { WRAPS[rng.below(2)] } else { WRAPS[rng.below(WRAPS.len())] };
    apply_wrap(w, leaf)
}

pub fn apply_wrap(w: &str, leaf: &str) -> GType {
    match w {
        "T" => GType::named(leaf),
        "T!" => GType::nn(GType::named(leaf)),
        "[T]" => GType::list(GType::named(leaf)),
        "[T!]" => GType::list(GType::nn(GType::named(leaf))),
        "[T]!" => GType::nn(GType::list(GType::named(leaf))),
        "[T!]!" => GType::nn(GType::list(GType::nn(GType::named(leaf)))),
        "[[T!]]" => GType::list(GType::list(GType::nn(GType::named(leaf)))),
        _ => GType::nn(GType::list(GType::nn(GType::list(GType::named(leaf))))),
    }
}

pub struct SchemaInfo {
    pub scalars: Vec<String>,
    pub enums: Vec<String>,
    pub interfaces: Vec<String>,
    pub objects: Vec<String>,
    pub unions: Vec<String>,
    pub inputs: Vec<String>,
}

fn subset<T: Clone>(rng: &mut Rng, xs: &[T], min: usize, max: usize) -> Vec<T> {
    let mut v: Vec<T> = xs.to_vec();
    rng.shuffle(&mut v);
    let n = min + rng.below(max.saturating_sub(min) + 1);
    v.truncate(n.min(xs.len()));
    v
}

pub fn gen_schema(rng: &mut Rng) -> (SchemaDoc, SchemaInfo) {
    let scalars = subset(rng, &["Date".to_string(), "my_scalar".to_string()], 0, 2);
    let enum_pool: Vec<(String, Vec<String>)> = vec![
        ("Color".into(), vec!["RED".into(), "GREEN".into(), "BLUE".into()]),
        ("kind_enum".into(), vec!["a_b".into(), "Cd".into(), "type".into()]),
        ("Mood".into(), vec!["HAPPY".into(), "self".into()]),
    ];
    let enums = subset(rng, &enum_pool, 1, 3);
    let leaf_pool: Vec<String> = ["Int", "String", "ID", "Boolean", "Float"]
        .iter()
        .map(|s| s.to_string())
        .chain(scalars.iter().cloned())
        .chain(enums.iter().map(|e| e.0.clone()))
        .collect();
    let iface_names = subset(rng, &["Named".to_string(), "Node".to_string()], 0, 2);
    let obj_names = subset(rng, &["Dog".to_string(), "Cat".to_string(), "Person".to_string(), "http_thing".to_string(), "Droid".to_string()], 2, 5);
    let union_names = subset(rng, &["Pet".to_string(), "SearchResult".to_string()], 0, 2);
    let composite: Vec<String> = iface_names.iter().chain(obj_names.iter()).chain(union_names.iter()).cloned().collect();
    let field_pool = ["name", "friendList", "snake_field", "type", "id", "age", "owner", "best", "items", "Title", "in", "barkVolume"];
    let mut gen_fields = |rng: &mut Rng, n: usize, taken: &mut Vec<String>| -> Vec<FieldDef> {
        let mut out = vec![];
        for _ in 0..n {
            let fname = field_pool[rng.below(field_pool.len())].to_string();
            if taken.contains(&fname) {
                continue;
            }
            taken.push(fname.clone());
            let leaf = if rng.chance(4, 10) && !composite.is_empty() { composite[rng.below(composite.len())].clone() } else { leaf_pool[rng.below(leaf_pool.len())].clone() };
            let mut f = FieldDef::new(&fname, wrap(rng, &leaf, 6));
            match rng.below(8) {
                0 => f.deprecated = Some(None),
                1 => f.deprecated = Some(Some(["old", "use \"other\"", "a\\b", "two\nlines", "caf\u{e9}"][rng.below(5)].to_string())),
                _ => {}
            }
            out.push(f);
        }
        out
    };
    let mut defs = vec![];
    for s in &scalars {
        defs.push(TypeDef::Scalar { name: s.clone() });
    }
    for (n, vs) in &enums {
        defs.push(TypeDef::Enum { name: n.clone(), values: vs.clone() });
    }
    let mut iface_fields: Vec<(String, Vec<FieldDef>)> = vec![];
    for n in &iface_names {
        let mut taken = vec![];
        let k = 1 + rng.below(3);
        let fs = gen_fields(rng, k, &mut taken);
        let fs = if fs.is_empty() { vec![FieldDef::new("name", GType::named("String"))] } else { fs };
        iface_fields.push((n.clone(), fs.clone()));
        defs.push(TypeDef::Interface { name: n.clone(), fields: fs });
    }
    let mut extends = vec![];
    for n in &obj_names {
        let imps: Vec<String> = iface_names.iter().filter(|_| rng.chance(1, 2)).cloned().collect();
        let mut taken = vec![];
        let mut fs = vec![];
        for i in &imps {
            for f in &iface_fields.iter().find(|x| &x.0 == i).unwrap().1 {
                if !taken.contains(&f.name) {
                    taken.push(f.name.clone());
                    fs.push(f.clone());
                }
            }
        }
        let k = 1 + rng.below(4);
        fs.extend(gen_fields(rng, k, &mut taken));
        if fs.is_empty() {
            fs.push(FieldDef::new("name", GType::named("String")));
        }
        if rng.chance(1, 6) {
            let k2 = 1 + rng.below(2);
            let ef = gen_fields(rng, k2, &mut taken);
            if !ef.is_empty() {
                extends.push(TypeDef::Extend { name: n.clone(), implements: vec![], fields: ef });
            }
        }
        defs.push(TypeDef::Object { name: n.clone(), implements: imps, fields: fs });
    }
    for n in &union_names {
        let members = subset(rng, &obj_names, 1, 3);
        defs.push(TypeDef::Union { name: n.clone(), members });
    }
    let mut input_defaults: Vec<(String, String, String)> = vec![];
    let input_names = subset(rng, &["Filter".to_string(), "PageInput".to_string(), "oneof_in".to_string(), "Tree".to_string()], 0, 3);
    let in_leaf: Vec<String> = ["Int", "String", "ID", "Boolean", "Float"].iter().map(|s| s.to_string()).chain(scalars.iter().cloned()).chain(enums.iter().map(|e| e.0.clone())).collect();
    let in_field_pool = ["first", "after", "nameLike", "sub", "and_also", "Or", "type", "value", "ids"];
    for n in &input_names {
        let one_of = n == "oneof_in" || rng.chance(1, 6);
        let mut fields = vec![];
        let k = 1 + rng.below(4);
        for _ in 0..k {
            let fname = in_field_pool[rng.below(in_field_pool.len())].to_string();
            if fields.iter().any(|(x, _): &(String, GType)| x == &fname) {
                continue;
            }
            let leaf = if rng.chance(3, 10) { input_names[rng.below(input_names.len())].clone() } else { in_leaf[rng.below(in_leaf.len())].clone() };
            let ty = if one_of { GType::named(&leaf) } else { wrap(rng, &leaf, 5) };
            // a non-null self/mutual reference without a list is not a finite GraphQL value; keep such edges nullable or in lists
            let ty = if input_names.contains(&leaf) && matches!(ty, GType::NonNull(ref inner) if matches!(**inner, GType::Named(_))) { GType::named(&leaf) } else { ty };
            fields.push((fname, ty));
        }
        if !one_of {
            for (fname, ty) in &fields {
                let leaf = ty.name().to_string();
                let plain = matches!(ty, GType::Named(_)) || matches!(ty, GType::NonNull(inner) if matches!(**inner, GType::Named(_)));
                if plain && rng.chance(1, 4) {
                    let dv = match leaf.as_str() { "Int" => Some("3"), "Boolean" => Some("true"), "String" => Some("\"s\""), "Float" => Some("1.5"), "ID" => Some("\"id\""), _ => None };
                    if let Some(dv) = dv {
                        input_defaults.push((n.clone(), fname.clone(), dv.to_string()));
                    }
                }
            }
        }
        defs.push(TypeDef::Input { name: n.clone(), fields, one_of });
    }
    // roots
    let explicit = rng.chance(1, 4);
    let qname = if explicit { "RootQuery" } else { "Query" };
    let mut taken = vec![];
    let kq = 2 + rng.below(3);
    let mut qfields = gen_fields(rng, kq, &mut taken);
    for c in &composite {
        if rng.chance(2, 3) {
            let fname = format!("{}Field", c.to_lowercase());
            qfields.push(FieldDef::new(&fname, wrap(rng, c, 5)));
        }
    }
    if !qfields.iter().any(|f| composite.contains(&f.ty.name().to_string())) {
        qfields.push(FieldDef::new("thing", GType::named(&obj_names[0])));
    }
    defs.push(TypeDef::Object { name: qname.into(), implements: vec![], fields: qfields });
    let has_mut = rng.chance(1, 3);
    let has_sub = rng.chance(1, 4);
    let mname = if explicit { "TheMutation" } else { "Mutation" };
    let sname = if explicit { "Subs" } else { "Subscription" };
    if has_mut {
        defs.push(TypeDef::Object { name: mname.into(), implements: vec![], fields: vec![FieldDef::new("doIt", GType::named("Int")), FieldDef::new("make", GType::named(&obj_names[0]))] });
    }
    if has_sub {
        defs.push(TypeDef::Object { name: sname.into(), implements: vec![], fields: vec![FieldDef::new("ticks", GType::named("Int")), FieldDef::new("updates", GType::named(&obj_names[0]))] });
    }
    // an explicit schema block that omits a root kind, next to an ORDINARY object that happens to
    // carry the default root name: it must not become a root
    if explicit && !has_mut && rng.chance(1, 2) {
        defs.push(TypeDef::Object { name: "Mutation".into(), implements: vec![], fields: vec![FieldDef::new("doIt", GType::named("Int")), FieldDef::new("position", GType::named("String"))] });
    }
    if explicit && !has_sub && rng.chance(1, 2) {
        defs.push(TypeDef::Object { name: "Subscription".into(), implements: vec![], fields: vec![FieldDef::new("ticks", GType::named("Int")), FieldDef::new("plan", GType::named("String"))] });
    }
    defs.extend(extends);
    if rng.chance(1, 3) {
        // definition order must not matter within a kind: shuffle everything
        rng.shuffle(&mut defs);
    }
    let schema_block = if explicit { Some((Some(qname.to_string()), if has_mut { Some(mname.to_string()) } else { None }, if has_sub { Some(sname.to_string()) } else { None })) } else { None };
    (
        SchemaDoc { defs, schema_block, input_defaults },
        SchemaInfo { scalars, enums: enums.iter().map(|e| e.0.clone()).collect(), interfaces: iface_names, objects: obj_names, unions: union_names, inputs: input_names },
    )
}

pub fn fields_of(schema: &SchemaDoc, ty: &str) -> Vec<FieldDef> {
    let mut out = vec![];
    for d in &schema.defs {
        match d {
            TypeDef::Object { name, fields, .. } | TypeDef::Interface { name, fields } if name == ty => out.extend(fields.iter().cloned()),
            _ => {}
        }
    }
    for d in &schema.defs {
        if let TypeDef::Extend { name, fields, .. } = d {
            if name == ty {
                out.extend(fields.iter().cloned());
            }
        }
    }
    out
}

pub fn possible_types(schema: &SchemaDoc, ty: &str) -> Vec<String> {
    match schema.kind_of(ty) {
        "UNION" => schema.defs.iter().find_map(|d| if let TypeDef::Union { name, members } = d { if name == ty { Some(members.clone()) } else { None } } else { None }).unwrap_or_default(),
        "INTERFACE" => schema
            .defs
            .iter()
            .filter_map(|d| {
                if let TypeDef::Object { name, implements, .. } = d {
                    // declared on the type itself or by one of its `extend type` blocks
                    let by_ext = schema.defs.iter().any(|e| matches!(e, TypeDef::Extend { name: en, implements: ei, .. } if en == name && ei.iter().any(|i| i == ty)));
                    if implements.iter().any(|i| i == ty) || by_ext { Some(name.clone()) } else { None }
                } else {
                    None
                }
            })
            .collect(),
        _ => vec![],
    }
}

pub struct SelGen<'a> {
    pub schema: &'a SchemaDoc,
    /// (fragment name, type condition) available for spreading
    pub frags: Vec<(String, String)>,
    pub tags: Vec<String>,
    pub alias_counter: usize,
}

impl<'a> SelGen<'a> {
    pub fn gen(&mut self, rng: &mut Rng, ty: &str, depth: usize) -> Vec<Sel> {
        let kind = self.schema.kind_of(ty);
        let mut out = vec![];
        let mut keys: Vec<String> = vec![];
        if kind == "UNION" || kind == "INTERFACE" {
            out.push(Sel::typename());
            keys.push("__typename".into());
        } else if rng.chance(1, 5) {
            out.push(Sel::typename());
            keys.push("__typename".into());
        }
        if kind != "UNION" {
            let fs = fields_of(self.schema, ty);
            let n = 1 + rng.below(4);
            for _ in 0..n {
                if fs.is_empty() {
                    break;
                }
                let f = &fs[rng.below(fs.len())];
                let alias = if rng.chance(1, 5) {
                    self.alias_counter += 1;
                    Some(["myAlias", "other_alias", "Type", "x"][rng.below(4)].to_string() + &self.alias_counter.to_string())
                } else {
                    None
                };
                let key = alias.clone().unwrap_or_else(|| f.name.clone());
                if keys.contains(&key) {
                    continue;
                }
                let leaf_kind = self.schema.kind_of(f.ty.name());
                let composite = matches!(leaf_kind, "OBJECT" | "INTERFACE" | "UNION");
                if composite && depth == 0 {
                    continue;
                }
                keys.push(key);
                let sub = if composite { self.gen(rng, f.ty.name(), depth - 1) } else { vec![] };
                out.push(Sel::Field { alias, name: f.name.clone(), sub });
            }
        }
        // fragments on the type itself
        let same: Vec<(String, String)> = self.frags.iter().filter(|f| f.1 == ty).cloned().collect();
        if !same.is_empty() && rng.chance(1, 3) {
            let f = &same[rng.below(same.len())];
            out.push(Sel::Spread(f.0.clone()));
            self.tags.push("spread_same_type".into());
        }
        // variants
        if kind == "UNION" || kind == "INTERFACE" {
            let poss = possible_types(self.schema, ty);
            for p in &poss {
                match rng.below(4) {
                    0 => {}
                    1 | 2 => {
                        if depth > 0 || true {
                            let sub = self.gen_object_fields(rng, p, depth.saturating_sub(1));
                            out.push(Sel::Inline { on: Some(p.clone()), sub });
                            self.tags.push("inline_variant".into());
                        }
                    }
                    _ => {
                        let on_p: Vec<(String, String)> = self.frags.iter().filter(|f| &f.1 == p).cloned().collect();
                        if !on_p.is_empty() {
                            out.push(Sel::Spread(on_p[rng.below(on_p.len())].0.clone()));
                            self.tags.push("spread_variant".into());
                        }
                    }
                }
            }
            if rng.chance(1, 8) && !poss.is_empty() {
                // a second inline fragment on one type
                let p = &poss[rng.below(poss.len())];
                let sub = self.gen_object_fields(rng, p, 0);
                out.push(Sel::Inline { on: Some(p.clone()), sub });
                self.tags.push("two_inline_same_type".into());
            }
        }
        if out.is_empty() {
            out.push(Sel::typename());
        }
        out
    }

    fn gen_object_fields(&mut self, rng: &mut Rng, ty: &str, depth: usize) -> Vec<Sel> {
        let fs = fields_of(self.schema, ty);
        let mut out = vec![];
        let mut keys = vec![];
        for _ in 0..(1 + rng.below(3)) {
            if fs.is_empty() {
                break;
            }
            let f = &fs[rng.below(fs.len())];
            if keys.contains(&f.name) {
                continue;
            }
            let leaf_kind = self.schema.kind_of(f.ty.name());
            let composite = matches!(leaf_kind, "OBJECT" | "INTERFACE" | "UNION");
            if composite && depth == 0 {
                continue;
            }
            keys.push(f.name.clone());
            let sub = if composite { self.gen(rng, f.ty.name(), depth - 1) } else { vec![] };
            out.push(Sel::Field { alias: None, name: f.name.clone(), sub });
        }
        if out.is_empty() {
            out.push(Sel::typename());
        }
        out
    }
}

pub fn gen_opts(rng: &mut Rng, info: &SchemaInfo, op_names: &[String]) -> Opts {
    let mut o = Opts::default();
    o.normalization_rust = rng.chance(1, 3);
    o.response_derives = [None, Some("Debug"), Some("Serialize,Debug"), Some("Debug, PartialEq , Clone"), Some("Deserialize, Debug")][rng.below(5)].map(|s: &str| s.to_string());
    o.variables_derives = [None, Some("Debug"), Some("Deserialize,PartialEq"), Some("Clone, Default")][rng.below(4)].map(|s: &str| s.to_string());
    o.deprecation = [None, Some(0), Some(1), Some(2)][rng.below(4)];
    o.fragments_other_variant = rng.chance(1, 3);
    o.skip_serializing_none = rng.chance(1, 3);
    o.custom_scalars_module = [None, None, Some("crate::scalars"), Some("super::super::types")][rng.below(4)].map(|s: &str| s.to_string());
    o.extern_enums = info.enums.iter().filter(|_| rng.chance(1, 5)).cloned().collect();
    o.visibility = [None, Some(""), Some("pub"), Some("crate")][rng.below(4)].map(|s: &str| s.to_string());
    o.serde_path = [None, None, Some("graphql_client::_private::serde")][rng.below(3)].map(|s: &str| s.to_string());
    o.cli_mode = rng.chance(2, 3);
    if !o.cli_mode {
        // derive mode: the struct name selects the operation
        let n = op_names[rng.below(op_names.len())].clone();
        o.operation_name = Some(n.clone());
        o.struct_name = Some(n);
        o.query_file = Some("/some/dir/query.graphql".into());
    } else if rng.chance(1, 2) {
        o.operation_name = Some(op_names[rng.below(op_names.len())].clone());
    }
    o
}

pub fn gen_program(rng: &mut Rng) -> Program {
    let (schema, info) = gen_schema(rng);
    let composite: Vec<String> = info.interfaces.iter().chain(info.objects.iter()).chain(info.unions.iter()).cloned().collect();
    let mut sg = SelGen { schema: &schema, frags: vec![], tags: vec![], alias_counter: 0 };
    let mut defs = vec![];
    // fragments (each may spread the earlier ones)
    let nfr = rng.below(4);
    let frag_names = ["DogParts", "name_frag", "F", "CommonFields"];
    for i in 0..nfr {
        let on = composite[rng.below(composite.len())].clone();
        let dd = 1 + rng.below(2);
        let sel = sg.gen(rng, &on, dd);
        defs.push(QDef::Frag { name: frag_names[i].to_string(), on: on.clone(), sel });
        sg.frags.push((frag_names[i].to_string(), on));
    }
    // operations
    let (qroot, mroot, sroot) = schema.root_names();
    let nops = 1 + rng.below(3);
    let op_pool = ["GetThings", "my_query", "Q2", "doMutation", "Watch"];
    let mut op_names = vec![];
    let mut ops = vec![];
    for i in 0..nops {
        let (kind, root) = match rng.below(6) {
            0 if mroot.is_some() => (OpKind::Mutation, mroot.clone().unwrap()),
            1 if sroot.is_some() => (OpKind::Subscription, sroot.clone().unwrap()),
            _ => (OpKind::Query, qroot.clone().unwrap_or_else(|| "Query".into())),
        };
        let name = op_pool[(i + rng.below(2)) % op_pool.len()].to_string();
        if op_names.contains(&name) {
            continue;
        }
        let dd = 2 + rng.below(2);
        let mut sel = sg.gen(rng, &root, dd);
        if kind == OpKind::Subscription {
            sel.truncate(1);
        }
        // variables
        let mut vars = vec![];
        let var_pool = ["first", "filterBy", "type", "The_Id", "x"];
        let in_types: Vec<String> = ["Int", "String", "ID", "Boolean"].iter().map(|s| s.to_string()).chain(info.inputs.iter().cloned()).chain(info.enums.iter().cloned()).chain(info.scalars.iter().cloned()).collect();
        for _ in 0..rng.below(4) {
            let vn = var_pool[rng.below(var_pool.len())].to_string();
            if vars.iter().any(|v: &VarDef| v.name == vn) {
                continue;
            }
            let leaf = in_types[rng.below(in_types.len())].clone();
            let ty = wrap(rng, &leaf, 6);
            let default = if leaf == "Int" && rng.chance(1, 4) && matches!(ty, GType::Named(_)) { Some("3".to_string()) } else { None };
            vars.push(VarDef { name: vn, ty, default });
        }
        op_names.push(name.clone());
        ops.push(QDef::Op { kind, name: Some(name), vars, sel });
    }
    // fragments first, last, or interleaved
    match rng.below(3) {
        0 => {
            defs.extend(ops);
        }
        1 => {
            let mut all = ops;
            all.extend(defs);
            defs = all;
        }
        _ => {
            let mut all = vec![];
            let mut a = defs.into_iter();
            let mut b = ops.into_iter();
            loop {
                let x = a.next();
                let y = b.next();
                if x.is_none() && y.is_none() {
                    break;
                }
                if let Some(y) = y {
                    all.push(y);
                }
                if let Some(x) = x {
                    all.push(x);
                }
            }
            defs = all;
        }
    }
    let tags = sg.tags.clone();
    let opts = gen_opts(rng, &info, &op_names);
    Program { schema, doc: QueryDoc { defs }, opts, tags }
}
