//! C14: schemas with many deprecated fields x selections touching them x three strategies x
//! {SDL, introspection JSON}; the emitted items are the observation.
use crate::gencase;
use crate::gql::*;
use crate::out::{Case, CaseSet};
use crate::progs;
use crate::rng::Rng;
use crate::runner;
use serde_json::json;
use std::path::Path;

fn deprecate_more(rng: &mut Rng, schema: &mut SchemaDoc) {
    let reasons = ["old", "use \"other\" instead", "back\\slash", "two\nlines", "caf\u{e9} \u{1F600}", "  padded  ", ""];
    for d in schema.defs.iter_mut() {
        match d {
            TypeDef::Object { fields, .. } | TypeDef::Interface { fields, .. } | TypeDef::Extend { fields, .. } => {
                for f in fields.iter_mut() {
                    match rng.below(5) {
                        0 => f.deprecated = Some(None),
                        1 | 2 => f.deprecated = Some(Some(reasons[rng.below(reasons.len())].to_string())),
                        _ => {}
                    }
                }
            }
            _ => {}
        }
    }
    // interface fields and their copies in implementors may disagree; that is legal
}

pub fn run(outdir: &Path, tier: &str, seed: u64, shards: usize, replay: Option<String>) {
    runner::quiet_panics();
    let mut rng = Rng::new(seed ^ 0xC14);
    let n = if tier == "thorough" { 500 } else { 40 };
    let mut cases = vec![];
    let mut dist = std::collections::BTreeMap::<String, usize>::new();
    let mut work: Vec<(progs::Program, bool)> = vec![];
    if let Some(rp) = replay {
        let v: serde_json::Value = serde_json::from_str(&std::fs::read_to_string(rp).unwrap()).unwrap();
        work.push((serde_json::from_value(v["case"]["program"].clone()).unwrap(), v["case"]["format"] == "json"));
    } else {
        // a fixed regression program: a selection consisting only of deprecated fields (deny used to
        // turn the struct into an empty enum)
        let fixed = progs::Program {
            schema: SchemaDoc {
                defs: vec![
                    TypeDef::Object { name: "Dog".into(), implements: vec![], fields: vec![
                        FieldDef { name: "old".into(), ty: GType::named("Int"), deprecated: Some(None) },
                        FieldDef { name: "older".into(), ty: GType::named("String"), deprecated: Some(Some("gone".into())) },
                        FieldDef::new("name", GType::named("String")) ] },
                    TypeDef::Object { name: "Query".into(), implements: vec![], fields: vec![FieldDef::new("dog", GType::named("Dog"))] },
                ],
                schema_block: None,
                input_defaults: vec![],
            },
            doc: QueryDoc { defs: vec![QDef::Op { kind: OpKind::Query, name: Some("Q".into()), vars: vec![], sel: vec![Sel::obj("dog", vec![Sel::field("old"), Sel::field("older")])] }] },
            opts: Opts { operation_name: Some("Q".into()), ..Opts::default() },
            tags: vec![],
        };
        for st in [Some(0u8), Some(1), Some(2), None] {
            for fmt_json in [false, true] {
                let mut p = fixed.clone();
                p.opts.deprecation = st;
                work.push((p, fmt_json));
            }
        }
        for _ in 0..n {
            let mut p = progs::gen_program(&mut rng);
            deprecate_more(&mut rng, &mut p.schema);
            for st in [Some(0u8), Some(1), Some(2)] {
                for fmt_json in [false, true] {
                    let mut q = p.clone();
                    q.opts.deprecation = st;
                    work.push((q, fmt_json));
                }
            }
        }
    }
    // the JSON rendering keeps a reason text on the fields that are NOT deprecated (`isDeprecated: false` decides)
    let jv = JsonVariant { data_wrapped: true, builtin_scalars: 1, meta_types: 1, is_one_of: true, leftover_reason: true };
    for (p, fmt_json) in &work {
        let obs = gencase::observe(p, if *fmt_json { Some(&jv) } else { None });
        *dist.entry(format!("{}/{}/{}", if *fmt_json { "json" } else { "sdl" }, match p.opts.deprecation { Some(0) => "allow", Some(1) => "warn", Some(2) => "deny", _ => "unset" }, obs.class)).or_default() += 1;
        cases.push(Case {
            coq: gencase::gcase(p, &obs),
            desc: json!({"program": p, "format": if *fmt_json { "json" } else { "sdl" }, "schema": p.schema.render_sdl(), "query": p.doc.render(), "observed": obs.class, "detail": obs.detail}),
            key: format!("{}|{}|{:?}|{}", p.schema.render_sdl(), p.doc.render(), p.opts.deprecation, fmt_json),
            nontrivial: obs.class == "ok",
        });
    }
    let samples: Vec<_> = cases.iter().step_by((cases.len() / 4).max(1)).map(|c| json!({"format": c.desc["format"], "query": c.desc["query"], "observed": c.desc["observed"]})).collect();
    let cs = CaseSet {
        run_module: "RunC14".into(),
        cases,
        checkers: vec!["corr".into(), "prop_depr".into(), "exercises".into()],
        extra_imports: vec!["TypeExpr".into(), "Schema".into(), "Query".into(), "Attrs".into(), "Codegen".into(), "RunGen".into()],
        preludes: vec![],
    };
    cs.write(outdir, shards, json!({
        "rule": "random schemas in which ~60% of object / interface / extension fields are deprecated (without reason, or with reasons containing quotes, backslashes, newlines, non-ASCII, padding, empty) x random selections (direct, via fragments, in variants) x strategies {allow, warn, deny} x {SDL, data-wrapped introspection JSON with built-in scalars, __ types and a leftover deprecationReason text on the fields that are not deprecated}; plus a fixed regression program whose selection consists only of deprecated fields. `exercises` lists the cases whose selection touches no deprecated field.",
        "distribution": dist, "samples": samples,
    }));
    runner::cleanup_scratch();
}
