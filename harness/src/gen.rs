//! `vh gen`: whole-generator correspondence on random programs (development / C-wide corpus).
use crate::gencase;
use crate::out::{Case, CaseSet};
use crate::progs;
use crate::rng::Rng;
use crate::runner;
use serde_json::json;
use std::path::Path;

pub fn run(outdir: &Path, tier: &str, seed: u64, shards: usize, replay: Option<String>) {
    runner::quiet_panics();
    let mut rng = Rng::new(seed ^ 0x6E6);
    let n = if tier == "thorough" { 3000 } else { 300 };
    let mut cases = vec![];
    let mut dist = std::collections::BTreeMap::<String, usize>::new();
    let progs: Vec<progs::Program> = if let Some(rp) = replay {
        let v: serde_json::Value = serde_json::from_str(&std::fs::read_to_string(rp).unwrap()).unwrap();
        vec![serde_json::from_value(v["case"]["program"].clone()).unwrap()]
    } else {
        (0..n).map(|_| progs::gen_program(&mut rng)).collect()
    };
    for p in &progs {
        let obs = gencase::observe(p, None);
        *dist.entry(obs.class.to_string()).or_default() += 1;
        cases.push(Case {
            coq: gencase::gcase(p, &obs),
            desc: json!({"program": p, "sdl": p.schema.render_sdl(), "query": p.doc.render(), "observed": obs.class, "detail": obs.detail}),
            key: format!("{}|{}", p.schema.render_sdl(), p.doc.render()),
            nontrivial: obs.class == "ok",
        });
    }
    let samples: Vec<_> = cases.iter().take(2).map(|c| json!({"query": c.desc["query"], "observed": c.desc["observed"]})).collect();
    let cs = CaseSet { run_module: "RunGen".into(), cases, checkers: vec!["corr".into(), "class".into()], extra_imports: vec!["TypeExpr".into(), "Schema".into(), "Query".into(), "Attrs".into(), "Codegen".into()], preludes: vec![] };
    cs.write(outdir, shards, json!({"rule": "random programs", "distribution": dist, "samples": samples}));
    runner::cleanup_scratch();
}
