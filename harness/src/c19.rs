//! C19: the built `graphql-client generate` binary against the library called in-process.
use crate::coq;
use crate::gencase;
use crate::gql::*;
use crate::items;
use crate::out::{Case, CaseSet};
use crate::progs::{self, Program};
use crate::rng::Rng;
use crate::runner;
use serde_json::json;
use std::path::{Path, PathBuf};
use std::process::Command;

pub fn build_cli() -> Option<PathBuf> {
    let repo = std::env::var("VERIF_REPO").unwrap_or_else(|_| "/repo".into());
    let verif = std::env::var("VERIF_DIR").unwrap_or_else(|_| "/verif".into());
    let target = PathBuf::from(verif).join(".cache").join("cli-target");
    let st = Command::new("cargo")
        .args(["build", "-p", "graphql_client_cli", "--offline", "--quiet"])
        .current_dir(&repo)
        .env("CARGO_TARGET_DIR", &target)
        .env("CARGO_NET_OFFLINE", "true")
        .env("RUSTFLAGS", "-Awarnings")
        .status()
        .ok()?;
    if !st.success() {
        return None;
    }
    Some(target.join("debug").join("graphql-client"))
}

#[derive(Clone, Debug)]
struct Args {
    query_rel: String,
    selected: Option<String>,
    var_derives: Option<String>,
    resp_derives: Option<String>,
    deprecation: Option<String>,
    no_formatting: bool,
    visibility: Option<String>,
    output_dir: Option<String>,
    scalars_module: Option<String>,
    other_variant: bool,
    extern_enums: Option<Vec<String>>,
}

impl Args {
    fn argv(&self) -> Vec<String> {
        let mut v = vec!["generate".to_string(), "--schema-path".into(), "schema.graphql".into(), self.query_rel.clone()];
        if let Some(s) = &self.selected { v.push("--selected-operation".into()); v.push(s.clone()); }
        if let Some(s) = &self.var_derives { v.push("-I".into()); v.push(s.clone()); }
        if let Some(s) = &self.resp_derives { v.push("-O".into()); v.push(s.clone()); }
        if let Some(s) = &self.deprecation { v.push("-d".into()); v.push(s.clone()); }
        if self.no_formatting { v.push("--no-formatting".into()); }
        if let Some(s) = &self.visibility { v.push("-m".into()); v.push(s.clone()); }
        if let Some(s) = &self.output_dir { v.push("-o".into()); v.push(s.clone()); }
        if let Some(s) = &self.scalars_module { v.push("-p".into()); v.push(s.clone()); }
        if self.other_variant { v.push("--fragments-other-variant".into()); }
        if let Some(es) = &self.extern_enums {
            v.push("--external-enums".into());
            v.extend(es.iter().cloned());
        }
        v
    }
    /// the library options that CORRESPOND to the flags, by the documentation of the command
    fn spec_opts(&self) -> Opts {
        let mut o = Opts::default();
        o.cli_mode = true;
        o.operation_name = self.selected.clone();
        o.variables_derives = self.var_derives.clone();
        o.response_derives = self.resp_derives.clone();
        o.deprecation = match self.deprecation.as_deref().map(|s| s.trim()) {
            Some("allow") => Some(0),
            Some("warn") => Some(1),
            Some("deny") => Some(2),
            _ => None,
        };
        o.visibility = Some(match self.visibility.as_deref().map(|s| s.to_lowercase()) {
            None => "pub".to_string(),
            Some(s) if s == "pub" => "pub".to_string(),
            Some(s) if s == "private" || s == "inherited" => String::new(),
            Some(_) => self.visibility.clone().unwrap(),
        });
        o.custom_scalars_module = self.scalars_module.clone();
        o.fragments_other_variant = self.other_variant;
        o.extern_enums = self.extern_enums.clone().unwrap_or_default();
        o
    }
    fn to_coq(&self) -> String {
        let comps = |p: &str| coq::list(&p.split('/').map(|s| s.to_string()).collect::<Vec<_>>(), |s| coq::s(s));
        format!(
            "(mkArgs {} {} {} {} {} {} {} {} {} {} {})",
            comps(&self.query_rel),
            coq::ostr(&self.selected),
            coq::ostr(&self.var_derives),
            coq::ostr(&self.resp_derives),
            coq::ostr(&self.deprecation),
            coq::b(self.no_formatting),
            coq::ostr(&self.visibility),
            coq::opt(&self.output_dir, |d| comps(d)),
            coq::ostr(&self.scalars_module),
            coq::b(self.other_variant),
            coq::opt(&self.extern_enums, |e| coq::strs(e))
        )
    }
}

fn list_files(dir: &Path, base: &Path, out: &mut std::collections::BTreeMap<String, Vec<u8>>) {
    if let Ok(rd) = std::fs::read_dir(dir) {
        for e in rd.flatten() {
            let p = e.path();
            if p.is_dir() {
                list_files(&p, base, out);
            } else if let Ok(bytes) = std::fs::read(&p) {
                out.insert(p.strip_prefix(base).unwrap().to_string_lossy().to_string(), bytes);
            }
        }
    }
}

pub fn run(outdir: &Path, tier: &str, seed: u64, shards: usize, _replay: Option<String>) {
    runner::quiet_panics();
    let mut rng = Rng::new(seed ^ 0xC19);
    let bin = match build_cli() {
        Some(b) => b,
        None => {
            eprintln!("c19: could not build the CLI binary");
            std::process::exit(3);
        }
    };
    let nprog = if tier == "thorough" { 12 } else { 3 };
    let ninv = if tier == "thorough" { 40 } else { 10 };
    let query_names = ["query.graphql", "my.query.graphql", "noext", ".hidden.graphql", "sub/dir/q.v2.gql"];
    let mut cases = vec![];
    let mut dist = std::collections::BTreeMap::<String, usize>::new();
    let header = "#![allow(clippy::all, warnings)]";
    let mut n = 0usize;
    for _ in 0..nprog {
        let valid = progs::gen_program(&mut rng);
        // the program itself and a few invalidated versions (failure clause)
        let mut variants: Vec<(Program, String)> = vec![(valid.clone(), "valid".into())];
        for e in ["unknown_field", "undefined_fragment", "missing_typename", "unknown_type_condition"] {
            if let Some(q) = crate::c06::apply_edit(&mut rng, &valid, e) {
                variants.push((q, e.to_string()));
            }
        }
        let enums: Vec<String> = valid.schema.defs.iter().filter_map(|d| if let TypeDef::Enum { name, .. } = d { Some(name.clone()) } else { None }).collect();
        let op_names: Vec<String> = valid.doc.defs.iter().filter_map(|d| if let QDef::Op { name: Some(n), .. } = d { Some(n.clone()) } else { None }).collect();
        for (p, kind) in &variants {
            let reps = if kind == "valid" { ninv } else { 2 };
            for _ in 0..reps {
                n += 1;
                let a = Args {
                    query_rel: query_names[rng.below(query_names.len())].to_string(),
                    selected: if rng.chance(1, 3) { Some(if rng.chance(4, 5) { op_names[rng.below(op_names.len())].clone() } else { "Nope".into() }) } else { None },
                    var_derives: [None, Some("Debug"), Some("Clone, Debug")][rng.below(3)].map(|s: &str| s.to_string()),
                    resp_derives: [None, Some("Debug"), Some("Serialize,PartialEq")][rng.below(3)].map(|s: &str| s.to_string()),
                    deprecation: [None, Some("allow"), Some("deny"), Some("warn"), Some("bogus")][rng.below(5)].map(|s: &str| s.to_string()),
                    no_formatting: rng.chance(1, 2),
                    visibility: [None, Some("pub"), Some("private"), Some("crate"), Some("Pub")][rng.below(5)].map(|s: &str| s.to_string()),
                    output_dir: if rng.chance(1, 2) { Some(["out", "gen/deep"][rng.below(2)].to_string()) } else { None },
                    scalars_module: [None, Some("crate::scalars")][rng.below(2)].map(|s: &str| s.to_string()),
                    other_variant: rng.chance(1, 3),
                    extern_enums: if rng.chance(1, 4) && !enums.is_empty() { Some(vec![enums[rng.below(enums.len())].clone()]) } else { None },
                };
                let work = runner::scratch_dir().join(format!("c19-{}", n));
                let _ = std::fs::remove_dir_all(&work);
                std::fs::create_dir_all(work.join("out")).unwrap();
                std::fs::create_dir_all(work.join("gen/deep")).unwrap();
                std::fs::create_dir_all(work.join("sub/dir")).unwrap();
                std::fs::write(work.join("schema.graphql"), p.schema.render_sdl()).unwrap();
                // one document in four is written with CR LF line endings: the file's bytes are the QUERY constant
                let crlf = rng.chance(1, 4);
                let qtext = if crlf { p.doc.render().replace('\n', "\r\n") } else { p.doc.render() };
                // one time in four the query path named on the command line is a symbolic link to a file of another
                // name in another directory: the destination is derived from the path as given
                let via_symlink = rng.chance(1, 4);
                if via_symlink {
                    std::fs::create_dir_all(work.join("shared/store")).unwrap();
                    std::fs::write(work.join("shared/store/real_document.graphql"), &qtext).unwrap();
                    let depth = Path::new(&a.query_rel).components().count() - 1;
                    let target = format!("{}shared/store/real_document.graphql", "../".repeat(depth));
                    std::os::unix::fs::symlink(&target, work.join(&a.query_rel)).unwrap();
                } else {
                    std::fs::write(work.join(&a.query_rel), &qtext).unwrap();
                }
                // the destination by the documentation
                let fname = Path::new(&a.query_rel).file_name().unwrap().to_string_lossy().to_string();
                let stem = match fname.rfind('.') { Some(0) | None => fname.clone(), Some(i) => fname[..i].to_string() };
                let dest_rel = match &a.output_dir {
                    Some(d) => format!("{}/{}.rs", d, stem),
                    None => match Path::new(&a.query_rel).parent().map(|x| x.to_string_lossy().to_string()) { Some(par) if !par.is_empty() => format!("{}/{}.rs", par, stem), _ => format!("{}.rs", stem) },
                };
                let pre_existing = rng.chance(1, 2);
                // sometimes much longer than anything the command will write (a regenerated, shorter file
                // must not keep the old tail)
                let old_contents: String = if rng.chance(1, 2) { "OLD CONTENTS".to_string() } else { "pub struct OldLeftover;\n".repeat(20000) };
                if pre_existing {
                    std::fs::write(work.join(&dest_rel), &old_contents).unwrap();
                }
                // ... or the destination already holds what the SAME command wrote a moment ago with --no-formatting:
                // the formatted run must still replace it
                let after_unformatted = !a.no_formatting && kind == "valid" && rng.chance(1, 3);
                if after_unformatted {
                    let mut argv0 = a.argv();
                    argv0.push("--no-formatting".into());
                    let _ = Command::new(&bin).args(&argv0).current_dir(&work).env("RUST_BACKTRACE", "0").output();
                }
                let mut before = std::collections::BTreeMap::new();
                list_files(&work, &work, &mut before);
                let out = Command::new(&bin).args(a.argv()).current_dir(&work).env("RUST_BACKTRACE", "0").output();
                let exit_ok = out.as_ref().map(|o| o.status.success()).unwrap_or(false);
                let mut after = std::collections::BTreeMap::new();
                list_files(&work, &work, &mut after);
                let mut written: Vec<String> = after.iter().filter(|(k, v)| before.get(*k) != Some(*v)).map(|(k, _)| k.clone()).collect();
                written.extend(before.keys().filter(|k| !after.contains_key(*k)).cloned());
                let old_untouched = !pre_existing || after.get(&dest_rel).map(|v| v.as_slice() == old_contents.as_bytes()).unwrap_or(false);
                // the written file
                let (file_obs, header_ok) = match after.get(&dest_rel).filter(|_| written.contains(&dest_rel)) {
                    Some(bytes) => {
                        let text = String::from_utf8_lossy(bytes).to_string();
                        let header_ok = text.lines().next().map(|l| l.trim() == header).unwrap_or(false);
                        // rustc reads a source file with CR LF turned into LF before it lexes (also inside raw string
                        // literals): what the compiled QUERY constant will be is the literal's value after that
                        match syn::parse_file(&text.replace("\r\n", "\n")) {
                            Ok(f) => match items::conv_file(&f) {
                                Ok(mut ms) => {
                                    for m in ms.iter_mut() {
                                        if m.query == qtext { m.query = "<same>".into(); }
                                    }
                                    (format!("(GOk {})", coq::list(&ms, |m| format!("\n    {}", m.to_coq()))), header_ok)
                                }
                                Err(_) => ("GUnparsable".to_string(), header_ok),
                            },
                            Err(_) => ("GUnparsable".to_string(), header_ok),
                        }
                    }
                    None => ("GErr".to_string(), false),
                };
                // the library, in-process, with the corresponding options
                let mut lp = p.clone();
                lp.opts = a.spec_opts();
                let lib = gencase::observe(&lp, None);
                *dist.entry(format!("{}/{}/{}", kind, if exit_ok { "exit 0" } else { "exit != 0" }, if a.no_formatting { "no-formatting" } else { "rustfmt" })).or_default() += 1;
                cases.push(Case {
                    coq: format!(
                        "(mkCase {}\n  {}\n  {}\n  {} {} {}\n  {}\n  {}\n  {})",
                        a.to_coq(),
                        p.schema.to_coq(),
                        p.doc.to_coq(),
                        coq::b(exit_ok),
                        coq::list(&written, |w| coq::list(&w.split('/').map(|s| s.to_string()).collect::<Vec<_>>(), |s| coq::s(s))),
                        coq::b(header_ok),
                        file_obs,
                        lib.coq,
                        coq::b(old_untouched)
                    ),
                    desc: json!({"argv": a.argv(), "program_kind": kind, "exit_ok": exit_ok, "written": written, "expected_destination": dest_rel, "pre_existing_destination": pre_existing, "query_path_is_symlink": via_symlink, "crlf_document": crlf, "after_unformatted_run": after_unformatted,
                                 "stderr": out.as_ref().map(|o| String::from_utf8_lossy(&o.stderr).chars().take(200).collect::<String>()).unwrap_or_default()}),
                    key: format!("{:?}|{}|{}", a.argv(), kind, n),
                    nontrivial: true,
                });
                let _ = std::fs::remove_dir_all(&work);
            }
        }
    }
    let samples: Vec<_> = cases.iter().step_by((cases.len() / 6).max(1)).map(|c| c.desc.clone()).collect();
    let cs = CaseSet {
        run_module: "RunC19".into(),
        cases,
        checkers: vec!["corr".into(), "prop".into()],
        extra_imports: vec!["TypeExpr".into(), "Schema".into(), "Query".into(), "Attrs".into(), "Codegen".into(), "RunGen".into(), "Cli".into()],
        preludes: vec![],
    };
    cs.write(outdir, shards, json!({
        "rule": "the binary built from the working tree, run in a scratch directory on random programs (and on versions invalidated by four C06 edits) with random subsets of the 8 option flags (values incl. `private`, `Pub`, `bogus`), x {default placement, -o dir (two depths)} x {rustfmt, --no-formatting} x query file names {query.graphql, my.query.graphql, noext, .hidden.graphql, sub/dir/q.v2.gql} x {destination absent, pre-existing (short / much longer), or just written by the same command with --no-formatting} x {query path a regular file, or a symbolic link to a file of another name elsewhere} x {LF, CR LF document}; observation: exit status, set of files created or changed, the written file parsed with syn, compared with the library called in-process with the corresponding options.",
        "distribution": dist, "samples": samples,
    }));
    runner::cleanup_scratch();
}
