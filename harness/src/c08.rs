//! C08: histories of generation calls over a file set, run (i) every call alone in a fresh
//! process, (ii) sequentially in one process, (iii) on threads behind a barrier in one process.
use crate::coq;
use crate::gql::Opts;
use crate::out::{Case, CaseSet};
use crate::rng::Rng;
use crate::runner;
use serde::{Deserialize, Serialize};
use serde_json::json;
use std::path::{Path, PathBuf};
use std::process::{Command, Stdio};
use std::sync::{Arc, Barrier};

#[derive(Clone, Debug, Serialize, Deserialize)]
pub struct Call {
    pub q: String,
    pub s: String,
    pub o: String,
}

#[derive(Clone, Debug, Serialize, Deserialize)]
pub struct History {
    pub dir: String,
    pub threads: Vec<Vec<Call>>,
}

fn opts_of(id: &str) -> Opts {
    let mut o = Opts::default();
    o.cli_mode = true;
    match id {
        "rust" => o.normalization_rust = true,
        "other" => o.fragments_other_variant = true,
        "named" => o.operation_name = Some("Q".into()),
        // derive lists that name a trait twice (once more than the built-in one, once among themselves)
        "derives" => {
            o.variables_derives = Some("Serialize, Debug, Clone, PartialEq".into());
            o.response_derives = Some("Debug, Clone, PartialEq, Debug".into());
        }
        _ => {}
    }
    o
}

fn digest(s: &str) -> String {
    // FNV-1a, enough to tell token streams apart
    let mut h: u64 = 0xcbf29ce484222325;
    for b in s.as_bytes() {
        h ^= *b as u64;
        h = h.wrapping_mul(0x100000001b3);
    }
    format!("{:016x}", h)
}

fn one_call(dir: &str, c: &Call) -> String {
    let qp = PathBuf::from(dir).join(&c.q);
    let sp = PathBuf::from(dir).join(&c.s);
    let o = opts_of(&c.o);
    let r = std::panic::catch_unwind(move || graphql_client_codegen::generate_module_token_stream(qp, &sp, o.to_lib()).map(|t| t.to_string()).map_err(|e| e.to_string()));
    match r {
        Ok(Ok(ts)) => format!("ok:{}", digest(&ts)),
        Ok(Err(e)) => format!("err:{}", digest(&e)),
        Err(_) => "panic".to_string(),
    }
}

/// `vh c08worker <history.json> <mode>`; mode = seq | par | one:<t>:<i>
pub fn worker(path: &str, mode: &str) {
    runner::quiet_panics();
    let h: History = serde_json::from_str(&std::fs::read_to_string(path).unwrap()).unwrap();
    let out: Vec<Vec<String>> = if mode == "seq" {
        h.threads.iter().map(|t| t.iter().map(|c| one_call(&h.dir, c)).collect()).collect()
    } else if mode == "par" {
        let barrier = Arc::new(Barrier::new(h.threads.len()));
        let handles: Vec<_> = h
            .threads
            .iter()
            .cloned()
            .map(|t| {
                let b = barrier.clone();
                let dir = h.dir.clone();
                std::thread::spawn(move || {
                    b.wait();
                    t.iter().map(|c| one_call(&dir, c)).collect::<Vec<String>>()
                })
            })
            .collect();
        handles.into_iter().map(|hd| hd.join().unwrap_or_else(|_| vec!["thread-died".into()])).collect()
    } else {
        let parts: Vec<&str> = mode.split(':').collect();
        let t: usize = parts[1].parse().unwrap();
        let i: usize = parts[2].parse().unwrap();
        vec![vec![one_call(&h.dir, &h.threads[t][i])]]
    };
    println!("{}", serde_json::to_string(&out).unwrap());
}

fn spawn(hfile: &Path, mode: &str) -> Option<Vec<Vec<String>>> {
    let exe = std::env::current_exe().unwrap();
    // a history is at most 128 small generations: a worker that has not finished after two minutes is
    // stuck (a call waiting for something an earlier call left behind); it is killed and reported as
    // having produced no outcomes
    let mut child = Command::new(exe).arg("c08worker").arg(hfile).arg(mode).stdout(Stdio::piped()).stderr(Stdio::null()).spawn().ok()?;
    let mut stdout = child.stdout.take()?;
    let reader = std::thread::spawn(move || {
        let mut text = String::new();
        let _ = std::io::Read::read_to_string(&mut stdout, &mut text);
        text
    });
    let start = std::time::Instant::now();
    loop {
        match child.try_wait() {
            Ok(Some(_)) => break,
            Ok(None) => {
                if start.elapsed() > std::time::Duration::from_secs(120) {
                    let _ = child.kill();
                    let _ = child.wait();
                    let _ = reader.join();
                    return None;
                }
                std::thread::sleep(std::time::Duration::from_millis(5));
            }
            Err(_) => return None,
        }
    }
    let text = reader.join().ok()?;
    serde_json::from_str(text.lines().last().unwrap_or("")).ok()
}

const SCHEMA_A: &str = "type Dog { name: String friend: Dog }\ntype Query { dog: Dog n: Int }\n";
const SCHEMA_B: &str = "type Dog { name: String! age: Int }\ntype Query { dog: Dog n: Int other: String }\n";
const QUERY_1: &str = "query Q { dog { name } n }\n";
const QUERY_2: &str = "query Q { n }\nquery Second { dog { name } }\n";
const QUERY_3: &str = "query Q { other }\n"; // valid against B only
// two schemas that define an input type of the same name, recursive in one and flat in the other
const SCHEMA_C: &str = "input Tree { value: Int child: Tree }\ninput Wrapper { t: Tree }\ntype Dog { name: String }\ntype Query { dog: Dog n: Int }\n";
const SCHEMA_D: &str = "input Tree { value: Int }\ninput Wrapper { t: Tree }\ntype Dog { name: String }\ntype Query { dog: Dog n: Int }\n";
const QUERY_W: &str = "query Q($w: Wrapper) { n }\n";
// two documents whose FIRST fragment has the same name and position, recursive in one and flat in the other
const QUERY_F1: &str = "query Q { dog { ...F } }\nfragment F on Dog { name friend { ...F } }\n";
const QUERY_F2: &str = "query Q { dog { ...F } }\nfragment F on Dog { name }\n";

fn oc(s: &str) -> String {
    if s == "panic" || s == "thread-died" {
        "OPanic".into()
    } else {
        format!("(OVal {})", coq::s(s))
    }
}

pub fn run(outdir: &Path, tier: &str, seed: u64, shards: usize, _replay: Option<String>) {
    runner::quiet_panics();
    let mut rng = Rng::new(seed ^ 0xC08);
    let base = runner::scratch_dir().join("c08");
    let _ = std::fs::remove_dir_all(&base);
    std::fs::create_dir_all(base.join("x")).unwrap();
    std::fs::create_dir_all(base.join("y")).unwrap();
    // a path with `..` behind a symlinked directory: `app/shared/../schema.graphql` is really
    // `vendor/schema.graphql`, although it reads like `app/schema.graphql`
    std::fs::create_dir_all(base.join("app")).unwrap();
    std::fs::create_dir_all(base.join("vendor/queries")).unwrap();
    let _ = std::os::unix::fs::symlink("../vendor/queries", base.join("app/shared"));
    // (path, content id, text)
    let json_a = {
        use crate::gql::*;
        let s = SchemaDoc {
            defs: vec![
                TypeDef::Object { name: "Dog".into(), implements: vec![], fields: vec![FieldDef::new("name", GType::named("String")), FieldDef::new("friend", GType::named("Dog"))] },
                TypeDef::Object { name: "Query".into(), implements: vec![], fields: vec![FieldDef::new("dog", GType::named("Dog")), FieldDef::new("n", GType::named("Int"))] },
            ],
            schema_block: None,
            input_defaults: vec![],
        };
        s.render_json(&JsonVariant::plain())
    };
    let files: Vec<(&str, Option<&str>, Option<String>)> = vec![
        ("a.graphql", Some("SA"), Some(SCHEMA_A.into())),
        ("x/schema.graphql", Some("SA"), Some(SCHEMA_A.into())),   // same contents under another path
        ("y/schema.graphql", Some("SB"), Some(SCHEMA_B.into())),   // same base name, different contents
        ("a.gql", Some("SA"), Some(SCHEMA_A.into())),
        ("a.json", Some("SA"), Some(json_a)),                      // same schema as introspection JSON
        ("broken.graphql", Some("!brokenS"), Some("type {{{ nope".into())),
        ("schema.txt", Some("SA"), Some(SCHEMA_A.into())),         // unsupported extension
        ("missing.graphql", None, None),
        ("app/schema.graphql", Some("SA"), Some(SCHEMA_A.into())),
        ("vendor/schema.graphql", Some("SB"), Some(SCHEMA_B.into())),
        ("app/shared/../schema.graphql", Some("SB"), None),          // resolves through the symlink
        // one file under two more names whose EXTENSIONS select other readers (symbolic links to a.graphql):
        // SDL text read as JSON fails, an unsupported extension fails — whatever was loaded before
        ("alias.json", Some("!SDL text under a .json name"), None),
        ("alias.current", Some("SA"), None),
        ("c.graphql", Some("SC"), Some(SCHEMA_C.into())),
        ("d.graphql", Some("SD"), Some(SCHEMA_D.into())),
        ("qw.graphql", Some("QW"), Some(QUERY_W.into())),
        ("qf1.graphql", Some("QF1"), Some(QUERY_F1.into())),
        ("qf2.graphql", Some("QF2"), Some(QUERY_F2.into())),
        ("q1.graphql", Some("Q1"), Some(QUERY_1.into())),
        ("x/q.graphql", Some("Q1"), Some(QUERY_1.into())),
        ("y/q.graphql", Some("Q2"), Some(QUERY_2.into())),
        ("q3.graphql", Some("Q3"), Some(QUERY_3.into())),
        ("brokenq.graphql", Some("!brokenQ"), Some("query Q { dog { ".into())),
        ("missingq.graphql", None, None),
    ];
    for (p, _, text) in &files {
        if let Some(t) = text {
            std::fs::write(base.join(p), t).unwrap();
        }
    }
    let _ = std::os::unix::fs::symlink("a.graphql", base.join("alias.json"));
    let _ = std::os::unix::fs::symlink("a.graphql", base.join("alias.current"));
    let schemas = ["alias.json", "alias.current", "a.graphql", "x/schema.graphql", "y/schema.graphql", "a.gql", "a.json", "app/schema.graphql", "app/shared/../schema.graphql", "c.graphql", "d.graphql", "broken.graphql", "schema.txt", "missing.graphql"];
    let queries = ["q1.graphql", "x/q.graphql", "y/q.graphql", "q3.graphql", "qw.graphql", "qf1.graphql", "qf2.graphql", "brokenq.graphql", "missingq.graphql"];
    let optids = ["default", "rust", "other", "named", "derives"];
    let nhist = if tier == "thorough" { 300 } else { 24 };
    let mut cases = vec![];
    let mut dist = std::collections::BTreeMap::<String, usize>::new();
    let files_coq = coq::list(&files, |(p, id, _)| format!("({}, {})", coq::s(p), coq::opt(id, |x| coq::s(x))));
    // directed histories first (the regression corpus): each is a known way for one call to leak
    // into another
    let mk = |q: &str, s: &str, o: &str| Call { q: q.into(), s: s.into(), o: o.into() };
    let mut directed: Vec<Vec<Vec<Call>>> = vec![
        vec![vec![mk("missingq.graphql", "a.graphql", "default"), mk("q1.graphql", "a.graphql", "default")]],           // failed load, then a good call
        vec![vec![mk("q1.graphql", "broken.graphql", "default"), mk("q1.graphql", "a.graphql", "default"), mk("q1.graphql", "schema.txt", "default"), mk("q1.graphql", "a.graphql", "default")]],
        vec![vec![mk("q1.graphql", "x/schema.graphql", "default"), mk("q1.graphql", "y/schema.graphql", "default"), mk("q1.graphql", "x/schema.graphql", "default")]], // same base name
        vec![vec![mk("qf1.graphql", "a.graphql", "default"), mk("qf2.graphql", "a.graphql", "default"), mk("qf1.graphql", "a.graphql", "default")]], // recursion of the k-th fragment differs between documents
        vec![vec![mk("qf2.graphql", "a.graphql", "default"), mk("qf1.graphql", "a.graphql", "default")]],
        vec![vec![mk("q1.graphql", "a.graphql", "default"), mk("q1.graphql", "alias.json", "default"), mk("q1.graphql", "alias.current", "default"), mk("q1.graphql", "a.graphql", "default")]], // aliases with other extensions
        vec![vec![mk("q1.graphql", "app/shared/../schema.graphql", "default"), mk("q1.graphql", "app/schema.graphql", "default")]],
        vec![vec![mk("q1.graphql", "app/schema.graphql", "default"), mk("q1.graphql", "app/shared/../schema.graphql", "default")]],
        vec![vec![mk("qw.graphql", "c.graphql", "default"), mk("qw.graphql", "d.graphql", "default"), mk("qw.graphql", "c.graphql", "default")]], // same-named input type
        vec![vec![mk("qw.graphql", "d.graphql", "default"), mk("qw.graphql", "c.graphql", "default"), mk("qw.graphql", "d.graphql", "default")]],
        vec![vec![mk("x/q.graphql", "a.graphql", "default"), mk("y/q.graphql", "a.graphql", "default"), mk("x/q.graphql", "a.json", "rust")]],
        vec![vec![mk("q1.graphql", "a.graphql", "derives"), mk("qw.graphql", "c.graphql", "derives"), mk("q1.graphql", "a.graphql", "derives")]], // a trait named twice in a derive list
    ];
    // the same, split over two threads
    let two: Vec<Vec<Vec<Call>>> = directed.iter().map(|h| { let all = h[0].clone(); let mid = all.len() / 2; vec![all[..mid].to_vec(), all[mid..].to_vec()] }).collect();
    directed.extend(two);
    let ndirected = directed.len();
    for hi in 0..(nhist + ndirected) {
        let nthreads = if hi < ndirected { directed[hi].len() } else { [1usize, 2, 2, 4, 8, 16][rng.below(6)] };
        let mut threads = vec![];
        if hi < ndirected {
            threads = directed[hi].clone();
        }
        for _ in 0..(if hi < ndirected { 0 } else { nthreads }) {
            let n = 1 + rng.below(if nthreads > 4 { 4 } else { 8 });
            let mut calls = vec![];
            for _ in 0..n {
                // mostly-valid calls, with failing ones mixed in
                let s = if rng.chance(4, 5) { schemas[rng.below(9)] } else { schemas[9 + rng.below(3)] };
                let q = if rng.chance(4, 5) { queries[rng.below(7)] } else { queries[7 + rng.below(2)] };
                calls.push(Call { q: q.to_string(), s: s.to_string(), o: optids[rng.below(optids.len())].to_string() });
            }
            threads.push(calls);
        }
        let h = History { dir: base.to_string_lossy().to_string(), threads: threads.clone() };
        let hfile = base.join(format!("h{}.json", hi));
        std::fs::write(&hfile, serde_json::to_string(&h).unwrap()).unwrap();
        let seq = spawn(&hfile, "seq");
        let par = spawn(&hfile, "par");
        let mut fresh: Vec<Vec<String>> = vec![];
        for (t, calls) in threads.iter().enumerate() {
            let mut row = vec![];
            for i in 0..calls.len() {
                let r = spawn(&hfile, &format!("one:{}:{}", t, i)).and_then(|v| v.get(0).and_then(|x| x.get(0).cloned())).unwrap_or_else(|| "crash".into());
                row.push(r);
            }
            fresh.push(row);
        }
        let grid = |g: &Option<Vec<Vec<String>>>| -> String {
            match g {
                Some(v) => coq::list(v, |row| coq::list(row, |x| oc(x))),
                None => "[]".into(),
            }
        };
        let npanic = fresh.iter().flatten().filter(|x| *x == "panic").count();
        let ncalls: usize = threads.iter().map(|t| t.len()).sum();
        *dist.entry(format!("{} threads", nthreads)).or_default() += 1;
        *dist.entry("calls".into()).or_default() += ncalls;
        *dist.entry("calls that fail alone (panic)".into()).or_default() += npanic;
        *dist.entry("calls with a generation error".into()).or_default() += fresh.iter().flatten().filter(|x| x.starts_with("err:")).count();
        cases.push(Case {
            coq: format!(
                "(mkCase {} {} {} {} {})",
                files_coq,
                coq::list(&threads, |t| coq::list(t, |c| format!("(mkCC {} {} {})", coq::s(&c.q), coq::s(&c.s), coq::s(&c.o)))),
                grid(&Some(fresh.clone())),
                grid(&seq),
                grid(&par)
            ),
            desc: json!({"threads": threads, "fresh": fresh, "sequential": seq, "concurrent": par}),
            key: format!("{:?}", threads.iter().map(|t| t.iter().map(|c| format!("{}|{}|{}", c.q, c.s, c.o)).collect::<Vec<_>>()).collect::<Vec<_>>()),
            nontrivial: npanic > 0 && ncalls > 1,
        });
        let _ = std::fs::remove_file(&hfile);
    }
    let samples: Vec<_> = cases.iter().take(2).map(|c| c.desc.clone()).collect();
    let cs = CaseSet { run_module: "RunC08".into(), cases, checkers: vec!["corr".into(), "prop_sequential".into(), "prop_concurrent".into()], extra_imports: vec!["Cache".into()], preludes: vec![] };
    cs.write(outdir, shards, json!({
        "rule": "random histories of 1-16 threads x 1-8 calls over 14 schema paths (the same contents under three paths and as introspection JSON, symbolic links to one file under a .json and an unsupported extension, another schema with the same base name, unparsable, unsupported extension, missing) x 6 query paths (incl. unparsable and missing) x 4 option sets; each history is run sequentially in one fresh process, concurrently behind a barrier in one fresh process, and every call alone in its own fresh process; outcomes are digests of the token stream / error text, or panic. Non-trivial = a history with more than one call in which some call fails.",
        "distribution": dist, "samples": samples,
    }));
    let _ = std::fs::remove_dir_all(&base);
    runner::cleanup_scratch();
}
