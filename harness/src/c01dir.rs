//! Directed programs for C01 / C03 / C09.
use crate::gql::*;
use crate::progs::Program;

fn obj(name: &str, implements: &[&str], fields: Vec<FieldDef>) -> TypeDef {
    TypeDef::Object { name: name.into(), implements: implements.iter().map(|s| s.to_string()).collect(), fields }
}
fn f(name: &str, ty: GType) -> FieldDef {
    FieldDef::new(name, ty)
}
fn n(t: &str) -> GType {
    GType::named(t)
}
fn nn(t: GType) -> GType {
    GType::nn(t)
}
fn l(t: GType) -> GType {
    GType::list(t)
}
fn al(alias: &str, name: &str, sub: Vec<Sel>) -> Sel {
    Sel::Field { alias: Some(alias.into()), name: name.into(), sub }
}
fn on(t: &str, sub: Vec<Sel>) -> Sel {
    Sel::Inline { on: Some(t.into()), sub }
}
fn sp(nm: &str) -> Sel {
    Sel::Spread(nm.into())
}

pub fn zoo() -> SchemaDoc {
    SchemaDoc {
        defs: vec![
            TypeDef::Scalar { name: "Date".into() },
            TypeDef::Enum { name: "Color".into(), values: vec!["RED".into(), "GREEN".into(), "type".into()] },
            TypeDef::Interface { name: "Animal".into(), fields: vec![f("id", nn(n("ID"))), f("name", n("String")), f("friends", l(n("Animal"))), f("born", n("Date"))] },
            TypeDef::Interface { name: "Named".into(), fields: vec![f("name", n("String"))] },
            obj("Dog", &["Animal", "Named"], vec![f("id", nn(n("ID"))), f("name", n("String")), f("friends", l(n("Animal"))), f("born", n("Date")), f("barks", nn(n("Boolean"))), f("owner", n("Person")), f("color", nn(n("Color")))]),
            obj("Cat", &["Animal"], vec![f("id", nn(n("ID"))), f("name", n("String")), f("friends", l(n("Animal"))), f("born", n("Date")), f("lives", nn(n("Int"))), f("weights", nn(l(nn(n("Float")))))]),
            obj("Person", &["Named"], vec![f("name", n("String")), f("pets", nn(l(nn(n("Animal"))))), f("best", n("Pet")), f("parent", n("Person")), f("tags", l(l(nn(n("String"))))), f("ids", l(n("ID"))), f("codes", nn(l(n("ID")))), f("keys", nn(l(nn(n("ID")))))]),
            TypeDef::Union { name: "Pet".into(), members: vec!["Dog".into(), "Cat".into()] },
            TypeDef::Union { name: "Anything".into(), members: vec!["Dog".into(), "Person".into(), "Cat".into()] },
            obj("Query", &[], vec![f("me", n("Person")), f("animals", nn(l(n("Animal")))), f("search", l(nn(n("Anything")))), f("pet", n("Pet")), f("dog", nn(n("Dog"))), f("named", n("Named")), f("count", nn(n("Int")))]),
        ],
        schema_block: None,
        input_defaults: vec![],
    }
}

fn prog(doc: Vec<QDef>, tweak: impl Fn(&mut Opts)) -> Program {
    prog_on(zoo(), doc, tweak)
}

fn prog_on(schema: SchemaDoc, doc: Vec<QDef>, tweak: impl Fn(&mut Opts)) -> Program {
    let mut opts = Opts { response_derives: Some("Serialize,Debug".into()), visibility: Some("pub".into()), ..Opts::default() };
    tweak(&mut opts);
    Program { schema, doc: QueryDoc { defs: doc }, opts, tags: vec!["directed".into()] }
}

/// the zoo with interfaces and fields added by type extensions
pub fn zoo_extended() -> SchemaDoc {
    let mut z = zoo();
    z.defs.push(TypeDef::Extend { name: "Cat".into(), implements: vec!["Named".into()], fields: vec![f("nick", n("String"))] });
    z.defs.push(TypeDef::Extend { name: "Person".into(), implements: vec![], fields: vec![f("age", nn(n("Int")))] });
    z
}

fn op(name: &str, sel: Vec<Sel>) -> QDef {
    QDef::Op { kind: OpKind::Query, name: Some(name.into()), vars: vec![], sel }
}
fn frag(name: &str, on_ty: &str, sel: Vec<Sel>) -> QDef {
    QDef::Frag { name: name.into(), on: on_ty.into(), sel }
}

pub fn directed() -> Vec<Program> {
    let t = Sel::typename;
    let fld = Sel::field;
    let mut out = vec![];
    // 1. interface list with inline fragments, fields beside them, nested abstract lists
    out.push(prog(vec![op("Animals", vec![Sel::obj("animals", vec![t(), fld("id"), fld("name"), on("Dog", vec![fld("barks"), fld("color"), Sel::obj("owner", vec![fld("name")])]), on("Cat", vec![fld("lives"), fld("weights")]), Sel::obj("friends", vec![t(), fld("id"), on("Cat", vec![fld("lives")])])]), fld("count")])], |_| {}));
    // 2. the same with the other-variant option and normalization
    out.push(prog(vec![op("Animals", vec![Sel::obj("animals", vec![t(), fld("id"), on("Dog", vec![fld("barks")])]), Sel::obj("pet", vec![t(), on("Cat", vec![fld("lives"), fld("born")])])])], |o| { o.fragments_other_variant = true; o.normalization_rust = true; }));
    // 3. named fragments: on the interface itself (flattened), on a variant, nested spreads
    out.push(prog(vec![
        frag("AnimalBits", "Animal", vec![t(), fld("id"), fld("name")]),
        frag("DogBits", "Dog", vec![fld("barks"), sp("AnimalBits")]),
        frag("Owner", "Person", vec![fld("name"), Sel::obj("pets", vec![t(), sp("AnimalBits")])]),
        op("Frags", vec![Sel::obj("animals", vec![t(), sp("AnimalBits"), sp("DogBits"), on("Cat", vec![fld("lives")])]), Sel::obj("me", vec![sp("Owner"), fld("tags"), fld("ids")]), Sel::obj("dog", vec![sp("DogBits"), Sel::obj("owner", vec![sp("Owner")])])]),
    ], |_| {}));
    // 4. recursive fragment through a nullable member, and through a list
    out.push(prog(vec![
        frag("Ancestors", "Person", vec![fld("name"), Sel::obj("parent", vec![sp("Ancestors")])]),
        frag("Herd", "Animal", vec![t(), fld("id"), Sel::obj("friends", vec![sp("Herd")])]),
        op("Rec", vec![Sel::obj("me", vec![sp("Ancestors")]), Sel::obj("animals", vec![sp("Herd")])]),
    ], |_| {}));
    // 5. unions: every member, a member without selection, fragments on a member only
    out.push(prog(vec![
        frag("P", "Person", vec![fld("name")]),
        op("Search", vec![Sel::obj("search", vec![t(), on("Dog", vec![fld("name"), fld("barks")]), sp("P")]), Sel::obj("pet", vec![t(), on("Dog", vec![fld("id")])])]),
    ], |_| {}));
    // 6. aliases (also the same field twice), object-level __typename, interface-typed single field
    out.push(prog(vec![op("Aliases", vec![al("first", "dog", vec![t(), fld("id"), al("called", "name", vec![])]), al("second", "dog", vec![fld("barks"), al("type", "color", vec![])]), Sel::obj("named", vec![t(), fld("name"), on("Person", vec![fld("ids")])]), al("n", "count", vec![])])], |_| {}));
    // 7. an interface fragment spread inside an object selection (type condition wider than the parent)
    out.push(prog(vec![
        frag("AsAnimal", "Animal", vec![t(), fld("id"), on("Dog", vec![fld("barks")])]),
        frag("AsNamed", "Named", vec![t(), fld("name")]),
        op("Wider", vec![Sel::obj("dog", vec![sp("AsAnimal"), sp("AsNamed"), fld("color")]), Sel::obj("me", vec![sp("AsNamed"), Sel::obj("best", vec![t(), on("Dog", vec![sp("AsNamed")])])])]),
    ], |_| {}));
    // 8. skip_serializing_none + warn deprecations + only-typename selections
    out.push(prog(vec![op("Thin", vec![Sel::obj("pet", vec![t()]), Sel::obj("me", vec![fld("name"), Sel::obj("best", vec![t(), on("Dog", vec![t(), fld("id")])])]), Sel::obj("dog", vec![t()])])], |o| { o.skip_serializing_none = true; }));
    // 9. an abstract position whose selection is `__typename` plus ONE spread of a fragment on a member type
    out.push(prog(vec![
        frag("DogOnly", "Dog", vec![fld("name"), fld("barks")]),
        frag("CatOnly", "Cat", vec![fld("lives")]),
        op("OneSpread", vec![Sel::obj("pet", vec![t(), sp("DogOnly")]), Sel::obj("animals", vec![t(), sp("CatOnly")]), Sel::obj("search", vec![t(), sp("DogOnly")])]),
    ], |_| {}));
    // 10. implementors and fields that come from `extend type`
    out.push(prog_on(zoo_extended(), vec![
        op("Extended", vec![Sel::obj("named", vec![t(), fld("name"), on("Cat", vec![fld("nick"), fld("lives")]), on("Person", vec![fld("age")])]), Sel::obj("me", vec![fld("age"), Sel::obj("pets", vec![t(), on("Cat", vec![fld("nick")])])])]),
    ], |_| {}));
    // 12. one type condition reached twice; the enum, the custom scalar and the fragment appear only the second time
    out.push(prog(vec![
        frag("DogLate", "Dog", vec![fld("barks")]),
        op("Twice", vec![
            Sel::obj("animals", vec![t(), on("Dog", vec![fld("name")]), on("Cat", vec![fld("lives")])]),
            Sel::obj("pet", vec![t(), on("Dog", vec![fld("color"), fld("born"), sp("DogLate")]), on("Cat", vec![fld("born")])]),
            Sel::obj("dog", vec![fld("id")]),
            Sel::obj("named", vec![t(), on("Dog", vec![Sel::obj("owner", vec![fld("name")])])]),
        ]),
    ], |_| {}));
    // 13. under an object parent: an inline fragment on an interface that refines back to the object, and deeper
    out.push(prog(vec![
        frag("DogDetails", "Dog", vec![fld("barks")]),
        op("Refine", vec![
            Sel::obj("dog", vec![on("Animal", vec![fld("name"), on("Dog", vec![fld("color"), Sel::obj("owner", vec![al("fullName", "name", vec![])])])]), fld("id")]),
            Sel::obj("me", vec![on("Named", vec![on("Person", vec![fld("tags")])]), fld("name")]),
        ]),
    ], |_| {}));
    // 14. rejected today (no __typename on the interface selection itself); if it is ever accepted, payloads of
    //     the other runtime types must still deserialize
    out.push(prog(vec![
        frag("DogTn", "Dog", vec![t(), fld("barks")]),
        op("TypenameElsewhere", vec![Sel::obj("animals", vec![fld("name"), sp("DogTn")]), Sel::obj("pet", vec![sp("DogTn")])]),
    ], |_| {}));
    out.last_mut().unwrap().tags.push("rejected-by-design".into());
    // 15. every shape of ID list: nullable list, required list of nullable IDs, required list of required IDs
    //     (a required list must be present: `default` belongs to the nullable one only)
    out.push(prog(vec![op("IdLists", vec![Sel::obj("me", vec![fld("ids"), fld("codes"), fld("keys"), Sel::obj("parent", vec![fld("codes")])])])], |_| {}));
    // 16. a union selection in which a variant that is NOT the last one selects another abstract-typed field with
    //     its own variants (the inner enum's variants are pushed between the outer ones), later variants with and
    //     without data: payloads of every runtime type must still find their variant
    out.push(prog(vec![op("NestedVariants", vec![Sel::obj("search", vec![t(),
        on("Dog", vec![fld("barks"), Sel::obj("friends", vec![t(), on("Cat", vec![fld("lives")]), on("Dog", vec![fld("color")])]), Sel::obj("owner", vec![Sel::obj("best", vec![t(), on("Dog", vec![fld("barks")])])])]),
        on("Person", vec![fld("name")]),
        on("Cat", vec![fld("lives")])])])], |_| {}));
    // 17. selections that leave a struct without any Rust field: only `__typename`, at the root and below it
    //     (an object payload must still be accepted there, and come back as an object)
    out.push(prog(vec![op("OnlyTypename", vec![t()])], |_| {}));
    out.push(prog(vec![op("NestedOnlyTypename", vec![Sel::obj("me", vec![t()]), Sel::obj("dog", vec![t(), Sel::obj("owner", vec![t()])])])], |_| {}));
    // 18. fragments whose names are keywords once snake-cased (Type, Match, Loop), spread as a member of a struct
    //     and as a member of an interface variant next to another selection of that variant (fix 7db317c)
    out.push(prog(vec![
        frag("Type", "Dog", vec![fld("barks")]),
        frag("Match", "Cat", vec![fld("lives")]),
        frag("Loop", "Person", vec![fld("name")]),
        op("KeywordFragments", vec![
            Sel::obj("animals", vec![t(), fld("id"), on("Dog", vec![fld("name")]), sp("Type"), on("Cat", vec![fld("name")]), sp("Match")]),
            Sel::obj("me", vec![fld("tags"), sp("Loop")]),
        ]),
    ], |_| {}));
    // 11. the same schema, the extension's implementor only as a runtime type
    out.push(prog_on(zoo_extended(), vec![
        op("ExtendedPlain", vec![Sel::obj("named", vec![t(), fld("name")]), Sel::obj("me", vec![fld("age"), fld("name")])]),
    ], |_| {}));
    out
}

/// A schema in the naming style of Hasura / PostGraphile (`lower_snake` and acronym type names, enum
/// and input names that `normalization = "rust"` spells differently), with an operation that selects
/// some members of a union and of an interface and leaves others unselected.  Whatever normalization
/// does to the Rust names, the `__typename` strings, keys and enum values on the wire are the schema's.
pub fn snake_case_types() -> Vec<Program> {
    let t = Sel::typename;
    let fld = Sel::field;
    let schema = SchemaDoc {
        defs: vec![
            TypeDef::Enum { name: "post_state".into(), values: vec!["draft".into(), "PUBLISHED".into(), "in_review".into()] },
            TypeDef::Interface { name: "node_like".into(), fields: vec![f("id", nn(n("ID")))] },
            obj("blog_post", &["node_like"], vec![f("id", nn(n("ID"))), f("title", n("String")), f("state", nn(n("post_state"))), f("author", n("user_account"))]),
            obj("user_account", &["node_like"], vec![f("id", nn(n("ID"))), f("login", nn(n("String"))), f("posts", l(nn(n("blog_post"))))]),
            obj("HTTPLink", &[], vec![f("url", nn(n("String"))), f("hits", n("Int"))]),
            TypeDef::Union { name: "search_result".into(), members: vec!["blog_post".into(), "user_account".into(), "HTTPLink".into()] },
            obj("Query", &[], vec![f("search", l(nn(n("search_result")))), f("node", n("node_like")), f("top_post", n("blog_post"))]),
        ],
        schema_block: None,
        input_defaults: vec![],
    };
    let doc = vec![op("snakeSearch", vec![
        Sel::obj("search", vec![t(), on("blog_post", vec![fld("title"), fld("state")]), on("HTTPLink", vec![fld("url"), fld("hits")])]),
        Sel::obj("node", vec![t(), fld("id"), on("user_account", vec![fld("login"), Sel::obj("posts", vec![fld("title")])])]),
        Sel::obj("top_post", vec![fld("state"), Sel::obj("author", vec![fld("login")])]),
    ])];
    vec![
        prog_on(schema.clone(), doc.clone(), |_| {}),
        prog_on(schema.clone(), doc.clone(), |o| { o.normalization_rust = true; }),
        prog_on(schema, doc, |o| { o.normalization_rust = true; o.fragments_other_variant = true; }),
    ]
}

/// A deprecated object-typed field whose sub-selection is the only place where an enum, a custom
/// scalar and a fragment are mentioned, under each deprecation strategy: whatever is emitted for
/// the sub-selection must find its types, whether or not the field itself is kept.
pub fn deprecated_subtree() -> Vec<Program> {
    let t = Sel::typename;
    let fld = Sel::field;
    let mut schema = zoo();
    for d in schema.defs.iter_mut() {
        if let TypeDef::Object { name, fields, .. } = d {
            if name == "Dog" {
                for fd in fields.iter_mut() {
                    if fd.name == "owner" {
                        fd.deprecated = Some(Some("use `keeper`".into()));
                    }
                }
            }
        }
    }
    let doc = vec![
        frag("PetBits", "Cat", vec![fld("lives"), fld("born")]),
        op("OldOwner", vec![Sel::obj("dog", vec![fld("barks"), Sel::obj("owner", vec![fld("name"), Sel::obj("pets", vec![t(), on("Dog", vec![fld("color")]), on("Cat", vec![sp("PetBits")])])])])]),
    ];
    (0..3u8).map(|k| prog_on(schema.clone(), doc.clone(), move |o| { o.deprecation = Some(k); })).collect()
}

/// The zoo as a tool-printed SDL that also declares the five built-in scalars (legal, and common in printed
/// schemas): nothing about the generated module may change — one alias per built-in, no second definition.
pub fn explicit_builtin_scalars() -> Vec<Program> {
    let t = Sel::typename;
    let fld = Sel::field;
    let mut schema = zoo();
    let mut defs: Vec<TypeDef> = ["Int", "Float", "String", "Boolean", "ID"].iter().map(|n| TypeDef::Scalar { name: n.to_string() }).collect();
    defs.extend(schema.defs.drain(..));
    schema.defs = defs;
    let doc = vec![op("Printed", vec![Sel::obj("animals", vec![t(), fld("id"), fld("name"), fld("born"), on("Cat", vec![fld("lives"), fld("weights")]), on("Dog", vec![fld("barks")])]), fld("count"), Sel::obj("me", vec![fld("ids"), fld("codes")])])];
    vec![prog_on(schema.clone(), doc.clone(), |_| {}), prog_on(schema, doc, |o| { o.normalization_rust = true; })]
}

/// Nullable lists (`tags: [[String!]]`, `ids: [ID]`, `friends: [Animal]`) in a response that is also serialised,
/// with skip_serializing_none on: the only response members that carry skip-when-None.
pub fn skipped_nullable_lists() -> Vec<Program> {
    let fld = Sel::field;
    let doc = vec![op("SkipLists", vec![Sel::obj("me", vec![fld("name"), fld("tags"), fld("ids"), fld("codes"), Sel::obj("parent", vec![fld("tags"), fld("ids")])]), fld("count")])];
    vec![prog_on(zoo(), doc, |o| {
        o.skip_serializing_none = true;
        o.response_derives = Some("Debug, Serialize".into());
    })]
}

/// Known finding K15: GraphQL TYPE names that are Rust keywords (legal GraphQL: `enum type`, `input match`)
/// are emitted as items of that name.
pub fn keyword_type_names() -> Vec<Program> {
    let fld = Sel::field;
    let mut schema = zoo();
    schema.defs.push(TypeDef::Enum { name: "type".into(), values: vec!["A".into(), "B".into()] });
    for d in schema.defs.iter_mut() {
        if let TypeDef::Object { name, fields, .. } = d {
            if name == "Query" {
                fields.push(f("kind", n("type")));
            }
        }
    }
    vec![prog_on(schema, vec![op("KeywordTypeName", vec![fld("kind"), fld("count")])], |_| {})]
}
