//! C10: generated enums as open-world string bijections — token level and compiled round trips.
use crate::consumer::{Consumer, Module};
use crate::coq;
use crate::gql::*;
use crate::items::RItem;
use crate::out::{Case, CaseSet};
use crate::rng::Rng;
use crate::runner;
use heck::ToUpperCamelCase;
use serde_json::json;
use std::path::Path;

fn enum_program(name: &str, values: &[String]) -> (SchemaDoc, QueryDoc) {
    let schema = SchemaDoc {
        defs: vec![
            TypeDef::Enum { name: name.into(), values: values.to_vec() },
            TypeDef::Input { name: "Inp".into(), fields: vec![("e".into(), GType::named(name))], one_of: false },
            TypeDef::Object { name: "Query".into(), implements: vec![], fields: vec![FieldDef::new("e", GType::named(name))] },
        ],
        schema_block: None,
        input_defaults: vec![],
    };
    let doc = QueryDoc {
        defs: vec![QDef::Op {
            kind: OpKind::Query,
            name: Some("Q".into()),
            vars: vec![
                VarDef { name: "v".into(), ty: GType::named(name), default: None },
                VarDef { name: "i".into(), ty: GType::named("Inp"), default: None },
            ],
            sel: vec![Sel::field("e")],
        }],
    };
    (schema, doc)
}

fn flip_case(s: &str, i: usize) -> String {
    s.chars()
        .enumerate()
        .map(|(k, c)| if k == i { if c.is_lowercase() { c.to_ascii_uppercase() } else { c.to_ascii_lowercase() } } else { c })
        .collect()
}

fn probe_strings(values: &[String], rng: &mut Rng, nrand: usize) -> Vec<String> {
    let mut out: Vec<String> = vec![];
    for v in values {
        out.push(v.clone());
        if !v.is_empty() {
            out.push(flip_case(v, 0));
            out.push(flip_case(v, v.chars().count() - 1));
            out.push(v[..v.len() - 1].to_string());
        }
        out.push(format!("{}_", v));
        out.push(format!("_{}", v));
        out.push(format!("{}x", v));
        out.push(v.replace('_', ""));
        out.push(v.to_upper_camel_case());
        out.push(v.to_lowercase());
        out.push(v.to_uppercase());
    }
    out.push(String::new());
    out.push("Other".into());
    out.push("other".into());
    out.push("a\"b".into());
    out.push("back\\slash".into());
    out.push("h\u{e9}llo".into());
    out.push("\u{1F600}".into());
    out.push("line\nbreak".into());
    let pool: Vec<char> = "abAB_1 \u{e9}\u{4e2d}\"\\\t".chars().collect();
    for _ in 0..nrand {
        let len = rng.below(8);
        out.push((0..len).map(|_| *rng.pick(&pool)).collect());
    }
    let mut seen = std::collections::BTreeSet::new();
    out.retain(|s| seen.insert(s.clone()));
    out
}

pub fn enum_sets(tier: &str, seed: u64, kws: &[String]) -> Vec<Vec<String>> {
    let s = |xs: &[&str]| xs.iter().map(|x| x.to_string()).collect::<Vec<String>>();
    let mut sets = vec![
        s(&["RED", "GREEN", "BLUE"]),
        s(&["type", "self", "where", "match", "Self", "async"]),
        s(&["mixedCase", "snake_value", "PascalCase", "SCREAMING_CASE", "with1digit"]),
        s(&["A"]),
        s(&["a", "A", "a_", "_a"]),
        s(&["in", "IN", "In"]),
        s(&["Other", "RED"]),          // K4: clashes with the catch-all
        s(&["foo_bar", "fooBar"]),     // K3 under normalization = rust
        s(&["type", "type_"]),         // K3 under normalization = none
    ];
    // every table keyword, in chunks
    for ch in kws.chunks(13) {
        sets.push(ch.to_vec());
    }
    let mut rng = Rng::new(seed ^ 0xC10);
    let n = if tier == "thorough" { 120 } else { 6 };
    let pool = ["x", "y", "Kind", "kind", "KIND", "my_val", "myVal", "MyVal", "v1", "V_1", "self", "type", "loop", "Box", "box", "é"];
    for _ in 0..n {
        let k = 1 + rng.below(if tier == "thorough" { 40 } else { 8 });
        let mut v: Vec<String> = vec![];
        for j in 0..k {
            let base = *rng.pick(&pool);
            if base == "é" {
                continue;
            }
            let name = if rng.chance(1, 2) { base.to_string() } else { format!("{}{}", base, j) };
            if !v.contains(&name) {
                v.push(name);
            }
        }
        if !v.is_empty() {
            sets.push(v);
        }
    }
    sets
}

pub fn run(outdir: &Path, tier: &str, seed: u64, shards: usize, _replay: Option<String>) {
    runner::quiet_panics();
    let kws = crate::c11::table_keywords();
    let sets = enum_sets(tier, seed, &kws);
    let mut rng = Rng::new(seed ^ 0x10C);
    let mut cons = Consumer::new("c10", true);
    let mut cases = vec![];
    let mut plan = vec![]; // (module idx, values, norm, strings)
    let mut dist = std::collections::BTreeMap::<String, usize>::new();
    let derive_opts: [(Option<&str>, Option<&str>); 3] = [(Some("Debug"), None), (Some("Debug,PartialEq"), Some("Clone, Debug")), (Some("Debug, Serialize"), Some("Default,PartialEq"))];
    for (si, values) in sets.iter().enumerate() {
        for norm in [false, true] {
            let (rd, vd) = derive_opts[(si + norm as usize) % 3];
            let ename = if si % 2 == 0 { "Kind" } else { "my_enum" };
            let (schema, doc) = enum_program(ename, values);
            let opts = Opts {
                operation_name: Some("Q".into()),
                normalization_rust: norm,
                response_derives: rd.map(|s| s.to_string()),
                variables_derives: vd.map(|s| s.to_string()),
                visibility: Some("pub".into()),
                ..Opts::default()
            };
            // every other schema rendering marks every second VALUE as deprecated, under each deprecation strategy
            // in turn: the strategies speak about fields; an enum value keeps its variant whatever they say
            let mut opts = opts;
            let mut sdl = schema.render_sdl();
            if si % 2 == 1 {
                opts.deprecation = [Some(2u8), Some(1), Some(0), None][(si / 2 + norm as usize) % 4];
                let mut in_enum = false;
                let mut k = 0usize;
                sdl = sdl
                    .lines()
                    .map(|l| {
                        if l.starts_with("enum ") {
                            in_enum = true;
                            k = 0;
                            l.to_string()
                        } else if l.starts_with('}') {
                            in_enum = false;
                            l.to_string()
                        } else if in_enum && !l.trim().is_empty() {
                            k += 1;
                            if k % 2 == 0 { format!("{} @deprecated(reason: \"old\")", l) } else { l.to_string() }
                        } else {
                            l.to_string()
                        }
                    })
                    .collect::<Vec<_>>()
                    .join("\n");
                *dist.entry(format!("item/with deprecated values/strategy {:?}", opts.deprecation)).or_default() += 1;
            }
            // every fourth schema mentions the enum in a directive-only `extend enum` BEFORE another enum and
            // before its own definition (legal SDL, typical of schemas concatenated from several files): the
            // extension adds no value, and the enum's variants are still exactly its values
            if si % 4 == 0 {
                sdl = format!("extend enum {} @note\n\nenum AuxEarlier {{\n  AUX_ONE\n  AUX_TWO\n}}\n\n{}", ename, sdl);
                *dist.entry("item/directive-only extend enum before another enum and the definition".to_string()).or_default() += 1;
            }
            let oc = runner::generate(&sdl, "graphql", &doc.render(), &opts);
            let rust_name = if norm { ename.to_upper_camel_case() } else { ename.to_string() };
            let mods = runner::modules(&oc);
            let item: Option<RItem> = mods.as_ref().ok().and_then(|m| m.get(0)).and_then(|m| m.items.iter().find(|i| i.name() == rust_name).cloned());
            cases.push(Case {
                coq: format!(
                    "(CItem {} {} {} {} {} {})",
                    coq::s(ename),
                    coq::strs(values),
                    coq::b(norm),
                    coq::opt(&rd, |s| coq::s(s)),
                    coq::opt(&vd, |s| coq::s(s)),
                    coq::opt(&item, |i| i.to_coq())
                ),
                desc: json!({"kind": "item", "enum": ename, "values": values, "normalization_rust": norm, "response_derives": rd, "variables_derives": vd,
                             "observed": match &mods { Ok(_) => format!("{:?}", item.as_ref().map(|i| i.name().to_string())), Err(e) => e.clone() }}),
                key: format!("item|{:?}|{}", values, norm),
                nontrivial: true,
            });
            *dist.entry("item".into()).or_default() += 1;
            if let runner::Outcome::Ok(ts) = &oc {
                let k = cons.add(Module {
                    code: ts.to_string(),
                    prelude: String::new(),
                    exposed: vec![],
                    custom: vec![("enum".into(), format!("crate::de_dbg_ser::<w::q::{}>(json)", rust_name))],
                    outer: String::new(),
                });
                let strings = probe_strings(values, &mut rng, if tier == "thorough" { 60 } else { 25 });
                plan.push((k, values.clone(), norm, strings));
            }
        }
    }
    let built = cons.build();
    let mut vectors = vec![];
    let mut meta = vec![];
    for (k, values, norm, strings) in &plan {
        for s in strings {
            let v = serde_json::Value::String(s.clone());
            vectors.push((*k, "enum".to_string(), serde_json::to_string(&v).unwrap()));
            meta.push((*k, values.clone(), *norm, v));
        }
        for j in ["null", "1", "true", "[]", "{}", "1.5", "[\"RED\"]"] {
            vectors.push((*k, "enum".to_string(), j.to_string()));
            meta.push((*k, values.clone(), *norm, serde_json::from_str(j).unwrap()));
        }
    }
    let results = if built { cons.run(&vectors) } else { vectors.iter().map(|_| "NOBIN".to_string()).collect() };
    for ((k, values, norm, input), line) in meta.iter().zip(results.iter()) {
        let obs = if line == "COMPILE-ERROR" || cons.status.get(*k).map(|s| s.is_err()).unwrap_or(false) {
            "RNoCompile".to_string()
        } else if let Some(rest) = line.strip_prefix("OK\t") {
            let mut it = rest.splitn(2, '\t');
            let dbg = it.next().unwrap_or("");
            let js = it.next().unwrap_or("null");
            let jv: serde_json::Value = serde_json::from_str(js).unwrap_or(serde_json::Value::Null);
            if dbg.starts_with("Other(") {
                format!("(ROther {})", coq::json(&jv))
            } else {
                format!("(RVariant {} {})", coq::s(dbg), coq::json(&jv))
            }
        } else if line.starts_with("ERR") {
            "RErr".to_string()
        } else {
            "RSplit".to_string()
        };
        let class = obs.split(' ').next().unwrap_or("").trim_start_matches('(').to_string();
        *dist.entry(format!("run/{}", class)).or_default() += 1;
        let in_values = matches!(input, serde_json::Value::String(s) if values.contains(s));
        cases.push(Case {
            coq: format!("(CRun {} {} {} {})", coq::strs(values), coq::b(*norm), coq::json(input), obs),
            desc: json!({"kind": "run", "values": values, "normalization_rust": norm, "input": input, "observed": line}),
            key: format!("run|{:?}|{}|{}", values, norm, input),
            nontrivial: !in_values || values.len() > 1,
        });
    }
    let compile_errors: Vec<_> = cons.status.iter().enumerate().filter_map(|(k, s)| s.as_ref().err().map(|e| json!({"module": k, "errors": e}))).collect();
    let samples: Vec<_> = cases.iter().step_by((cases.len() / 6).max(1)).map(|c| c.desc.clone()).collect();
    let cs = CaseSet {
        run_module: "RunC10".into(),
        cases,
        checkers: vec!["corr".into(), "prop".into(), "prop_item".into(), "known_ident_collision".into()],
        extra_imports: vec!["Json".into()],
        preludes: vec![],
    };
    cs.write(
        outdir,
        shards,
        json!({
            "rule": "enum definitions: fixed interesting value lists (keywords, case variants, near-collisions), the whole keyword table in chunks, seeded random lists; x normalization {none, rust} x 3 derive-option sets. Per enum: the emitted item (token level) and, compiled with real rustc+serde, every declared value, case-flipped / underscore / prefix / extension near-misses, empty, quotes, backslashes, non-ASCII, seeded random strings and 7 non-string JSON values, each through from_str AND from_value, Debug + re-serialisation observed.",
            "exhaustive": false,
            "distribution": dist,
            "samples": samples,
            "x_consumer_built": built,
            "x_compile_errors": compile_errors,
            "x_build_log": cons.build_log.chars().take(600).collect::<String>(),
        }),
    );
    cons.cleanup();
    runner::cleanup_scratch();
}
