//! C09: options documented as wire-neutral (normalization, extra derives, module visibility,
//! custom-scalars module, serde path, externally defined enums) never change what the generated
//! types accept or produce.  One program, several option settings, the same vectors under each.
use crate::consumer::{Consumer, Exposed, Module};
use crate::coq;
use crate::gencase;
use crate::gql::*;
use crate::out::{Case, CaseSet};
use crate::progs::{self, Program};
use crate::resp::{self, J};
use crate::rng::Rng;
use crate::runner;
use serde_json::{json, Value};
use std::collections::BTreeMap;
use std::path::Path;

fn enum_prelude(schema: &SchemaDoc, names: &[String]) -> String {
    use heck::ToUpperCamelCase;
    let mut s = String::new();
    for d in &schema.defs {
        if let TypeDef::Enum { name, values } = d {
            if !names.contains(name) {
                continue;
            }
            s.push_str("#[derive(serde::Serialize, serde::Deserialize, Debug, Clone, PartialEq)]\n");
            s.push_str(&format!("pub enum {} {{\n", name));
            for (i, v) in values.iter().enumerate() {
                s.push_str(&format!("    #[serde(rename = {:?})] V{},\n", v, i));
            }
            s.push_str("}\n");
            let c = name.to_upper_camel_case();
            if &c != name {
                s.push_str(&format!("pub type {} = {};\n", c, name));
            }
        }
    }
    s
}

fn scal_module(schema: &SchemaDoc) -> String {
    format!("pub mod scal {{\n{}}}\n", resp::scalar_prelude(schema))
}

pub fn variants_of(base: &Opts, schema: &SchemaDoc) -> Vec<(String, Opts)> {
    let mut out = vec![("base".to_string(), base.clone())];
    let mut o = base.clone();
    o.normalization_rust = !base.normalization_rust;
    out.push(("normalization flipped".into(), o));
    let mut o = base.clone();
    o.response_derives = Some("Clone, Serialize ,PartialEq,Debug".into());
    o.variables_derives = Some("PartialEq,Deserialize,Debug, Clone".into());
    out.push(("extra derives".into(), o));
    let mut o = base.clone();
    o.visibility = Some("crate".into());
    out.push(("module visibility pub(crate)".into(), o));
    let mut o = base.clone();
    o.serde_path = if base.serde_path.is_some() { None } else { Some("graphql_client::_private::serde".into()) };
    out.push(("serde path toggled".into(), o));
    let mut o = base.clone();
    o.custom_scalars_module = Some("super::scal".into());
    out.push(("custom scalars module".into(), o));
    let enums: Vec<String> = schema.defs.iter().filter_map(|d| if let TypeDef::Enum { name, .. } = d { Some(name.clone()) } else { None }).collect();
    // the same trait named by its path (derive lists take paths): generated enums carry a hand-written
    // Serialize impl, so they are all supplied by the consumer in this setting
    if base.response_derives.as_deref().map(|d| d.split(',').any(|t| t.trim() == "Serialize")).unwrap_or(false) {
        let mut o = base.clone();
        o.response_derives = base.response_derives.as_ref().map(|d| d.split(',').map(|t| if t.trim() == "Serialize" { "serde::Serialize" } else { t.trim() }).collect::<Vec<_>>().join(", "));
        o.extern_enums = enums.clone();
        out.push(("Serialize named by path".into(), o));
    }
    if !enums.is_empty() {
        let mut o = base.clone();
        o.extern_enums = enums.clone();
        out.push(("all enums extern".into(), o.clone()));
        if enums.len() > 1 {
            o.extern_enums = vec![enums[0].clone()];
            o.normalization_rust = !base.normalization_rust;
            out.push(("first enum extern + normalization flipped".into(), o));
        }
    }
    out
}

pub fn run(outdir: &Path, tier: &str, seed: u64, shards: usize, replay: Option<String>) {
    runner::quiet_panics();
    let mut rng = Rng::new(seed ^ 0xC09);
    let thorough = tier == "thorough";
    let nprog = if thorough { 40 } else { 10 };
    let mut dist = BTreeMap::<String, usize>::new();
    let mut cons = Consumer::new("c09", true);
    let programs: Vec<Program> = if let Some(rp) = &replay {
        let v: Value = serde_json::from_str(&std::fs::read_to_string(rp).unwrap()).unwrap();
        vec![serde_json::from_value(v["case"]["program"].clone()).unwrap()]
    } else {
        let mut ps: Vec<Program> = vec![];
        // directed: response-heavy and variables-heavy programs
        for (i, mut p) in crate::c01dir::directed().into_iter().enumerate() {
            if i % 3 == 0 {
                p.opts.variables_derives = Some("Deserialize".into());
                ps.push(p);
            }
        }
        // type, enum and member names that normalization = rust spells differently
        ps.extend(crate::c01dir::snake_case_types().into_iter().take(1));
        // nullable lists under skip_serializing_none in a response that derives Serialize
        ps.extend(crate::c01dir::skipped_nullable_lists());
        for (i, mut p) in crate::c04dir::directed().into_iter().filter(|p| !p.tags.iter().any(|t| t == "directed-defaults-k14")).enumerate() {
            if i % 7 == 0 {
                p.opts.response_derives = Some("Serialize".into());
                if i % 14 == 0 {
                    // an operation name that normalization = rust would spell differently
                    for d in p.doc.defs.iter_mut() {
                        if let QDef::Op { name, .. } = d {
                            *name = Some("listThings".into());
                        }
                    }
                    p.opts.operation_name = Some("listThings".into());
                }
                ps.push(p);
            }
        }
        // the directed programs do not crowd out the random ones
        let nprog = nprog.max(ps.len() + if thorough { 20 } else { 4 });
        let mut tries = 0;
        while ps.len() < nprog && tries < nprog * 6 {
            tries += 1;
            let mut p = progs::gen_program(&mut rng);
            crate::c04::variables_opts(&mut rng, &mut p);
            p.opts.response_derives = Some("Serialize".into());
            ps.push(p);
        }
        ps
    };
    struct Var {
        what: String,
        p: Program,
        obs: gencase::Observed,
        idx: Option<usize>,
    }
    struct Prep {
        op: String,
        vars: Vec<Var>,
        payloads: Vec<J>,
        assignments: Vec<J>,
    }
    let mut preps: Vec<Prep> = vec![];
    for p in programs {
        let base_obs = gencase::observe(&p, None);
        let (op, module, struct_name) = match &base_obs.modules {
            Some(ms) if !ms.is_empty() => (ms[0].operation_name.clone(), ms[0].name.clone(), ms[0].struct_decl.as_ref().map(|d| d.0.clone()).unwrap_or_else(|| ms[0].impl_for.clone())),
            _ => {
                *dist.entry("program/not generated (rejected by the library)".into()).or_default() += 1;
                continue;
            }
        };
        let _ = (module, struct_name);
        let mut vars = vec![];
        for (what, o) in variants_of(&p.opts, &p.schema) {
            let mut q = p.clone();
            q.opts = o;
            q.opts.operation_name = Some(op.clone());
            let obs = gencase::observe(&q, None);
            let idx = match (&obs.modules, &obs.tokens) {
                // the module of the operation under test, found by its module name (the constant OPERATION_NAME is
                // one of the things being compared)
                (Some(ms), Some(tokens)) if ms.iter().any(|m| m.name == heck::ToSnakeCase::to_snake_case(op.as_str())) => {
                    let m = ms.iter().find(|m| m.name == heck::ToSnakeCase::to_snake_case(op.as_str())).unwrap();
                    let sname = m.struct_decl.as_ref().map(|d| d.0.clone()).unwrap_or_else(|| m.impl_for.clone());
                    let mut prelude = String::new();
                    if q.opts.custom_scalars_module.is_some() {
                        prelude.push_str(&scal_module(&q.schema));
                    } else {
                        prelude.push_str(&resp::scalar_prelude(&q.schema));
                    }
                    prelude.push_str(&enum_prelude(&q.schema, &q.opts.extern_enums));
                    Some(cons.add(Module {
                        code: tokens.clone(),
                        prelude,
                        exposed: vec![Exposed { key: "resp".into(), path: format!("{}::ResponseData", m.name), de: true, ser: true }],
                        custom: vec![
                            ("vars".into(), crate::c04::variables_expr(&m.name, &sname)),
                            // the rest of the request body: operationName and query (Variables = unit or anything: not needed)
                            ("envelope".into(), format!("format!(\"OK {{}}\", crate::canon(&serde_json::json!([w::{m}::OPERATION_NAME, w::{m}::QUERY])))", m = m.name)),
                        ],
                        outer: String::new(),
                    }))
                }
                _ => None,
            };
            *dist.entry(format!("variant/{}", what)).or_default() += 1;
            vars.push(Var { what, p: q, obs, idx });
        }
        // vectors (from the base program)
        let mut d2 = BTreeMap::new();
        let payloads: Vec<J> = resp::vectors_for(&mut rng, &p, &op, if thorough { 4 } else { 2 }, 8, &mut d2).into_iter().filter(|v| !v.label.contains("enum")).map(|v| v.payload).collect();
        let vdefs = crate::c04::op_vars(&p, &op);
        let mut assignments = vec![];
        if vdefs.is_empty() {
            assignments.push(J::Null);
        } else {
            for _ in 0..(if thorough { 8 } else { 4 }) {
                if let Some(a) = crate::c04::assignment(&mut rng, &p.schema, &vdefs, false, &mut d2) {
                    assignments.push(a);
                }
            }
        }
        *dist.entry("vectors/response payloads".into()).or_default() += payloads.len();
        *dist.entry("vectors/variable assignments".into()).or_default() += assignments.len();
        preps.push(Prep { op, vars, payloads, assignments });
    }
    let built = cons.build();
    if !built {
        eprintln!("c09: consumer crate did not build: {}", cons.build_log.lines().take(5).collect::<Vec<_>>().join(" | "));
    }
    let mut all = vec![];
    for pr in &preps {
        for v in &pr.vars {
            if let Some(idx) = v.idx {
                for p in &pr.payloads {
                    all.push((idx, "resp".to_string(), p.text()));
                }
                for a in &pr.assignments {
                    all.push((idx, "vars".to_string(), a.text()));
                }
                all.push((idx, "envelope".to_string(), "null".to_string()));
            }
        }
    }
    let results = if built { cons.run(&all) } else { all.iter().map(|_| "NOBIN".to_string()).collect() };
    let mut k = 0;
    let mut cases = vec![];
    for pr in &preps {
        let mut vcoq = vec![];
        let mut vdesc = vec![];
        for v in &pr.vars {
            let compiled = built && v.idx.map(|i| cons.status[i].is_ok()).unwrap_or(false);
            let mut r = vec![];
            let mut w = vec![];
            let mut lines = vec![];
            for _ in &pr.payloads {
                let line = if v.idx.is_some() { let l = results[k].clone(); k += 1; l } else { "COMPILE-ERROR".to_string() };
                r.push(resp::sobs_coq(compiled, &line));
                lines.push(line);
            }
            for _ in &pr.assignments {
                let line = if v.idx.is_some() { let l = results[k].clone(); k += 1; l } else { "COMPILE-ERROR".to_string() };
                w.push(resp::sobs_coq(compiled, &line));
                lines.push(line);
            }
            let env_line = if v.idx.is_some() { let l = results[k].clone(); k += 1; l } else { "COMPILE-ERROR".to_string() };
            let env_obs = resp::sobs_coq(compiled, &env_line);
            lines.push(env_line);
            if !compiled {
                *dist.entry(format!("does not compile/{}", v.what)).or_default() += 1;
            }
            vcoq.push(format!("(mkVar9 {} {}\n    [{}]\n    [{}]\n    {})", coq::s(&v.what), gencase::gcase(&v.p, &v.obs), r.join("; "), w.join("; "), env_obs));
            vdesc.push(json!({"what": v.what, "opts": v.p.opts, "observed": lines, "compile_errors": v.idx.and_then(|i| cons.status.get(i).and_then(|s| s.as_ref().err().cloned()))}));
        }
        let p0 = &pr.vars[0].p;
        cases.push(Case {
            coq: format!("(mkC09 {} {} {} true\n  [{}])", coq::s(&pr.op), coq::list(&pr.payloads, |p| p.coq()), coq::list(&pr.assignments, |a| a.coq()), vcoq.join(";\n   ")),
            desc: json!({"program": p0, "schema": p0.schema.render_sdl(), "query": p0.doc.render(), "operation": pr.op,
                         "payloads": pr.payloads.iter().map(|p| p.to_value()).collect::<Vec<_>>(), "assignments": pr.assignments.iter().map(|p| p.to_value()).collect::<Vec<_>>(), "variants": vdesc}),
            key: format!("{}|{}|{}", p0.schema.render_sdl(), p0.doc.render(), pr.op),
            nontrivial: true,
        });
    }
    let samples: Vec<_> = cases.iter().take(1).map(|c| json!({"query": c.desc["query"], "operation": c.desc["operation"], "variants": c.desc["variants"].as_array().map(|a| a.iter().map(|v| v["what"].clone()).collect::<Vec<_>>())})).collect();
    let cs = CaseSet {
        run_module: "RunC09".into(),
        cases,
        checkers: ["corr_gen", "corr_serde", "prop_c09", "model_neutral"].iter().map(|s| s.to_string()).collect(),
        extra_imports: vec!["Json".into(), "TypeExpr".into(), "Schema".into(), "Query".into(), "Attrs".into(), "Codegen".into(), "RunSerde".into(), "RunGen".into()],
        preludes: vec![],
    };
    cs.write(outdir, shards, json!({
        "rule": "directed (zoo / input-type) and random programs, each generated and compiled under: base, normalization flipped, extra derives in another spelling, module visibility pub(crate), serde path toggled, custom scalars module (types supplied in a submodule), all enums extern, one enum extern + normalization flipped (extern enums supplied by the consumer crate with the schema's value names); the same conforming / corrupted response payloads (enum-kind corruptions excluded: an extern enum has no catch-all variant) and the same valid variable assignments under every variant; observations compared as canonical JSON / error class.",
        "distribution": dist, "samples": samples,
    }));
    cons.cleanup();
    runner::cleanup_scratch();
}
