//! Running the real library (built from /repo's working tree) in-process.
use crate::gql::Opts;
use crate::items::{self, RModule};
use std::path::PathBuf;
use std::sync::atomic::{AtomicUsize, Ordering};

static COUNTER: AtomicUsize = AtomicUsize::new(0);

pub fn scratch_dir() -> PathBuf {
    let base = std::env::var("VERIF_SCRATCH").unwrap_or_else(|_| "/var/tmp/verif-scratch".into());
    let p = PathBuf::from(base).join(format!("vh-{}", std::process::id()));
    std::fs::create_dir_all(&p).unwrap();
    p
}

pub fn cleanup_scratch() {
    let base = std::env::var("VERIF_SCRATCH").unwrap_or_else(|_| "/var/tmp/verif-scratch".into());
    let p = PathBuf::from(base).join(format!("vh-{}", std::process::id()));
    let _ = std::fs::remove_dir_all(p);
}

pub fn quiet_panics() {
    std::panic::set_hook(Box::new(|_| {}));
}

#[derive(Debug, Clone)]
pub enum Outcome {
    Ok(proc_macro2::TokenStream),
    Err(String),
    Panic(String),
}

impl Outcome {
    pub fn class(&self) -> &'static str {
        match self {
            Outcome::Ok(_) => "ok",
            Outcome::Err(_) => "err",
            Outcome::Panic(_) => "panic",
        }
    }
}

pub fn panic_msg(e: Box<dyn std::any::Any + Send>) -> String {
    if let Some(s) = e.downcast_ref::<&str>() {
        s.to_string()
    } else if let Some(s) = e.downcast_ref::<String>() {
        s.clone()
    } else {
        "<non-string panic>".into()
    }
}

/// Write the schema to a fresh file (fresh path => no interaction with the process-wide cache)
/// and call the library on a query string.
pub fn generate(schema_text: &str, ext: &str, query_text: &str, opts: &Opts) -> Outcome {
    let n = COUNTER.fetch_add(1, Ordering::SeqCst);
    let path = scratch_dir().join(format!("schema_{}.{}", n, ext));
    std::fs::write(&path, schema_text).unwrap();
    let o = opts.clone();
    let q = query_text.to_string();
    let p2 = path.clone();
    let r = std::panic::catch_unwind(move || {
        graphql_client_codegen::generate_module_token_stream_from_string(&q, &p2, o.to_lib())
            .map_err(|e| e.to_string())
    });
    let _ = std::fs::remove_file(&path);
    match r {
        Ok(Ok(ts)) => Outcome::Ok(ts),
        Ok(Err(e)) => Outcome::Err(e),
        Err(p) => Outcome::Panic(panic_msg(p)),
    }
}

pub fn modules(o: &Outcome) -> Result<Vec<RModule>, String> {
    match o {
        Outcome::Ok(ts) => items::parse_tokens(ts),
        Outcome::Err(e) => Err(format!("err: {}", e)),
        Outcome::Panic(e) => Err(format!("panic: {}", e)),
    }
}
