//! Running the real library (built from /repo's working tree) in-process.
use crate::gql::Opts;
use crate::items::{self, RModule};
use std::path::PathBuf;
use std::sync::atomic::{AtomicUsize, Ordering};

static COUNTER: AtomicUsize = AtomicUsize::new(0);

pub fn scratch_dir() -> PathBuf {
    let base = std::env::var("VERIF_SCRATCH").unwrap_or_else(|_| "/var/tmp/verif-scratch".into());
    let p = PathBuf::from(base).join(format!("vh-{}", std::process::id()));
    std::fs::create_dir_all(&p).unwrap();
    p
}

pub fn cleanup_scratch() {
    let base = std::env::var("VERIF_SCRATCH").unwrap_or_else(|_| "/var/tmp/verif-scratch".into());
    let p = PathBuf::from(base).join(format!("vh-{}", std::process::id()));
    let _ = std::fs::remove_dir_all(p);
}

pub fn quiet_panics() {
    std::panic::set_hook(Box::new(|_| {}));
}

#[derive(Debug, Clone)]
pub enum Outcome {
    Ok(proc_macro2::TokenStream),
    Err(String),
    Panic(String),
}

impl Outcome {
    pub fn class(&self) -> &'static str {
        match self {
            Outcome::Ok(_) => "ok",
            Outcome::Err(_) => "err",
            Outcome::Panic(_) => "panic",
        }
    }
}

pub fn panic_msg(e: Box<dyn std::any::Any + Send>) -> String {
    if let Some(s) = e.downcast_ref::<&str>() {
        s.to_string()
    } else if let Some(s) = e.downcast_ref::<String>() {
        s.clone()
    } else {
        "<non-string panic>".into()
    }
}

fn fnv64(parts: &[&str]) -> u64 {
    let mut h: u64 = 0xcbf29ce484222325;
    for p in parts {
        for b in p.as_bytes().iter().chain([0u8].iter()) {
            h ^= *b as u64;
            h = h.wrapping_mul(0x100000001b3);
        }
    }
    h
}

static PATH_API_FILES: AtomicUsize = AtomicUsize::new(0);
/// how many distinct (query | schema) files one process hands to the path API (the library keeps every
/// parsed file in memory for the life of the process)
const PATH_API_BUDGET: usize = 6000;

/// Write `text` to the content-addressed file `<prefix>_<hash>.<ext>` of this process's scratch
/// directory (a path therefore never changes its contents) and return the path.
fn content_file(prefix: &str, ext: &str, text: &str) -> Option<PathBuf> {
    let path = scratch_dir().join(format!("{}_{:016x}.{}", prefix, fnv64(&[text, ext]), ext));
    match std::fs::read_to_string(&path) {
        Ok(old) => {
            if old == text {
                Some(path)
            } else {
                None
            }
        }
        Err(_) => {
            if PATH_API_FILES.fetch_add(1, Ordering::SeqCst) >= PATH_API_BUDGET {
                return None;
            }
            std::fs::write(&path, text).ok()?;
            Some(path)
        }
    }
}

/// Call the library the way `#[derive(GraphQLQuery)]` and the CLI do: through the PATH interface
/// (`generate_module_token_stream`), with its process-wide caches of parsed query and schema files.
/// Files are content-addressed, so one query text keeps one path through the whole run while the
/// schemas it meets change (edits, renderings, option variants): state that survives between calls
/// and is keyed by too little shows up in every check that generates code, not only in C08.
/// A query text graphql_parser refuses goes through the string interface (the path interface
/// unwraps the parse error; the outcome class of unparsable documents is observed there), as does
/// everything beyond the per-process budget of cached files.
pub fn generate(schema_text: &str, ext: &str, query_text: &str, opts: &Opts) -> Outcome {
    let parses = graphql_parser::parse_query::<String>(query_text).is_ok();
    if parses {
        if let (Some(qp), Some(sp)) = (content_file("q", "graphql", query_text), content_file("s", ext, schema_text)) {
            let o = opts.clone();
            let r = std::panic::catch_unwind(move || {
                graphql_client_codegen::generate_module_token_stream(qp, &sp, o.to_lib()).map_err(|e| e.to_string())
            });
            return match r {
                Ok(Ok(ts)) => Outcome::Ok(ts),
                Ok(Err(e)) => Outcome::Err(e),
                Err(p) => Outcome::Panic(panic_msg(p)),
            };
        }
    }
    generate_from_string(schema_text, ext, query_text, opts)
}

/// Write the schema to a fresh file (fresh path => no interaction with the process-wide cache)
/// and call the library on a query string.
pub fn generate_from_string(schema_text: &str, ext: &str, query_text: &str, opts: &Opts) -> Outcome {
    let n = COUNTER.fetch_add(1, Ordering::SeqCst);
    let path = scratch_dir().join(format!("schema_{}.{}", n, ext));
    std::fs::write(&path, schema_text).unwrap();
    let o = opts.clone();
    let q = query_text.to_string();
    let p2 = path.clone();
    let r = std::panic::catch_unwind(move || {
        graphql_client_codegen::generate_module_token_stream_from_string(&q, &p2, o.to_lib())
            .map_err(|e| e.to_string())
    });
    let _ = std::fs::remove_file(&path);
    match r {
        Ok(Ok(ts)) => Outcome::Ok(ts),
        Ok(Err(e)) => Outcome::Err(e),
        Err(p) => Outcome::Panic(panic_msg(p)),
    }
}

pub fn modules(o: &Outcome) -> Result<Vec<RModule>, String> {
    match o {
        Outcome::Ok(ts) => items::parse_tokens(ts),
        Outcome::Err(e) => Err(format!("err: {}", e)),
        Outcome::Panic(e) => Err(format!("panic: {}", e)),
    }
}
