//! Deterministic PRNG (splitmix64); every random choice of a run derives from VERIF_SEED.
#[derive(Clone)]
pub struct Rng(pub u64);
impl Rng {
    pub fn new(seed: u64) -> Self {
        Rng(seed.wrapping_mul(0x9E3779B97F4A7C15).wrapping_add(0xD1B54A32D192ED03))
    }
    pub fn next(&mut self) -> u64 {
        self.0 = self.0.wrapping_add(0x9E3779B97F4A7C15);
        let mut z = self.0;
        z = (z ^ (z >> 30)).wrapping_mul(0xBF58476D1CE4E5B9);
        z = (z ^ (z >> 27)).wrapping_mul(0x94D049BB133111EB);
        z ^ (z >> 31)
    }
    pub fn below(&mut self, n: usize) -> usize {
        if n == 0 {
            0
        } else {
            (self.next() % (n as u64)) as usize
        }
    }
    pub fn chance(&mut self, num: usize, den: usize) -> bool {
        self.below(den) < num
    }
    pub fn pick<'a, T>(&mut self, xs: &'a [T]) -> &'a T {
        &xs[self.below(xs.len())]
    }
    pub fn shuffle<T>(&mut self, xs: &mut Vec<T>) {
        for i in (1..xs.len()).rev() {
            let j = self.below(i + 1);
            xs.swap(i, j);
        }
    }
}
