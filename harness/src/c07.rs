//! C07: the same schema as SDL and as five introspection renderings; the generated code must be
//! identical, and the JSON fed to the implementation is parsed back for the model of the JSON builder.
use crate::coq;
use crate::gencase;
use crate::gql::*;
use crate::out::{Case, CaseSet};
use crate::progs;
use crate::rng::Rng;
use crate::runner;
use serde_json::{json, Value};
use std::path::Path;

fn typeref_coq(v: &Value) -> String {
    let kind = match v["kind"].as_str() {
        Some("NON_NULL") => "(Some KNonNull)",
        Some("LIST") => "(Some TypeExpr.KList)",
        Some(_) => "(Some KOther)",
        None => "None",
    };
    let name = match v["name"].as_str() {
        Some(n) => format!("(Some {})", coq::s(n)),
        None => "None".into(),
    };
    let of = if v["ofType"].is_object() { format!("(Some {})", typeref_coq(&v["ofType"])) } else { "None".into() };
    format!("(TRef {} {} {})", kind, name, of)
}

fn names_coq(v: &Value) -> String {
    match v.as_array() {
        Some(a) => format!("(Some {})", coq::list(a, |x| coq::s(x["name"].as_str().unwrap_or("")))),
        None => "None".into(),
    }
}

/// the introspection document as a `json_schema` term (what json_conversion.rs reads)
pub fn json_schema_coq(text: &str) -> Option<String> {
    let v: Value = serde_json::from_str(text).ok()?;
    let s = if v.get("data").is_some() { &v["data"]["__schema"] } else { &v["__schema"] };
    let root = |k: &str| -> String {
        match s[k]["name"].as_str() {
            Some(n) => format!("(Some {})", coq::s(n)),
            None => "None".into(),
        }
    };
    let types = s["types"].as_array()?;
    let ts: Vec<String> = types
        .iter()
        .map(|t| {
            let kind = match t["kind"].as_str().unwrap_or("") {
                "SCALAR" => "TKScalar",
                "OBJECT" => "TKObject",
                "INTERFACE" => "TKInterface",
                "UNION" => "TKUnion",
                "ENUM" => "TKEnum",
                "INPUT_OBJECT" => "TKInputObject",
                "LIST" => "TKList",
                "NON_NULL" => "TKNonNull",
                _ => "TKOther",
            };
            let fields = match t["fields"].as_array() {
                Some(fs) => format!(
                    "(Some {})",
                    coq::list(fs, |f| format!(
                        "(mkJF {} {} {} {})",
                        coq::s(f["name"].as_str().unwrap_or("")),
                        typeref_coq(&f["type"]),
                        match f["isDeprecated"].as_bool() { Some(b) => format!("(Some {})", coq::b(b)), None => "None".into() },
                        match f["deprecationReason"].as_str() { Some(r) => format!("(Some {})", coq::s(r)), None => "None".into() }
                    ))
                ),
                None => "None".into(),
            };
            let input_fields = match t["inputFields"].as_array() {
                Some(fs) => format!("(Some {})", coq::list(fs, |f| format!("({}, {})", coq::s(f["name"].as_str().unwrap_or("")), typeref_coq(&f["type"])))),
                None => "None".into(),
            };
            let enum_values = names_coq(&t["enumValues"]);
            let one_of = match t["isOneOf"].as_bool() { Some(b) => format!("(Some {})", coq::b(b)), None => "None".into() };
            format!(
                "(mkJT {} {} {} {} {} {} {} {})",
                kind,
                coq::s(t["name"].as_str().unwrap_or("")),
                fields,
                input_fields,
                names_coq(&t["interfaces"]),
                enum_values,
                names_coq(&t["possibleTypes"]),
                one_of
            )
        })
        .collect();
    Some(format!("(mkJS {} {} {} [{}])", root("queryType"), root("mutationType"), root("subscriptionType"), ts.join(";\n      ")))
}

pub fn run(outdir: &Path, tier: &str, seed: u64, shards: usize, replay: Option<String>) {
    runner::quiet_panics();
    let mut rng = Rng::new(seed ^ 0xC07);
    let n = if tier == "thorough" { 700 } else { 45 };
    let variants: Vec<(&str, JsonVariant)> = vec![
        ("bare json", JsonVariant { data_wrapped: false, builtin_scalars: 0, meta_types: 0, is_one_of: true, leftover_reason: false }),
        ("data-wrapped json", JsonVariant { data_wrapped: true, builtin_scalars: 0, meta_types: 0, is_one_of: true, leftover_reason: false }),
        ("built-in scalars first", JsonVariant { data_wrapped: true, builtin_scalars: 1, meta_types: 0, is_one_of: true, leftover_reason: false }),
        ("built-in scalars last, __ types first", JsonVariant { data_wrapped: false, builtin_scalars: 2, meta_types: 1, is_one_of: true, leftover_reason: false }),
        ("__ types interleaved", JsonVariant { data_wrapped: true, builtin_scalars: 1, meta_types: 3, is_one_of: true, leftover_reason: false }),
        ("leftover deprecationReason on current fields", JsonVariant { data_wrapped: false, builtin_scalars: 0, meta_types: 0, is_one_of: true, leftover_reason: true }),
    ];
    let programs: Vec<progs::Program> = if let Some(rp) = replay {
        let v: Value = serde_json::from_str(&std::fs::read_to_string(rp).unwrap()).unwrap();
        vec![serde_json::from_value(v["case"]["program"].clone()).unwrap()]
    } else {
        (0..n)
            .map(|_| {
                let mut p = progs::gen_program(&mut rng);
                // all operations, so that every type the document touches matters
                p.opts.cli_mode = true;
                p.opts.operation_name = None;
                p.opts.struct_name = None;
                // sometimes an operation of a kind the schema has no root for (both paths must then fail alike,
                // also when an ordinary object happens to be called Mutation / Subscription)
                if rng.chance(1, 4) {
                    if let Some(q) = crate::c06::apply_edit(&mut rng, &p, "missing_root_type") {
                        p = q;
                    }
                }
                p
            })
            .collect()
    };
    let mut cases = vec![];
    let mut dist = std::collections::BTreeMap::<String, usize>::new();
    for p in &programs {
        let base = gencase::observe(p, None);
        let mut others = vec![];
        let mut asts = vec![];
        let mut differing = vec![];
        for (name, var) in &variants {
            let o = gencase::observe(p, Some(var));
            if o.coq != base.coq {
                differing.push(name.to_string());
            }
            others.push(format!("({}, {})", coq::s(name), o.coq));
            if var.meta_types == 0 && !var.leftover_reason {
                if let Some(ast) = json_schema_coq(&p.schema.render_json(var)) {
                    asts.push(format!("({}, {})", coq::s(name), ast));
                }
            }
        }
        // the same schema as SDL that also declares the built-in scalars it uses (legal SDL; servers print it)
        {
            let mut q = p.clone();
            let mut defs: Vec<TypeDef> = BUILTIN.iter().map(|n| TypeDef::Scalar { name: n.to_string() }).collect();
            defs.extend(q.schema.defs.clone());
            q.schema.defs = defs;
            let o = gencase::observe(&q, None);
            if o.coq != base.coq {
                differing.push("sdl with explicit built-in scalars".to_string());
            }
            others.push(format!("({}, {})", coq::s("sdl with explicit built-in scalars"), o.coq));
        }
        // the same schema as modular SDL: every object keeps its first field, each further field (and the
        // last `implements` entry) moves into an `extend type` block of its own, so most types have SEVERAL
        // extension blocks; every block counts, not only the last one
        {
            let mut q = p.clone();
            let mut blocks: Vec<TypeDef> = vec![];
            for d in q.schema.defs.iter_mut() {
                if let TypeDef::Object { name, implements, fields } = d {
                    if fields.len() < 2 && !implements.is_empty() {
                        blocks.push(TypeDef::Extend { name: name.clone(), implements: vec![implements.pop().unwrap()], fields: vec![] });
                    }
                    if fields.len() >= 2 {
                        let moved: Vec<FieldDef> = fields.split_off(1);
                        let mut imp: Vec<String> = if implements.len() >= 1 { vec![implements.pop().unwrap()] } else { vec![] };
                        // ... a second interface, if any, moves into an extension WITHOUT a field block
                        if implements.len() >= 1 {
                            blocks.push(TypeDef::Extend { name: name.clone(), implements: vec![implements.pop().unwrap()], fields: vec![] });
                        }
                        for f in moved {
                            blocks.push(TypeDef::Extend { name: name.clone(), implements: std::mem::take(&mut imp), fields: vec![f] });
                        }
                    }
                }
            }
            // blocks of the same type are not adjacent: interleave by position
            let mut a: Vec<TypeDef> = vec![];
            let mut b: Vec<TypeDef> = vec![];
            for (i, x) in blocks.into_iter().enumerate() {
                if i % 2 == 0 { a.push(x) } else { b.push(x) }
            }
            // existing extension blocks stay after the moved ones (field order inside a type is kept)
            let (ext, mut rest): (Vec<TypeDef>, Vec<TypeDef>) = q.schema.defs.drain(..).partition(|d| matches!(d, TypeDef::Extend { .. }));
            rest.extend(a);
            rest.extend(b);
            rest.extend(ext);
            q.schema.defs = rest;
            let o = gencase::observe(&q, None);
            if o.coq != base.coq {
                differing.push("sdl with fields in several extend blocks".to_string());
            }
            others.push(format!("({}, {})", coq::s("sdl with fields in several extend blocks"), o.coq));
        }
        // the same schema with every enum and input object of two or more members written as a definition that
        // keeps the first member plus an `extend enum` / `extend input` block with the others (legal SDL)
        {
            let sdl = p.schema.render_sdl();
            let mut out = String::new();
            let mut tail = String::new();
            let mut cur: Option<(String, usize)> = None; // (extension header, members seen)
            let mut moved = 0usize;
            for l in sdl.lines() {
                let is_enum = l.starts_with("enum ") && l.ends_with('{');
                let is_input = l.starts_with("input ") && l.ends_with('{');
                if is_enum || is_input {
                    let name = l.split_whitespace().nth(1).unwrap_or("").to_string();
                    cur = Some((format!("extend {} {} {{\n", if is_enum { "enum" } else { "input" }, name), 0));
                    out.push_str(l);
                    out.push('\n');
                } else if l.starts_with('}') && cur.is_some() {
                    let (hdr, k) = cur.take().unwrap();
                    if k >= 2 {
                        // the members after the first were collected behind the header
                        tail.push_str(&hdr);
                        tail.push_str("}\n\n");
                    }
                    out.push_str(l);
                    out.push('\n');
                } else if let Some((hdr, k)) = cur.as_mut() {
                    if l.trim().is_empty() {
                        continue;
                    }
                    *k += 1;
                    if *k == 1 {
                        out.push_str(l);
                        out.push('\n');
                    } else {
                        hdr.push_str(l);
                        hdr.push('\n');
                        moved += 1;
                    }
                } else {
                    out.push_str(l);
                    out.push('\n');
                }
            }
            if moved > 0 {
                out.push_str(&tail);
                let o = gencase::observe_text(p, &out, "graphql");
                if o.coq != base.coq {
                    differing.push("sdl with enum and input extensions".to_string());
                }
                others.push(format!("({}, {})", coq::s("sdl with enum and input extensions"), o.coq));
                *dist.entry("schemas rendered with extend enum / extend input".to_string()).or_default() += 1;
            }
        }
        for f in ["extend", "one_of", "deprecated", "explicit roots", "union", "interface"] {
            let has = match f {
                "extend" => p.schema.defs.iter().any(|d| matches!(d, TypeDef::Extend { .. })),
                "one_of" => p.schema.defs.iter().any(|d| matches!(d, TypeDef::Input { one_of: true, .. })),
                "deprecated" => p.schema.defs.iter().any(|d| match d { TypeDef::Object { fields, .. } | TypeDef::Interface { fields, .. } => fields.iter().any(|f| f.deprecated.is_some()), _ => false }),
                "explicit roots" => p.schema.schema_block.is_some(),
                "union" => p.schema.defs.iter().any(|d| matches!(d, TypeDef::Union { .. })),
                _ => p.schema.defs.iter().any(|d| matches!(d, TypeDef::Interface { .. })),
            };
            if has {
                *dist.entry(format!("schemas with {}", f)).or_default() += 1;
            }
        }
        *dist.entry(format!("outcome/{}", base.class)).or_default() += 1;
        cases.push(Case {
            coq: format!("(mkCase {}\n  [{}]\n  [{}])", gencase::gcase(p, &base), others.join(";\n   "), asts.join(";\n   ")),
            desc: json!({"program": p, "schema": p.schema.render_sdl(), "query": p.doc.render(), "observed": base.class, "renderings_that_differ": differing}),
            key: format!("{}|{}", p.schema.render_sdl(), p.doc.render()),
            nontrivial: base.class == "ok",
        });
    }
    let samples: Vec<_> = cases.iter().take(2).map(|c| json!({"schema": c.desc["schema"], "query": c.desc["query"], "renderings_that_differ": c.desc["renderings_that_differ"]})).collect();
    let cs = CaseSet {
        run_module: "RunC07".into(),
        cases,
        checkers: vec!["corr".into(), "corr_json_builder".into(), "corr_render".into(), "prop_same".into(), "known_sdl_nonobject_extension_ignored".into()],
        extra_imports: vec!["TypeExpr".into(), "Schema".into(), "SchemaJson".into(), "Query".into(), "Attrs".into(), "Codegen".into(), "RunGen".into()],
        preludes: vec![],
    };
    cs.write(outdir, shards, json!({
        "rule": "random schemas (scalars, enums, interfaces, objects with `extend type`, unions, inputs incl. @oneOf and recursive ones, explicit or default roots, deprecations with and without reason, shuffled definition order) x random documents with all operations generated; each schema rendered as SDL and as 5 introspection documents (bare / data-wrapped, built-in scalars absent / first / last, `__` introspection types absent / first / interleaved); the emitted modules of all six must be identical.",
        "distribution": dist, "samples": samples,
    }));
    runner::cleanup_scratch();
}
