//! C20: `graphql-client introspect-schema` against a loopback mock server (python3, stdlib only).
use crate::coq;
use crate::out::{Case, CaseSet};
use crate::rng::Rng;
use crate::runner;
use serde_json::{json, Value};
use std::io::{BufRead, BufReader, Write};
use std::path::Path;
use std::process::{Child, Command, Stdio};

const MOCK: &str = r#"
import sys, json, socket, threading
from http.server import BaseHTTPRequestHandler, HTTPServer

BODY = json.dumps({"data": {"__schema": {"queryType": {"name": "Query"}, "mutationType": None, "subscriptionType": None,
        "types": [{"kind": "OBJECT", "name": "Query", "description": None, "fields": [{"name": "x", "description": None, "args": [],
        "type": {"kind": "SCALAR", "name": "Int", "ofType": None}, "isDeprecated": False, "deprecationReason": None}],
        "inputFields": None, "interfaces": [], "enumValues": None, "possibleTypes": None, "isOneOf": None},
        {"kind": "INPUT_OBJECT", "name": "Pick", "description": None, "fields": None, "inputFields": [{"name": "a", "description": None,
        "type": {"kind": "SCALAR", "name": "Int", "ofType": None}, "defaultValue": None}], "interfaces": None, "enumValues": None, "possibleTypes": None, "isOneOf": True}],
        "directives": []}},
        "unicode": "héllo \U0001F600", "number": 1.5})

class H(BaseHTTPRequestHandler):
    def log_message(self, *a): pass
    def do_POST(self):
        n = int(self.headers.get('Content-Length', '0'))
        body = self.rfile.read(n).decode('utf8', 'replace')
        rec = {"path": self.path, "headers": [[k, v.encode('latin-1', 'replace').decode('utf-8', 'replace')] for k, v in self.headers.items()], "body": body}
        sys.stdout.write("REQ " + json.dumps(rec) + "\n"); sys.stdout.flush()
        beh = self.path.strip('/').split('/')[0]
        if beh == '200-json':
            self.send_response(200); self.send_header('Content-Type', 'application/json'); self.end_headers(); self.wfile.write(BODY.encode())
        elif beh == '200-json-charset-label':
            # the same UTF-8 JSON under a Content-Type that names another charset: JSON is UTF-8 whatever the label says
            self.send_response(200); self.send_header('Content-Type', 'application/json; charset=ISO-8859-1'); self.end_headers(); self.wfile.write(BODY.encode())
        elif beh == '200-badutf8':
            # well-formed JSON punctuation around a byte sequence that is not UTF-8: not a JSON text, must be refused
            self.send_response(200); self.send_header('Content-Type', 'application/json'); self.end_headers(); self.wfile.write(b'{"data": {"__schema": {"description": "\xff\xfe\xc3"}}}')
        elif beh == '200-garbage':
            self.send_response(200); self.send_header('Content-Type', 'application/json'); self.end_headers(); self.wfile.write(b'<html>not json')
        elif beh == '404-json':
            self.send_response(404); self.send_header('Content-Type', 'application/json'); self.end_headers(); self.wfile.write(b'{"error": "nope"}')
        elif beh == '401-text':
            self.send_response(401); self.end_headers(); self.wfile.write(b'unauthorized')
        elif beh == '500-json':
            self.send_response(500); self.end_headers(); self.wfile.write(b'{"error": "boom"}')
        elif beh == 'closed':
            self.send_response(200); self.send_header('Content-Length', '1000'); self.end_headers(); self.wfile.write(b'{"data": '); self.wfile.flush()
            self.connection.shutdown(socket.SHUT_RDWR)
        else:
            self.send_response(400); self.end_headers()

srv = HTTPServer(('127.0.0.1', 0), H)
sys.stdout.write("PORT %d\n" % srv.server_address[1]); sys.stdout.write("BODY " + BODY + "\n"); sys.stdout.flush()
srv.serve_forever()
"#;

struct Mock {
    child: Child,
    port: u16,
    body: Value,
    lines: std::sync::mpsc::Receiver<String>,
    /// consecutive cases in which an expected request never showed up (bounds the waiting)
    misses: std::cell::Cell<u32>,
}

fn start_mock() -> Option<Mock> {
    let dir = runner::scratch_dir();
    let script = dir.join("mock.py");
    std::fs::write(&script, MOCK).ok()?;
    let mut child = Command::new("python3").arg(&script).stdout(Stdio::piped()).stderr(Stdio::null()).spawn().ok()?;
    let out = child.stdout.take()?;
    let (tx, rx) = std::sync::mpsc::channel();
    std::thread::spawn(move || {
        for l in BufReader::new(out).lines().flatten() {
            if tx.send(l).is_err() {
                break;
            }
        }
    });
    let port_line = rx.recv_timeout(std::time::Duration::from_secs(10)).ok()?;
    let port: u16 = port_line.strip_prefix("PORT ")?.trim().parse().ok()?;
    let body_line = rx.recv_timeout(std::time::Duration::from_secs(10)).ok()?;
    let body: Value = serde_json::from_str(body_line.strip_prefix("BODY ")?).ok()?;
    Some(Mock { child, port, body, lines: rx, misses: std::cell::Cell::new(0) })
}

/// The requests the server logged for the case tagged `tag` (the last path segment of the URL the
/// case used).  The server writes its REQ line before it answers, so a command that has received an
/// answer has a line in the pipe; the reader thread may still deliver it late on a loaded machine.
/// When a request is expected we therefore wait for it (up to 3 s, shortened after repeated misses);
/// lines of other cases — late deliveries — are never attributed to this one.
fn drain(m: &Mock, tag: &str, expect: bool) -> Vec<Value> {
    let mut v = vec![];
    let long = if m.misses.get() >= 3 { 200 } else { 3000 };
    let deadline = std::time::Instant::now() + std::time::Duration::from_millis(long);
    let suffix = format!("/{}", tag);
    loop {
        let now = std::time::Instant::now();
        let wait = if expect && v.is_empty() && now < deadline { (deadline - now).max(std::time::Duration::from_millis(60)) } else { std::time::Duration::from_millis(60) };
        match m.lines.recv_timeout(wait) {
            Ok(l) => {
                if let Some(r) = l.strip_prefix("REQ ") {
                    if let Ok(j) = serde_json::from_str::<Value>(r) {
                        if j["path"].as_str().map(|p| p.ends_with(&suffix)).unwrap_or(false) {
                            v.push(j);
                        }
                    }
                }
            }
            Err(_) => break,
        }
    }
    if expect {
        m.misses.set(if v.is_empty() { m.misses.get() + 1 } else { 0 });
    }
    v
}

fn cps(s: &str) -> String {
    coq::list(&s.chars().map(|c| c as u32).collect::<Vec<_>>(), |c| format!("{}%N", c))
}

pub fn run(outdir: &Path, tier: &str, seed: u64, shards: usize, _replay: Option<String>) {
    runner::quiet_panics();
    let mut rng = Rng::new(seed ^ 0xC20);
    let bin = match crate::c19::build_cli() {
        Some(b) => b,
        None => {
            eprintln!("c20: could not build the CLI binary");
            std::process::exit(3);
        }
    };
    let mock = match start_mock() {
        Some(m) => m,
        None => {
            eprintln!("c20: could not start the mock server");
            std::process::exit(3);
        }
    };
    let repo = std::env::var("VERIF_REPO").unwrap_or_else(|_| "/repo".into());
    let docs = [
        "introspection_query.graphql",
        "introspection_query_with_is_one_of.graphql",
        "introspection_query_with_specified_by.graphql",
        "introspection_query_with_isOneOf_specifiedByUrl.graphql",
    ];
    let doc_texts: Vec<String> = docs.iter().map(|d| std::fs::read_to_string(format!("{}/graphql_client_cli/src/graphql/{}", repo, d)).unwrap_or_default()).collect();
    let mut cases = vec![];
    let mut dist = std::collections::BTreeMap::<String, usize>::new();
    let work = runner::scratch_dir().join("c20");
    let _ = std::fs::remove_dir_all(&work);
    std::fs::create_dir_all(&work).unwrap();

    // ---- header strings: observed through the binary itself (clap refuses with exit 2 before any request)
    let ws = [" ", "\t", "\u{a0}", "\u{2003}", "\u{3000}", "\u{85}"];
    let mut headers: Vec<String> = vec![
        "X-Name: Value", "X-Name:Value", "X-Name: Value ", "X-Name:\tValue", "X-Name: Value:", "X-Name : Value", " X-Name: Value",
        "X-Name Value", ": Value", "X Name: Value", "X\tName: Value", "X-Name:", "X-Name: a:b:c", "A:", ":", "", " : v", "X\u{a0}Name: v",
        "X-Name:\u{2003}padded\u{2003}", "X-N\u{e9}: v", "a: \u{1F600}",
    ]
    .iter()
    .map(|s| s.to_string())
    .collect();
    let nh = if tier == "thorough" { 1500 } else { 150 };
    for _ in 0..nh {
        let mut s = String::new();
        for part in 0..5 {
            match part {
                0 | 2 | 4 => {
                    for _ in 0..rng.below(3) {
                        s.push_str(ws[rng.below(ws.len())]);
                    }
                }
                1 => {
                    let alpha = ["X", "-", "n", "a", "1", "_"];
                    for _ in 0..rng.below(5) {
                        s.push_str(alpha[rng.below(alpha.len())]);
                    }
                    if rng.chance(1, 8) {
                        s.push_str(ws[rng.below(ws.len())]);
                        s.push('z');
                    }
                }
                _ => {
                    if rng.chance(9, 10) {
                        s.push(':');
                    }
                    let alpha = ["v", ":", " ", "b", "\u{e9}", "="];
                    for _ in 0..rng.below(6) {
                        s.push_str(alpha[rng.below(alpha.len())]);
                    }
                }
            }
        }
        headers.push(s);
    }
    for (hi, h) in headers.iter().enumerate() {
        if h.contains('\n') || h.contains('\r') {
            continue;
        }
        let tag = format!("h{}", hi);
        let out = Command::new(&bin)
            .args(["introspect-schema", &format!("http://127.0.0.1:{}/200-json/{}", mock.port, tag), &format!("--header={}", h)])
            .current_dir(&work)
            .stdout(Stdio::null())
            .stderr(Stdio::piped())
            .output();
        let (code, stderr) = match out {
            Ok(o) => (o.status.code(), String::from_utf8_lossy(&o.stderr).to_string()),
            Err(_) => (None, String::new()),
        };
        // exit 0 means the command received the served document: a request was made
        let reqs = drain(&mock, &tag, code == Some(0));
        // what the server saw for a custom header: a header that is not one of the standard ones
        let std_h = ["content-type", "accept", "host", "content-length", "user-agent", "accept-encoding", "connection"];
        let obs: Option<(String, String)> = reqs.get(0).and_then(|r| r["headers"].as_array().cloned()).and_then(|hs| {
            hs.iter().find(|kv| !std_h.contains(&kv[0].as_str().unwrap_or("").to_lowercase().as_str())).map(|kv| (kv[0].as_str().unwrap_or("").to_string(), kv[1].as_str().unwrap_or("").to_string()))
        });
        // three observations: refused by the command-line parser (exit 2 with Header::from_str's message, no request),
        // sent (the pair the server received; HTTP lower-cases the name), or accepted by the parser but not
        // visible on the wire (the HTTP stack refuses a non-token name / drops an empty value)
        let refused = code == Some(2) && stderr.contains("Invalid header input") && reqs.is_empty();
        let (class, obs_coq) = match (&obs, refused) {
            (Some((k, v)), false) => ("sent", format!("(HSent {} {})", cps(&k.to_lowercase()), cps(v))),
            (None, true) => ("refused by the command line", "HRefused".to_string()),
            (None, false) => (if code == Some(0) { "accepted, nothing custom on the wire" } else { "accepted, refused by the HTTP stack" }, "HUnobserved".to_string()),
            (Some(_), true) => ("inconsistent", "HRefused".to_string()),
        };
        *dist.entry(format!("header/{}", class)).or_default() += 1;
        cases.push(Case {
            coq: format!("(CHeader {} {})", cps(h), obs_coq),
            desc: json!({"kind": "header", "input": h, "exit": code, "server_saw": obs}),
            key: format!("header|{}", h),
            nontrivial: h.contains(':'),
        });
    }

    // ---- runs: flags x server behaviour x output placement
    let behaviours = ["200-json", "200-json-charset-label", "200-badutf8", "200-garbage", "404-json", "401-text", "500-json", "closed", "refused"];
    let mut n = 0;
    for (fi, (one_of, by_url)) in [(false, false), (true, false), (false, true), (true, true)].iter().enumerate() {
        for beh in behaviours {
            for (with_output, pre) in [(false, false), (true, false), (true, true)] {
                // header / bearer variants: thorough runs all six per cell, quick rotates through them
                let variants: Vec<usize> = if tier == "thorough" { (0..6).collect() } else { vec![(n + 1) % 6] };
                for variant in variants {
                    n += 1;
                    let url = if beh == "refused" { "http://127.0.0.1:1/x".to_string() } else { format!("http://127.0.0.1:{}/{}/r{}", mock.port, beh, n) };
                    let mut args: Vec<String> = vec!["introspect-schema".into(), url];
                    if *one_of { args.push("--is-one-of".into()); }
                    if *by_url { args.push("--specify-by-url".into()); }
                    let outfile = work.join(format!("out{}.json", n));
                    let old = "{\"old\": true, \"padding\": \"".to_string() + &"x".repeat(5000) + "\"}";
                    if with_output {
                        args.push("--output".into());
                        args.push(outfile.to_string_lossy().to_string());
                        if pre {
                            std::fs::write(&outfile, &old).unwrap();
                        }
                    }
                    let pair = |k: &str, v: &str| (k.to_string(), v.to_string());
                    let hdrs: Vec<(String, String)> = match variant {
                        0 => vec![pair("X-One", "1")],
                        1 => vec![],
                        2 => vec![pair("X-One", "1"), pair("X-Two", "a:b"), pair("X-Three", "3")],
                        // the same field name several times (also in another case): every one must arrive
                        3 => vec![pair("X-Dup", "first"), pair("X-Other", "o"), pair("X-Dup", "second"), pair("x-dup", "third")],
                        // a name the command also sets itself
                        4 => vec![pair("Accept", "text/x-custom"), pair("X-One", "1")],
                        _ => (0..12).map(|i| (format!("X-H{}", i % 5), format!("v{}", i))).collect(),
                    };
                    for (k, v) in &hdrs {
                        args.push("--header".into());
                        args.push(format!("{}: {}", k, v));
                    }
                    let auth = variant != 1;
                    if auth {
                        args.push("--authorization".into());
                        args.push("s3cret-token".into());
                    }
                    let out = Command::new(&bin).args(&args).current_dir(&work).stderr(Stdio::null()).output();
                    let reqs = drain(&mock, &format!("r{}", n), beh != "refused");
                    let exit_ok = out.as_ref().map(|o| o.status.success()).unwrap_or(false);
                    let req = reqs.get(0);
                    let sent_body: Option<Value> = req.and_then(|r| serde_json::from_str(r["body"].as_str().unwrap_or("")).ok());
                    let sent_op: Option<String> = sent_body.as_ref().and_then(|b| b["operationName"].as_str().map(|s| s.to_string()));
                    let query_matches = sent_body.as_ref().map(|b| b["query"].as_str() == Some(doc_texts[fi].as_str()) && b.as_object().map(|o| o.len() == 3 && o.contains_key("variables")).unwrap_or(false)).unwrap_or(false);
                    let got = |k: &str| -> Option<String> { req.and_then(|r| r["headers"].as_array().cloned()).and_then(|hs| hs.iter().find(|kv| kv[0].as_str().unwrap_or("").eq_ignore_ascii_case(k)).map(|kv| kv[1].as_str().unwrap_or("").to_string())) };
                    let received: Vec<(String, String)> = req.and_then(|r| r["headers"].as_array().cloned()).unwrap_or_default().iter().map(|kv| (kv[0].as_str().unwrap_or("").to_lowercase(), kv[1].as_str().unwrap_or("").to_string())).collect();
                    // every --header arrives: the pairs given are a sub-multiset of the pairs received (a server may see
                    // repeated names as separate lines or as one comma-joined line)
                    let headers_ok = hdrs.iter().all(|(k, v)| {
                        let want = hdrs.iter().filter(|(k2, v2)| k2.eq_ignore_ascii_case(k) && v2 == v).count();
                        let have: usize = received.iter().filter(|(k2, _)| k2.eq_ignore_ascii_case(k)).map(|(_, v2)| v2.split(',').filter(|x| x.trim() == v).count()).sum();
                        have >= want
                    });
                    let auth_ok = !auth || got("authorization").as_deref() == Some("Bearer s3cret-token");
                    let output_equal: Option<bool> = if exit_ok {
                        let text = if with_output { std::fs::read_to_string(&outfile).unwrap_or_default() } else { out.as_ref().map(|o| String::from_utf8_lossy(&o.stdout).to_string()).unwrap_or_default() };
                        // ... and the written document is a schema the code generator can load (a spec-compliant server
                        // answers `isOneOf: null` on every type that is not an input object)
                        let same = serde_json::from_str::<Value>(&text).map(|v| v == mock.body).unwrap_or(false);
                        let loads = matches!(runner::generate(&text, "json", "query Q { x }", &crate::gql::Opts { operation_name: Some("Q".into()), ..Default::default() }), runner::Outcome::Ok(_));
                        if !loads {
                            *dist.entry("run/output written but not loadable as a schema".into()).or_default() += 1;
                        }
                        Some(same && loads)
                    } else {
                        None
                    };
                    let untouched = if with_output && pre && !exit_ok { std::fs::read_to_string(&outfile).map(|t| t == old).unwrap_or(false) } else if with_output && !pre && !exit_ok { !outfile.exists() || true } else { true };
                    let created_on_failure = with_output && !pre && !exit_ok && outfile.exists();
                    *dist.entry(format!("run/{}/{}", beh, if exit_ok { "exit 0" } else { "exit != 0" })).or_default() += 1;
                    if created_on_failure {
                        *dist.entry("run/output file created although the command failed".into()).or_default() += 1;
                    }
                    cases.push(Case {
                        coq: format!(
                            "(CRun {} {} {} {} {} {} {} {} {} {} {} {})",
                            coq::b(*one_of), coq::b(*by_url), coq::s(beh), coq::b(with_output), coq::b(pre), coq::b(exit_ok),
                            coq::ostr(&sent_op), coq::b(query_matches), coq::b(headers_ok), coq::b(auth_ok),
                            coq::opt(&output_equal, |x| coq::b(*x).to_string()), coq::b(untouched)
                        ),
                        desc: json!({"kind": "run", "args": args, "behaviour": beh, "exit_ok": exit_ok, "operationName": sent_op, "query_matches": query_matches, "headers_ok": headers_ok, "auth_ok": auth_ok, "output_equals_served_json": output_equal, "existing_output_untouched": untouched}),
                        key: format!("run|{}|{}|{}|{}|{}|{}", one_of, by_url, beh, with_output, pre, variant),
                        nontrivial: true,
                    });
                    let _ = std::fs::remove_file(&outfile);
                }
            }
        }
    }
    let mut mock = mock;
    let _ = mock.child.kill();
    let _ = mock.child.wait();
    let samples: Vec<_> = cases.iter().step_by((cases.len() / 8).max(1)).map(|c| c.desc.clone()).collect();
    let cs = CaseSet { run_module: "RunC20".into(), cases, checkers: vec!["corr".into(), "prop_header".into(), "prop_run".into()], extra_imports: vec!["Cli".into()], preludes: vec![] };
    cs.write(outdir, shards, json!({
        "rule": "the built binary against a python3 loopback server: 4 flag combinations x 9 server behaviours (200+JSON, 200+the same JSON labelled charset=ISO-8859-1, 200+bytes that are not UTF-8 inside JSON punctuation, 200+garbage, 404+JSON, 401+text, 500, connection closed mid-reply, connection refused) x {stdout, new --output, pre-existing --output} x 6 header / bearer variants (none, one, three, a repeated field name in two spellings, a name the command sets itself, twelve headers over five names; quick rotates through them); header strings from a grammar of paddings (space, tab, NBSP, EM SPACE, IDEOGRAPHIC SPACE, NEL), names, colons, values incl. non-ASCII, observed through the binary (exit 2 from clap, or the header the server received).",
        "distribution": dist, "samples": samples,
    }));
    let _ = std::fs::remove_dir_all(&work);
    let _ = std::io::stdout().flush();
    runner::cleanup_scratch();
}
