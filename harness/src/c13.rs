//! C13: exhaustive enumeration of type expressions x kinds x positions x schema formats.
use crate::gql::*;
use crate::items::{RItem, RType};
use crate::out::{Case, CaseSet};
use crate::runner;
use serde_json::json;
use std::path::Path;

/// all well-formed type expressions over `leaf` with list depth <= d
pub fn shapes(leaf: &str, d: usize) -> Vec<GType> {
    // nullable-or-not variants of: leaf, [inner]
    fn go(leaf: &str, d: usize) -> Vec<GType> {
        // returns "bare" (not NonNull at top) types of list depth exactly <= d
        let mut out = vec![GType::named(leaf)];
        if d > 0 {
            for inner in go(leaf, d - 1) {
                out.push(GType::list(inner.clone()));
                out.push(GType::list(GType::nn(inner)));
            }
        }
        out
    }
    let mut out = vec![];
    for b in go(leaf, d) {
        out.push(b.clone());
        out.push(GType::nn(b));
    }
    out
}

fn replace_leaf(t: &RType, to: &str) -> (RType, String) {
    match t {
        RType::Named(n) => (RType::Named(to.to_string()), n.clone()),
        RType::Option(x) => {
            let (a, b) = replace_leaf(x, to);
            (RType::Option(Box::new(a)), b)
        }
        RType::Vec(x) => {
            let (a, b) = replace_leaf(x, to);
            (RType::Vec(Box::new(a)), b)
        }
        RType::Box(x) => {
            let (a, b) = replace_leaf(x, to);
            (RType::Box(Box::new(a)), b)
        }
        RType::Map(x) => {
            let (a, b) = replace_leaf(x, to);
            (RType::Map(Box::new(a)), b)
        }
    }
}

pub fn run(outdir: &Path, tier: &str, _seed: u64, shards: usize) {
    runner::quiet_panics();
    let depth = if tier == "thorough" { 6 } else { 4 };
    let resp_kinds = [("Int", "scalar"), ("ID", "id"), ("Custom", "custom"), ("Color", "enum"), ("Obj", "object")];
    let in_kinds = [("Int", "scalar"), ("ID", "id"), ("Custom", "custom"), ("Color", "enum"), ("Inp", "input")];

    let mut defs = vec![
        TypeDef::Scalar { name: "Custom".into() },
        TypeDef::Enum { name: "Color".into(), values: vec!["RED".into(), "GREEN".into()] },
        TypeDef::Object { name: "Obj".into(), implements: vec![], fields: vec![FieldDef::new("x", GType::named("Int"))] },
        TypeDef::Input { name: "Inp".into(), fields: vec![("a".into(), GType::named("Int"))], one_of: false },
    ];
    // (position, kind, field/var name, gtype)
    let mut plan: Vec<(&str, &str, String, GType)> = vec![];
    let mut qfields = vec![];
    let mut sel = vec![];
    for (ki, (leaf, kind)) in resp_kinds.iter().enumerate() {
        for (i, t) in shapes(leaf, depth).into_iter().enumerate() {
            let name = format!("r{}x{}", ki, i);
            qfields.push(FieldDef::new(&name, t.clone()));
            if *kind == "object" {
                sel.push(Sel::obj(&name, vec![Sel::field("x")]));
            } else {
                sel.push(Sel::field(&name));
            }
            plan.push(("response", kind, name, t));
        }
    }
    // an object that redeclares the fields of its interface with NARROWED types (the interface declares the
    // fully nullable shape, the object the exact one — legal covariance): selected through the object, the
    // rule applies to the object's own declaration
    fn nullable(t: &GType) -> GType {
        match t {
            GType::Named(n) => GType::Named(n.clone()),
            GType::List(u) => GType::List(Box::new(nullable(u))),
            GType::NonNull(u) => nullable(u),
        }
    }
    let mut wide = vec![];
    let mut narrow = vec![];
    let mut narrow_sel = vec![];
    for (ki, (leaf, kind)) in resp_kinds.iter().enumerate() {
        if *kind == "object" {
            continue;
        }
        for (i, t) in shapes(leaf, depth.min(3)).into_iter().enumerate() {
            let name = format!("n{}x{}", ki, i);
            wide.push(FieldDef::new(&name, nullable(&t)));
            narrow.push(FieldDef::new(&name, t.clone()));
            narrow_sel.push(Sel::field(&name));
            plan.push(("narrowed_response", kind, name, t));
        }
    }
    defs.push(TypeDef::Interface { name: "Wide".into(), fields: wide });
    defs.push(TypeDef::Object { name: "Narrow".into(), implements: vec!["Wide".into()], fields: narrow });
    qfields.push(FieldDef::new("narrow", GType::named("Narrow")));
    sel.push(Sel::obj("narrow", narrow_sel));
    let mut holder = vec![];
    let mut vars = vec![];
    for (ki, (leaf, kind)) in in_kinds.iter().enumerate() {
        for (i, t) in shapes(leaf, depth).into_iter().enumerate() {
            let name = format!("h{}x{}", ki, i);
            holder.push((name.clone(), t.clone()));
            plan.push(("input_field", kind, name, t.clone()));
            let vname = format!("v{}x{}", ki, i);
            vars.push(VarDef { name: vname.clone(), ty: t.clone(), default: None });
            plan.push(("variable", kind, vname, t));
        }
    }
    // members of an @oneOf input (nullable by definition; the generated variant carries the member's type
    // with one `!` put in front) and variables that have a DEFAULT VALUE (the declared type is unchanged by it)
    fn literal(t: &GType) -> String {
        match t {
            GType::Named(_) => "1".into(),
            GType::List(_) => "[]".into(),
            GType::NonNull(u) => literal(u),
        }
    }
    let mut one_members = vec![];
    for (i, t) in shapes("Int", depth.min(3)).into_iter().enumerate() {
        if !t.is_nonnull() {
            let name = format!("o{}", i);
            one_members.push((name.clone(), t.clone()));
            plan.push(("oneof_member", "scalar", name, GType::nn(t.clone())));
        }
        let vname = format!("d{}", i);
        vars.push(VarDef { name: vname.clone(), ty: t.clone(), default: Some(literal(&t)) });
        plan.push(("variable_with_default", "scalar", vname, t));
    }
    // members of an input object that declare a DEFAULT VALUE in the schema: the member's type is what the
    // expression says, with or without it
    let mut dholder = vec![];
    let mut input_defaults = vec![];
    for (i, t) in shapes("Int", depth.min(3)).into_iter().enumerate() {
        let name = format!("e{}", i);
        dholder.push((name.clone(), t.clone()));
        input_defaults.push(("DHolder".to_string(), name.clone(), literal(&t)));
        plan.push(("input_field_with_default", "scalar", name, t));
    }
    defs.push(TypeDef::Input { name: "DHolder".into(), fields: dholder, one_of: false });
    vars.push(VarDef { name: "dholder".into(), ty: GType::named("DHolder"), default: None });
    defs.push(TypeDef::Input { name: "OneHolder".into(), fields: one_members, one_of: true });
    vars.push(VarDef { name: "one".into(), ty: GType::named("OneHolder"), default: None });
    vars.push(VarDef { name: "holder".into(), ty: GType::named("Holder"), default: None });
    defs.push(TypeDef::Input { name: "Holder".into(), fields: holder, one_of: false });
    defs.push(TypeDef::Object { name: "Query".into(), implements: vec![], fields: qfields });
    let schema = SchemaDoc { defs, schema_block: None, input_defaults };
    let doc = QueryDoc { defs: vec![QDef::Op { kind: OpKind::Query, name: Some("Q".into()), vars, sel }] };
    let qtext = doc.render();
    let opts = Opts { operation_name: Some("Q".into()), ..Opts::default() };

    let mut cases = vec![];
    let mut dist = std::collections::BTreeMap::<String, usize>::new();
    // a third rendering: SDL as tools print it, with the five built-in scalars declared explicitly
    let printed = {
        let mut q = schema.clone();
        let mut defs: Vec<TypeDef> = ["Int", "Float", "String", "Boolean", "ID"].iter().map(|n| TypeDef::Scalar { name: n.to_string() }).collect();
        defs.extend(q.defs.drain(..));
        q.defs = defs;
        q.render_sdl()
    };
    for (fmt, ext, text) in [
        ("sdl", "graphql", schema.render_sdl()),
        ("json", "json", schema.render_json(&JsonVariant::plain())),
        ("sdl-printed", "graphql", printed),
    ] {
        let oc = runner::generate(&text, ext, &qtext, &opts);
        let mods = runner::modules(&oc);
        let m = match &mods {
            Ok(ms) if ms.len() == 1 => Some(&ms[0]),
            _ => None,
        };
        let find_struct = |n: &str| -> Option<&Vec<crate::items::RField>> {
            m.and_then(|m| {
                m.items.iter().find_map(|i| match i {
                    RItem::Struct { name, fields, .. } if name == n => Some(fields),
                    _ => None,
                })
            })
        };
        // every name the module defines is defined once (a re-declared built-in scalar must not add a second alias)
        let dup: Option<String> = m.and_then(|m| {
            let mut names: Vec<&str> = m.items.iter().map(|i| i.name()).collect();
            names.sort();
            names.windows(2).find(|w| w[0] == w[1]).map(|w| w[0].to_string())
        });
        for (pos, kind, name, t) in &plan {
            let sname = match *pos {
                "response" => "ResponseData",
                "narrowed_response" => "QNarrow",
                "variable" | "variable_with_default" => "Variables",
                "input_field_with_default" => "DHolder",
                _ => "Holder",
            };
            let obs: Option<RType> = if *pos == "oneof_member" {
                m.and_then(|m| m.items.iter().find_map(|i| match i {
                    RItem::ExtEnum { name: en, variants, .. } if en == "OneHolder" => variants.iter().find(|v| v.rename.as_deref() == Some(name.as_str()) || v.ident.eq_ignore_ascii_case(name)).and_then(|v| v.payload.clone()),
                    _ => None,
                }))
            } else {
                find_struct(sname).and_then(|fs| fs.iter().find(|f| &f.ident == name).map(|f| f.ty.clone()))
            };
            let obs = if dup.is_some() { None } else { obs };
            let (obs_c, note) = match obs {
                None => ("None".to_string(), match &dup { Some(d) => format!("the module defines `{}` twice", d), None => format!("field {} missing in {} ({})", name, sname, match &mods { Err(e) => e.clone(), _ => "".into() }) }),
                Some(ty) => {
                    if *kind == "object" {
                        let (r, leaf) = replace_leaf(&ty, "Obj");
                        let exists = m.map(|m| m.items.iter().any(|i| i.name() == leaf)).unwrap_or(false);
                        if exists {
                            (format!("(Some {})", r.to_coq()), ty.show())
                        } else {
                            ("None".into(), format!("leaf type {} not defined", leaf))
                        }
                    } else {
                        (format!("(Some {})", ty.to_coq()), ty.show())
                    }
                }
            };
            *dist.entry(format!("{}/{}/{}/depth{}", fmt, pos, kind, t.depth())).or_default() += 1;
            cases.push(Case {
                coq: format!("(mkCase {} {} {})", t.to_coq(), if fmt == "json" { "true" } else { "false" }, obs_c),
                desc: json!({"format": fmt, "position": pos, "kind": kind, "type": t.sdl(), "observed": note}),
                key: format!("{}|{}|{}|{}", fmt, pos, kind, t.sdl()),
                nontrivial: t.depth() > 0 || t.is_nonnull(),
            });
        }
    }
    let samples: Vec<_> = cases.iter().step_by((cases.len() / 6).max(1)).map(|c| c.desc.clone()).collect();
    let cs = CaseSet { run_module: "RunC13".into(), cases, checkers: vec!["corr".into(), "prop".into()], extra_imports: vec!["TypeExpr".into()], preludes: vec![] };
    cs.write(
        outdir,
        shards,
        json!({
            "rule": format!("every well-formed type expression of list depth <= {} (all placements of !) x 5 kinds of named type x {{response field, variable, input field}} x {{SDL, introspection JSON, SDL with the built-in scalars declared}}, plus the fields of an object that narrows its interface's declarations, the members of an @oneOf input, variables with a default value and input-object members with a default value (depth <= 3); non-trivial = has a list or a !; distinct by (format, position, kind, type)", depth),
            "exhaustive": true,
            "distribution": dist,
            "samples": samples,
        }),
    );
    runner::cleanup_scratch();
}
