//! C17: adversarial inputs, each run in a WORKER PROCESS so that a stack overflow, an abort or a
//! hang is observed (exit status / signal / wall time) instead of taking the harness down.
use crate::coq;
use crate::gencase;
use crate::gql::*;
use crate::out::{Case, CaseSet};
use crate::progs::Program;
use crate::runner;
use serde_json::json;
use std::io::Read;
use std::path::Path;
use std::process::{Command, Stdio};
use std::time::{Duration, Instant};

/// `vh worker <file>`: file = {"schema": text, "ext": .., "query": text, "opts": Opts}
pub fn worker(path: &str) {
    // keep the default panic hook quiet but let panics be caught
    runner::quiet_panics();
    let v: serde_json::Value = serde_json::from_str(&std::fs::read_to_string(path).unwrap()).unwrap();
    let opts: Opts = serde_json::from_value(v["opts"].clone()).unwrap();
    // the same files twice in one process: a call that ended in an error or a panic must leave the library
    // able to answer the next call on the same paths (and to answer it alike)
    let first = runner::generate(v["schema"].as_str().unwrap(), v["ext"].as_str().unwrap(), v["query"].as_str().unwrap(), &opts);
    let oc = runner::generate(v["schema"].as_str().unwrap(), v["ext"].as_str().unwrap(), v["query"].as_str().unwrap(), &opts);
    if first.class() != oc.class() {
        println!("changed-on-repeat:{}->{}", first.class(), oc.class());
        runner::cleanup_scratch();
        return;
    }
    let class = match &oc {
        runner::Outcome::Ok(ts) => {
            if crate::items::parse_tokens(ts).is_ok() {
                "ok"
            } else {
                "ok" // tokens produced; parsability is C02/C11's concern
            }
        }
        runner::Outcome::Err(_) => "err",
        runner::Outcome::Panic(m) => {
            if m.is_empty() {
                "panic-without-message"
            } else {
                "panic"
            }
        }
    };
    println!("{}", class);
    runner::cleanup_scratch();
}

fn run_worker(schema: &str, ext: &str, query: &str, opts: &Opts, n: usize) -> String {
    let dir = runner::scratch_dir();
    let f = dir.join(format!("w{}.json", n));
    std::fs::write(&f, serde_json::to_string(&json!({"schema": schema, "ext": ext, "query": query, "opts": opts})).unwrap()).unwrap();
    let exe = std::env::current_exe().unwrap();
    let mut child = Command::new(exe).arg("worker").arg(&f).stdout(Stdio::piped()).stderr(Stdio::null()).spawn().expect("spawn worker");
    let start = Instant::now();
    let status = loop {
        match child.try_wait() {
            Ok(Some(st)) => break Some(st),
            Ok(None) => {
                if start.elapsed() > Duration::from_secs(10) {
                    let _ = child.kill();
                    let _ = child.wait();
                    break None;
                }
                std::thread::sleep(Duration::from_millis(2));
            }
            Err(_) => break None,
        }
    };
    let _ = std::fs::remove_file(&f);
    match status {
        None => "timeout".into(),
        Some(st) => {
            use std::os::unix::process::ExitStatusExt;
            if let Some(sig) = st.signal() {
                return format!("signal{}", sig);
            }
            let mut out = String::new();
            if let Some(mut o) = child.stdout.take() {
                let _ = o.read_to_string(&mut out);
            }
            let line = out.lines().last().unwrap_or("").trim().to_string();
            if st.success() && !line.is_empty() {
                line
            } else {
                format!("exit{}", st.code().unwrap_or(-1))
            }
        }
    }
}

fn base_schema() -> SchemaDoc {
    SchemaDoc {
        defs: vec![
            TypeDef::Interface { name: "Named".into(), fields: vec![FieldDef::new("name", GType::named("String")), FieldDef::new("self", GType::named("Named"))] },
            TypeDef::Object {
                name: "Person".into(),
                implements: vec!["Named".into()],
                fields: vec![
                    FieldDef::new("name", GType::named("String")),
                    FieldDef::new("self", GType::named("Named")),
                    FieldDef::new("friend", GType::named("Person")),
                    FieldDef::new("pet", GType::named("Pet")),
                ],
            },
            TypeDef::Object { name: "Dog".into(), implements: vec!["Named".into()], fields: vec![FieldDef::new("name", GType::named("String")), FieldDef::new("self", GType::named("Named")), FieldDef::new("owner", GType::named("Person")), FieldDef::new("pal", GType::named("Pet"))] },
            TypeDef::Object { name: "Cat".into(), implements: vec![], fields: vec![FieldDef::new("name", GType::named("String")), FieldDef::new("pal", GType::named("Pet"))] },
            TypeDef::Union { name: "Pet".into(), members: vec!["Dog".into(), "Cat".into()] },
            TypeDef::Interface { name: "Lonely".into(), fields: vec![FieldDef::new("x", GType::named("Int"))] },
            TypeDef::Object {
                name: "Query".into(),
                implements: vec![],
                fields: vec![FieldDef::new("me", GType::named("Person")), FieldDef::new("pet", GType::named("Pet")), FieldDef::new("named", GType::named("Named")), FieldDef::new("lonely", GType::named("Lonely"))],
            },
        ],
        schema_block: None,
        input_defaults: vec![],
    }
}

/// spread cycles of length k on a type of the given kind
fn cycle_program(kind: &str, k: usize, with_typename: bool, position: usize) -> Program {
    let (ty, root, hop): (&str, &str, &str) = match kind {
        "object" => ("Person", "me", "friend"),
        "interface" => ("Named", "named", "self"),
        _ => ("Pet", "pet", "pal"),
    };
    let mut defs = vec![];
    for i in 0..k {
        let next = format!("F{}", (i + 1) % k);
        let mut sel = vec![];
        if with_typename {
            sel.push(Sel::typename());
        }
        match position {
            0 => sel.push(Sel::Spread(next)), // top level of the fragment
            1 => {
                // under a field (for the union: inside an inline fragment's field)
                if kind == "union" {
                    sel.push(Sel::Inline { on: Some("Dog".into()), sub: vec![Sel::obj("pal", vec![Sel::typename(), Sel::Spread(next)])] });
                } else {
                    sel.push(Sel::obj(hop, if kind == "interface" { vec![Sel::typename(), Sel::Spread(next)] } else { vec![Sel::Spread(next)] }));
                }
            }
            3 => {
                // under an inline fragment on the SAME type (on an interface / union the fragment's own type)
                sel.push(Sel::Inline { on: Some(ty.into()), sub: vec![Sel::Spread(next)] });
            }
            _ => {
                // under an inline fragment on a possible type
                let on = if kind == "object" { "Person" } else { "Dog" };
                if kind == "object" {
                    sel.push(Sel::Inline { on: Some(on.into()), sub: vec![Sel::Spread(next)] });
                } else {
                    sel.push(Sel::Inline { on: Some(on.into()), sub: vec![Sel::obj(if kind == "union" { "pal" } else { "self" }, vec![Sel::typename(), Sel::Spread(next)])] });
                }
            }
        }
        defs.push(QDef::Frag { name: format!("F{}", i), on: ty.into(), sel });
    }
    let mut root_sel = vec![];
    if kind != "object" {
        root_sel.push(Sel::typename());
    }
    root_sel.push(Sel::Spread("F0".into()));
    defs.push(QDef::Op { kind: OpKind::Query, name: Some("Q".into()), vars: vec![], sel: vec![Sel::obj(root, root_sel)] });
    Program { schema: base_schema(), doc: QueryDoc { defs }, opts: Opts { operation_name: Some("Q".into()), ..Opts::default() }, tags: vec![] }
}

fn deep_selection(depth: usize) -> Vec<Sel> {
    let mut s = vec![Sel::field("name")];
    for _ in 0..depth {
        s = vec![Sel::obj("friend", s)];
    }
    s
}

pub fn run(outdir: &Path, tier: &str, seed: u64, shards: usize, _replay: Option<String>) {
    runner::quiet_panics();
    let _ = seed;
    let mut progs: Vec<(String, Program)> = vec![];
    // spread cycles
    for kind in ["object", "interface", "union"] {
        for k in 1..=6 {
            for with_typename in [true, false] {
                for position in 0..4 {
                    progs.push((format!("spread cycle/{}/len{}/{}/pos{}", kind, k, if with_typename { "typename" } else { "no typename" }, position), cycle_program(kind, k, with_typename, position)));
                }
            }
        }
    }
    // a fragment that reaches a cycle without being on it; cycle only reachable from a variant
    for kind in ["object", "interface", "union"] {
        let mut p = cycle_program(kind, 2, true, 1);
        let (ty, hop) = match kind { "object" => ("Person", "friend"), "interface" => ("Named", "self"), _ => ("Pet", "pal") };
        let entry = if kind == "union" {
            vec![Sel::typename(), Sel::Inline { on: Some("Dog".into()), sub: vec![Sel::obj("pal", vec![Sel::typename(), Sel::Spread("F0".into())])] }]
        } else {
            vec![Sel::typename(), Sel::obj(hop, vec![Sel::typename(), Sel::Spread("F0".into())])]
        };
        p.doc.defs.insert(0, QDef::Frag { name: "Entry".into(), on: ty.into(), sel: entry });
        if let Some(QDef::Op { sel, .. }) = p.doc.defs.last_mut() {
            if let Sel::Field { sub, .. } = &mut sel[0] {
                *sub = if kind == "object" { vec![Sel::Spread("Entry".into())] } else { vec![Sel::typename(), Sel::Spread("Entry".into())] };
            }
        }
        progs.push((format!("reaches a cycle/{}", kind), p));
    }
    // input-type cycles, non-null ones included
    for (name, fields_a, fields_b) in [
        ("self nullable", vec![("a", "T", "A")], vec![]),
        ("self non-null", vec![("a", "T!", "A")], vec![]),
        ("self list", vec![("a", "[T!]!", "A")], vec![]),
        ("mutual non-null", vec![("b", "T!", "B")], vec![("a", "T!", "A")]),
        ("mutual mixed", vec![("b", "[T]", "B"), ("b2", "T", "B")], vec![("a", "T!", "A")]),
    ] {
        let mk = |fs: &Vec<(&str, &str, &str)>| -> Vec<(String, GType)> {
            let mut v = vec![("leaf".to_string(), GType::named("Int"))];
            v.extend(fs.iter().map(|(n, w, t)| (n.to_string(), crate::progs::apply_wrap(w, t))));
            v
        };
        let schema = SchemaDoc {
            defs: vec![
                TypeDef::Input { name: "A".into(), fields: mk(&fields_a), one_of: false },
                TypeDef::Input { name: "B".into(), fields: mk(&fields_b), one_of: name.contains("mixed") },
                TypeDef::Object { name: "Query".into(), implements: vec![], fields: vec![FieldDef::new("x", GType::named("Int"))] },
            ],
            schema_block: None,
            input_defaults: vec![],
        };
        let doc = QueryDoc { defs: vec![QDef::Op { kind: OpKind::Query, name: Some("Q".into()), vars: vec![VarDef { name: "a".into(), ty: GType::named("A"), default: None }, VarDef { name: "b".into(), ty: GType::named("B"), default: None }], sel: vec![Sel::field("x")] }] };
        progs.push((format!("input cycle/{}", name), Program { schema, doc, opts: Opts { operation_name: Some("Q".into()), ..Opts::default() }, tags: vec![] }));
    }
    // deep nesting
    for depth in [8usize, 32, 64] {
        let doc = QueryDoc { defs: vec![QDef::Op { kind: OpKind::Query, name: Some("Q".into()), vars: vec![], sel: vec![Sel::obj("me", deep_selection(depth))] }] };
        progs.push((format!("nesting depth {}", depth), Program { schema: base_schema(), doc, opts: Opts { operation_name: Some("Q".into()), ..Opts::default() }, tags: vec![] }));
    }
    // empty and self-referential abstract types
    {
        let doc = QueryDoc { defs: vec![QDef::Op { kind: OpKind::Query, name: Some("Q".into()), vars: vec![], sel: vec![Sel::obj("lonely", vec![Sel::typename(), Sel::field("x")])] }] };
        progs.push(("interface without implementors".into(), Program { schema: base_schema(), doc, opts: Opts { operation_name: Some("Q".into()), fragments_other_variant: true, ..Opts::default() }, tags: vec![] }));
        let mut schema = base_schema();
        schema.defs.push(TypeDef::Union { name: "Loop".into(), members: vec!["Loop".into(), "Dog".into()] });
        schema.defs.push(TypeDef::Union { name: "Ping".into(), members: vec!["Pong".into(), "Cat".into()] });
        schema.defs.push(TypeDef::Union { name: "Pong".into(), members: vec!["Ping".into()] });
        if let Some(TypeDef::Object { fields, .. }) = schema.defs.iter_mut().find(|d| d.name() == "Query") {
            fields.push(FieldDef::new("loop", GType::named("Loop")));
            fields.push(FieldDef::new("ping", GType::named("Ping")));
        }
        for (n, sel) in [
            ("self-referential union/typename only", vec![Sel::obj("loop", vec![Sel::typename()])]),
            ("self-referential union/inline on member", vec![Sel::obj("loop", vec![Sel::typename(), Sel::Inline { on: Some("Dog".into()), sub: vec![Sel::field("name")] }])]),
            ("self-referential union/inline on itself", vec![Sel::obj("loop", vec![Sel::typename(), Sel::Inline { on: Some("Loop".into()), sub: vec![Sel::typename()] }])]),
            ("mutually referential unions", vec![Sel::obj("ping", vec![Sel::typename(), Sel::Inline { on: Some("Cat".into()), sub: vec![Sel::field("name")] }, Sel::Inline { on: Some("Pong".into()), sub: vec![Sel::typename()] }])]),
        ] {
            let doc = QueryDoc { defs: vec![QDef::Op { kind: OpKind::Query, name: Some("Q".into()), vars: vec![], sel }] };
            progs.push((n.into(), Program { schema: schema.clone(), doc, opts: Opts { operation_name: Some("Q".into()), ..Opts::default() }, tags: vec![] }));
        }
    }
    if tier != "thorough" {
        // quick tier: every second cycle program, everything else
        let mut i = 0;
        progs.retain(|(n, _)| {
            i += 1;
            !n.starts_with("spread cycle") || i % 2 == 0
        });
    }
    let mut cases = vec![];
    let mut dist = std::collections::BTreeMap::<String, usize>::new();
    let mut n = 0usize;
    for (kind, p) in &progs {
        n += 1;
        let outcome = run_worker(&p.schema.render_sdl(), "graphql", &p.doc.render(), &p.opts, n);
        let group = kind.split('/').next().unwrap().to_string();
        *dist.entry(format!("{}/{}", group, outcome)).or_default() += 1;
        cases.push(Case {
            coq: format!("(COutcome {} {})", coq::s(kind), coq::s(&outcome)),
            desc: json!({"kind": kind, "query": p.doc.render(), "outcome": outcome}),
            key: format!("outcome|{}", kind),
            nontrivial: true,
        });
        let parses = graphql_parser::parse_query::<String>(&p.doc.render()).is_ok() && graphql_parser::parse_schema::<String>(&p.schema.render_sdl()).is_ok();
        if !parses {
            *dist.entry(format!("{}/rejected by graphql_parser (not compared with the model)", group)).or_default() += 1;
        }
        if parses && (outcome == "ok" || outcome == "err" || outcome == "panic") {
            // the worker survived: compare the outcome class with the model in-process
            let obs = gencase::observe(p, None);
            cases.push(Case {
                coq: format!("(CProg {})", gencase::gcase(p, &obs)),
                desc: json!({"kind": kind, "program": p, "query": p.doc.render(), "observed": obs.class, "detail": obs.detail.chars().take(160).collect::<String>()}),
                key: format!("prog|{}", kind),
                nontrivial: true,
            });
        }
    }
    // raw texts: broken documents, very deep nesting and type expressions (no AST, no model)
    let deep_q = |d: usize| -> String { format!("query Q {{ me {} name {} }}", "{ friend ".repeat(d), "}".repeat(d)) };
    let deep_t = |d: usize| -> String { format!("type Query {{ x: {}Int{} }}", "[".repeat(d), "]".repeat(d)) };
    let base = base_schema().render_sdl();
    let raws: Vec<(String, String, String)> = vec![
        ("broken query/unbalanced".into(), base.clone(), "query Q { me { name ".into()),
        ("broken query/garbage".into(), base.clone(), "\u{0}\u{1} query {{{{".into()),
        ("broken query/empty".into(), base.clone(), "".into()),
        ("broken query/only fragment".into(), base.clone(), "fragment F on Person { name }".into()),
        ("broken schema/garbage".into(), "type {{{".into(), "query Q { x }".into()),
        ("broken schema/unknown type".into(), "type Query { x: Nope }".into(), "query Q { x }".into()),
        ("broken schema/no query type".into(), "type Dog { name: String }".into(), "query Q { name }".into()),
        ("deep selection 512".into(), base.clone(), deep_q(512)),
        ("deep selection 2000".into(), base.clone(), deep_q(2000)),
        ("deep type expression 64".into(), deep_t(64), "query Q { x }".into()),
        ("deep type expression 1000".into(), deep_t(1000), "query Q { x }".into()),
        ("directive and arguments".into(), base.clone(), "query Q($a: Int = 3) { me @include(if: true) { name } }".into()),
        // spread cycles in which every fragment is EXACTLY one spread, entered from a selection that is exactly one spread
        ("pure spread cycle 1".into(), base.clone(), "query Q { ...A }\nfragment A on Query { ...A }".into()),
        ("pure spread cycle 2".into(), base.clone(), "query Q { ...A }\nfragment A on Query { ...B }\nfragment B on Query { ...A }".into()),
        ("pure spread cycle 3".into(), base.clone(), "query Q { ...A }\nfragment A on Query { ...B }\nfragment B on Query { ...C }\nfragment C on Query { ...A }".into()),
        ("pure spread cycle under a field".into(), base.clone(), "query Q { me { ...P } }\nfragment P on Person { ...R }\nfragment R on Person { ...P }".into()),
        ("pure spread chain, no cycle".into(), base.clone(), "query Q { ...A }\nfragment A on Query { ...B }\nfragment B on Query { me { name } }".into()),
        // a variable default that leaves out a REQUIRED member lying on a cycle of required members: whatever is
        // emitted for the missing member, rendering the default must follow the literal, not the type graph
        ("partial default on a non-null input cycle".into(), "input Ping { pong: Pong! note: String }\ninput Pong { ping: Ping! }\ntype Query { x(p: Ping): Int }\n".into(), "query Q($ping: Ping = { note: \"start\" }) { x(p: $ping) }".into()),
        ("partial default on a self-referential required member".into(), "input Chain { next: Chain! tag: Int }\ntype Query { x(c: Chain): Int }\n".into(), "query Q($c: Chain = { tag: 1 }) { x(c: $c) }".into()),
        ("nested partial default".into(), "input Ping { pong: Pong! note: String }\ninput Pong { ping: Ping! }\ntype Query { x(p: Ping): Int }\n".into(), "query Q($ping: Ping = { pong: { } }) { x(p: $ping) }".into()),
        // interfaces that implement interfaces, in a cycle (self, mutual), with an object leading into the cycle
        // and a selection on ANOTHER abstract type, so that "does this object implement that interface" is asked
        ("interface implements itself".into(), "interface S implements S { id: ID }\ninterface Other { id: ID }\ntype T implements S { id: ID }\ntype U implements Other { id: ID }\ntype Query { o: Other t: T s: S }\n".into(), "query Q { o { __typename id } }".into()),
        ("interface implements cycle of two".into(), "interface A implements B { id: ID }\ninterface B implements A { id: ID }\ninterface Other { id: ID }\ntype T implements A { id: ID }\ntype U implements Other { id: ID }\ntype Query { o: Other t: T a: A }\n".into(), "query Q { o { __typename id ... on U { id } } }".into()),
        ("interface implements cycle, spread under the object".into(), "interface A implements B { id: ID }\ninterface B implements A { id: ID }\ninterface Other { id: ID }\ntype T implements A & Other { id: ID }\ntype Query { t: T a: A }\n".into(), "query Q { t { id ... on Other { id } } a { __typename id } }".into()),
        ("interface hierarchy, no cycle".into(), "interface Node { id: ID }\ninterface Named implements Node { id: ID name: String }\ntype T implements Named & Node { id: ID name: String }\ntype Query { n: Node m: Named }\n".into(), "query Q { n { __typename id } m { __typename name ... on T { id } } }".into()),
    ];
    for (kind, schema, query) in raws {
        n += 1;
        let outcome = run_worker(&schema, "graphql", &query, &Opts { operation_name: Some("Q".into()), ..Opts::default() }, n);
        *dist.entry(format!("raw/{}/{}", kind.split('/').next().unwrap(), outcome)).or_default() += 1;
        cases.push(Case {
            coq: format!("(COutcome {} {})", coq::s(&kind), coq::s(&outcome)),
            desc: json!({"kind": kind, "query": query.chars().take(120).collect::<String>(), "outcome": outcome}),
            key: format!("outcome|{}", kind),
            nontrivial: true,
        });
    }
    let samples: Vec<_> = cases.iter().step_by((cases.len() / 8).max(1)).map(|c| json!({"kind": c.desc["kind"], "query": c.desc["query"], "outcome": c.desc.get("outcome"), "observed": c.desc.get("observed")})).collect();
    let cs = CaseSet {
        run_module: "RunC17".into(),
        cases,
        checkers: vec!["corr".into(), "prop_clean".into()],
        extra_imports: vec!["TypeExpr".into(), "Schema".into(), "Query".into(), "Attrs".into(), "Codegen".into(), "RunGen".into()],
        preludes: vec![],
    };
    cs.write(outdir, shards, json!({
        "rule": "adversarial grammar, each input in its own worker process, generated twice there through the path interface (exit status, signal, 10 s wall limit, same outcome class on repeat): fragment-spread cycles of length 1-6 on an object, an interface and a union, with and without __typename, the spread at the top level of the fragment / under a field / under an inline fragment; fragments that reach a cycle without being on it; input-type cycles incl. non-null ones; selection nesting 8/32/64 and raw 512 / 2000; type expressions of depth 64 / 1000; an interface without implementors; self- and mutually referential unions; interfaces implementing interfaces in a cycle; syntactically broken documents and schemas. Survivors are also compared with the model's outcome class.",
        "distribution": dist, "samples": samples,
    }));
    runner::cleanup_scratch();
}
