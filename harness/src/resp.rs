//! Shared machinery of C01 / C03 / C09: conforming `data` payloads for an operation (a generator
//! that mirrors the GraphQL execution rules; every payload is re-checked by the Coq specification
//! Conform.v), single-point corruptions, and the consumer-crate observations.
use crate::consumer::{Consumer, Exposed, Module};
use crate::coq;
use crate::gencase;
use crate::gql::*;
use crate::progs::{self, Program};
use crate::rng::Rng;
use serde_json::Value;
use std::collections::BTreeMap;

/// JSON with insertion-ordered objects (serde_json's Value sorts keys here)
#[derive(Clone, Debug, PartialEq)]
pub enum J {
    Null,
    Bool(bool),
    Int(i128),
    Frac(String),
    Str(String),
    Arr(Vec<J>),
    Obj(Vec<(String, J)>),
}

impl J {
    pub fn text(&self) -> String {
        match self {
            J::Null => "null".into(),
            J::Bool(b) => b.to_string(),
            J::Int(i) => i.to_string(),
            J::Frac(s) => s.clone(),
            J::Str(s) => serde_json::to_string(s).unwrap(),
            J::Arr(a) => format!("[{}]", a.iter().map(|x| x.text()).collect::<Vec<_>>().join(",")),
            J::Obj(m) => format!("{{{}}}", m.iter().map(|(k, v)| format!("{}:{}", serde_json::to_string(k).unwrap(), v.text())).collect::<Vec<_>>().join(",")),
        }
    }
    pub fn coq(&self) -> String {
        match self {
            J::Null => "JNull".into(),
            J::Bool(b) => format!("(JBool {})", coq::b(*b)),
            J::Int(i) => format!("(JInt {})", coq::z(*i)),
            J::Frac(s) => format!("(JFrac {})", coq::s(s)),
            J::Str(s) => format!("(JStr {})", coq::s(s)),
            J::Arr(a) => format!("(JArr {})", coq::list(a, |x| x.coq())),
            J::Obj(m) => format!("(JObj [{}])", m.iter().map(|(k, v)| format!("({}, {})", coq::s(k), v.coq())).collect::<Vec<_>>().join("; ")),
        }
    }
    pub fn to_value(&self) -> Value {
        serde_json::from_str(&self.text()).unwrap_or(Value::Null)
    }
    pub fn from_value(v: &Value) -> J {
        match v {
            Value::Null => J::Null,
            Value::Bool(b) => J::Bool(*b),
            Value::Number(n) => {
                if let Some(i) = n.as_i64() {
                    J::Int(i as i128)
                } else if let Some(u) = n.as_u64() {
                    J::Int(u as i128)
                } else {
                    J::Frac(n.to_string())
                }
            }
            Value::String(s) => J::Str(s.clone()),
            Value::Array(a) => J::Arr(a.iter().map(J::from_value).collect()),
            Value::Object(m) => J::Obj(m.iter().map(|(k, v)| (k.clone(), J::from_value(v))).collect()),
        }
    }
}

#[derive(Clone, Debug, PartialEq)]
pub enum PE {
    Key(String),
    Idx(usize),
}

fn path_coq(p: &[PE]) -> String {
    coq::list(p, |e| match e {
        PE::Key(k) => format!("PKey {}", coq::s(k)),
        PE::Idx(i) => format!("PIdx {}%N", i),
    })
}
fn path_text(p: &[PE]) -> String {
    p.iter().map(|e| match e { PE::Key(k) => format!("/{}", k), PE::Idx(i) => format!("/{}", i) }).collect()
}

/// replace (Some) or delete (None) the value at a path
pub fn set_at(j: &mut J, path: &[PE], new: Option<J>) -> bool {
    if path.is_empty() {
        if let Some(n) = new {
            *j = n;
            return true;
        }
        return false;
    }
    match (&path[0], j) {
        (PE::Key(k), J::Obj(m)) => {
            if path.len() == 1 && new.is_none() {
                let before = m.len();
                m.retain(|(k2, _)| k2 != k);
                return m.len() != before;
            }
            for (k2, v) in m.iter_mut() {
                if k2 == k {
                    return set_at(v, &path[1..], new);
                }
            }
            false
        }
        (PE::Idx(i), J::Arr(a)) => match a.get_mut(*i) {
            Some(v) => set_at(v, &path[1..], new),
            None => false,
        },
        _ => false,
    }
}

#[derive(Clone, Debug)]
pub struct Site {
    pub label: String,
    pub path: Vec<PE>,
    pub new: Option<J>,
    pub probe: Option<String>,
}

pub struct Gen<'a> {
    pub schema: &'a SchemaDoc,
    pub frags: BTreeMap<String, (String, Vec<Sel>)>,
    pub sites: Vec<Site>,
    pub dist: BTreeMap<String, usize>,
    pub failed: bool,
}

impl<'a> Gen<'a> {
    pub fn new(schema: &'a SchemaDoc, doc: &QueryDoc) -> Self {
        let mut frags = BTreeMap::new();
        for d in &doc.defs {
            if let QDef::Frag { name, on, sel } = d {
                frags.entry(name.clone()).or_insert((on.clone(), sel.clone()));
            }
        }
        Gen { schema, frags, sites: vec![], dist: BTreeMap::new(), failed: false }
    }
    fn kind(&self, n: &str) -> &'static str {
        self.schema.kind_of(n)
    }
    pub fn possible(&self, t: &str) -> Vec<String> {
        match self.kind(t) {
            "OBJECT" => vec![t.to_string()],
            _ => progs::possible_types(self.schema, t),
        }
    }
    fn applies(&self, rt: &str, cond: &str) -> bool {
        self.possible(cond).iter().any(|x| x == rt)
    }
    fn collect(&self, rt: &str, sels: &[Sel], visited: &mut Vec<String>, out: &mut Vec<(String, String, Vec<Sel>)>) {
        for s in sels {
            match s {
                Sel::Field { alias, name, sub } => out.push((alias.clone().unwrap_or_else(|| name.clone()), name.clone(), sub.clone())),
                Sel::Inline { on, sub } => {
                    if on.as_ref().map(|c| self.applies(rt, c)).unwrap_or(true) {
                        self.collect(rt, sub, visited, out);
                    }
                }
                Sel::Spread(n) => {
                    if visited.contains(n) {
                        continue;
                    }
                    visited.push(n.clone());
                    if let Some((c, fsel)) = self.frags.get(n) {
                        if self.applies(rt, c) {
                            self.collect(rt, fsel, visited, out);
                        }
                    }
                }
            }
        }
    }
    pub fn collected(&self, rt: &str, sels: &[Sel]) -> Vec<(String, String, Vec<Sel>)> {
        let mut raw = vec![];
        self.collect(rt, sels, &mut vec![], &mut raw);
        let mut merged: Vec<(String, String, Vec<Sel>)> = vec![];
        for (k, n, sub) in raw {
            if let Some(e) = merged.iter_mut().find(|e| e.0 == k) {
                e.2.extend(sub);
            } else {
                merged.push((k, n, sub));
            }
        }
        merged
    }
    fn enum_values(&self, n: &str) -> Vec<String> {
        self.schema.defs.iter().find_map(|d| if let TypeDef::Enum { name, values } = d { if name == n { Some(values.clone()) } else { None } } else { None }).unwrap_or_default()
    }
    fn bump(&mut self, k: &str) {
        *self.dist.entry(k.to_string()).or_default() += 1;
    }

    fn scalar(&mut self, rng: &mut Rng, n: &str) -> J {
        match n {
            "Int" => {
                let c = [0i128, 1, -1, i32::MAX as i128, i32::MIN as i128, 42, -77777];
                J::Int(c[rng.below(c.len())])
            }
            "Float" => {
                let c = [0.5f64, -1.25, 3.0e10 + 0.5, 1.0e-7, 123456.789, -0.1];
                J::Frac(serde_json::to_string(&c[rng.below(c.len())]).unwrap())
            }
            "String" => {
                let c = ["", "plain", "h\u{e9}llo w\u{f6}rld", "with \"quotes\" and \\ slash", "\u{1F600}", "null", "123"];
                J::Str(c[rng.below(c.len())].to_string())
            }
            "Boolean" => J::Bool(rng.chance(1, 2)),
            "ID" => {
                if rng.chance(1, 2) {
                    self.bump("leaf/ID as string");
                    J::Str(["abc", "42", "", "a-b-c", "0007"][rng.below(5)].to_string())
                } else {
                    self.bump("leaf/ID as integer");
                    J::Int([0i128, 7, -3, i64::MAX as i128, i64::MIN as i128, 123456789012][rng.below(6)])
                }
            }
            _ => {
                // custom scalar: any non-null JSON
                self.bump("leaf/custom scalar");
                match rng.below(5) {
                    0 => J::Str("2020-01-01T00:00:00Z".into()),
                    1 => J::Int(5),
                    2 => J::Obj(vec![("a".into(), J::Int(1)), ("b".into(), J::Arr(vec![J::Null]))]),
                    3 => J::Arr(vec![J::Int(1), J::Str("x".into())]),
                    _ => J::Bool(true),
                }
            }
        }
    }

    fn wrong_kind(&self, rng: &mut Rng, tn: &str, kind: &str) -> Option<(String, J)> {
        let pick = |rng: &mut Rng, xs: Vec<J>| xs[rng.below(xs.len())].clone();
        let obj = J::Obj(vec![]);
        match (kind, tn) {
            ("SCALAR", "Int") => Some(("Int".into(), pick(rng, vec![J::Str("7".into()), J::Bool(true), J::Frac("1.5".into()), obj, J::Arr(vec![J::Int(1)])]))),
            ("SCALAR", "Float") => Some(("Float".into(), pick(rng, vec![J::Str("1.5".into()), J::Bool(false), obj]))),
            ("SCALAR", "String") => Some(("String".into(), pick(rng, vec![J::Int(5), J::Bool(true), obj, J::Arr(vec![J::Str("a".into())])]))),
            ("SCALAR", "Boolean") => Some(("Boolean".into(), pick(rng, vec![J::Int(0), J::Str("true".into()), obj]))),
            ("SCALAR", "ID") => Some(("ID".into(), pick(rng, vec![J::Bool(true), J::Frac("1.5".into()), obj]))),
            ("SCALAR", _) => None,
            ("ENUM", _) => Some(("enum".into(), pick(rng, vec![J::Int(3), J::Bool(true), obj]))),
            ("OBJECT", _) | ("INTERFACE", _) | ("UNION", _) => Some(("object".into(), pick(rng, vec![J::Str("x".into()), J::Int(5), J::Bool(true)]))),
            _ => None,
        }
    }

    /// value of type `ty` at `path`; `member` = the value is directly a member of an object (so the key can be deleted)
    fn value(&mut self, rng: &mut Rng, ty: &GType, nullable: bool, sub: &[Sel], depth: usize, path: &mut Vec<PE>, member: bool) -> J {
        match ty {
            GType::NonNull(u) => {
                // what a custom scalar accepts is up to the type the consumer supplies (here serde_json::Value,
                // which takes null): only the generator's own types are probed with null
                let custom = matches!(&**u, GType::Named(n) if self.kind(n) == "SCALAR" && !BUILTIN.contains(&n.as_str()));
                if !custom {
                    self.sites.push(Site { label: "corrupt:null at non-null position".into(), path: path.clone(), new: Some(J::Null), probe: None });
                }
                if member {
                    self.sites.push(Site { label: "corrupt:key deleted at non-null position".into(), path: path.clone(), new: None, probe: None });
                }
                self.value(rng, u, false, sub, depth, path, member)
            }
            GType::List(u) => {
                if nullable && rng.chance(1, 4) {
                    self.bump("position/nullable list = null");
                    return J::Null;
                }
                let n = match rng.below(4) { 0 => 0, 1 => 1, 2 => 2, _ => 3 };
                self.bump(&format!("list length/{}", if n >= 2 { "n".to_string() } else { n.to_string() }));
                let mut items = vec![];
                for i in 0..n {
                    path.push(PE::Idx(i));
                    items.push(self.value(rng, u, true, sub, depth, path, false));
                    path.pop();
                }
                // a non-list where a list is required: the first element, or a scalar
                let repl = items.iter().find(|x| !matches!(x, J::Null | J::Arr(_))).cloned().unwrap_or(J::Str("not a list".into()));
                self.sites.push(Site { label: "corrupt:non-list at list position".into(), path: path.clone(), new: Some(repl), probe: None });
                J::Arr(items)
            }
            GType::Named(tn) => {
                if nullable && rng.chance(1, 4) {
                    self.bump("position/nullable named = null");
                    return J::Null;
                }
                let kind = self.kind(tn);
                if let Some((what, bad)) = self.wrong_kind(rng, tn, kind) {
                    self.sites.push(Site { label: format!("corrupt:wrong kind for {}", what), path: path.clone(), new: Some(bad), probe: None });
                }
                match kind {
                    "SCALAR" => self.scalar(rng, tn),
                    "ENUM" => {
                        let vs = self.enum_values(tn);
                        if vs.is_empty() {
                            self.failed = true;
                            return J::Null;
                        }
                        J::Str(vs[rng.below(vs.len())].clone())
                    }
                    "OBJECT" | "INTERFACE" | "UNION" => {
                        let poss = self.possible(tn);
                        if sub.is_empty() {
                            // a composite field without sub-selection: not a valid document, nothing conforms
                            self.failed = true;
                            return J::Null;
                        }
                        if poss.is_empty() {
                            if nullable {
                                return J::Null;
                            }
                            self.failed = true;
                            return J::Null;
                        }
                        let rt = poss[rng.below(poss.len())].clone();
                        if kind != "OBJECT" {
                            self.bump("position/abstract");
                        }
                        self.object(rng, tn, &rt, sub, depth + 1, path)
                    }
                    _ => {
                        self.failed = true;
                        J::Null
                    }
                }
            }
        }
    }

    pub fn object(&mut self, rng: &mut Rng, static_ty: &str, rt: &str, sels: &[Sel], depth: usize, path: &mut Vec<PE>) -> J {
        if depth > 12 {
            self.failed = true;
            return J::Null;
        }
        let fields = self.collected(rt, sels);
        let abstract_pos = matches!(self.kind(static_ty), "INTERFACE" | "UNION");
        let mut out = vec![];
        for (key, name, sub) in fields {
            path.push(PE::Key(key.clone()));
            if name == "__typename" {
                if abstract_pos && key == "__typename" {
                    self.sites.push(Site { label: "typename:unknown".into(), path: path.clone(), new: Some(J::Str("NoSuchType_zz".into())), probe: None });
                    let others: Vec<String> = self.possible(static_ty).into_iter().filter(|x| x != rt).collect();
                    if !others.is_empty() {
                        let to = others[rng.below(others.len())].clone();
                        self.sites.push(Site { label: "typename:swapped".into(), path: path.clone(), new: Some(J::Str(to.clone())), probe: Some(to) });
                    }
                }
                out.push((key, J::Str(rt.to_string())));
            } else {
                let fd = progs::fields_of(self.schema, rt).into_iter().find(|f| f.name == name);
                // random schemas may let an object re-declare an interface's field with another type (not a
                // valid schema): nothing conforms there
                if let Some(ifd) = progs::fields_of(self.schema, static_ty).into_iter().find(|f| f.name == name) {
                    if let Some(fd) = &fd {
                        if fd.ty != ifd.ty {
                            self.failed = true;
                        }
                    }
                }
                match fd {
                    Some(fd) => {
                        let v = self.value(rng, &fd.ty, true, &sub, depth, path, true);
                        out.push((key, v));
                    }
                    None => {
                        self.failed = true;
                    }
                }
            }
            path.pop();
        }
        if rng.chance(1, 2) {
            rng.shuffle(&mut out);
        }
        J::Obj(out)
    }
}

pub fn root_of(schema: &SchemaDoc, kind: OpKind) -> Option<String> {
    let (q, m, s) = schema.root_names();
    match kind {
        OpKind::Query => q,
        OpKind::Mutation => m,
        OpKind::Subscription => s,
    }
}

pub struct Vector {
    pub label: String,
    pub payload: J,
    pub probe: Option<(Vec<PE>, String)>,
    pub site: Option<String>,
}

/// conforming payloads and their single-point corruptions for one operation
pub fn vectors_for(rng: &mut Rng, p: &Program, op: &str, n_conforming: usize, n_corrupt: usize, dist: &mut BTreeMap<String, usize>) -> Vec<Vector> {
    let mut out = vec![];
    let (kind, sel) = match p.doc.defs.iter().find_map(|d| if let QDef::Op { kind, name: Some(n), sel, .. } = d { if n == op { Some((*kind, sel.clone())) } else { None } } else { None }) {
        Some(x) => x,
        None => return out,
    };
    let root = match root_of(&p.schema, kind) {
        Some(r) => r,
        None => return out,
    };
    for _ in 0..n_conforming {
        let mut g = Gen::new(&p.schema, &p.doc);
        let payload = g.object(rng, &root, &root, &sel, 0, &mut vec![]);
        if g.failed {
            *dist.entry("payload generation gave up (no possible type / depth)".into()).or_default() += 1;
            continue;
        }
        for (k, v) in &g.dist {
            *dist.entry(k.clone()).or_default() += v;
        }
        out.push(Vector { label: "conforming".into(), payload: payload.clone(), probe: None, site: None });
        let mut sites = g.sites.clone();
        rng.shuffle(&mut sites);
        // keep the kinds balanced: at most n_corrupt, but at least one of each label present
        let mut seen: Vec<String> = vec![];
        let mut chosen = vec![];
        for s in &sites {
            if n_corrupt > 0 && !seen.contains(&s.label) {
                seen.push(s.label.clone());
                chosen.push(s.clone());
            }
        }
        for s in &sites {
            if chosen.len() >= n_corrupt {
                break;
            }
            if !chosen.iter().any(|c| c.path == s.path && c.label == s.label) {
                chosen.push(s.clone());
            }
        }
        for s in chosen {
            let mut q = payload.clone();
            if !set_at(&mut q, &s.path, s.new.clone()) {
                continue;
            }
            *dist.entry(format!("vector/{}", s.label)).or_default() += 1;
            out.push(Vector { label: s.label.clone(), payload: q, probe: s.probe.clone().map(|x| (s.path.clone(), x)), site: Some(path_text(&s.path)) });
        }
    }
    *dist.entry("vector/conforming".into()).or_default() += out.iter().filter(|v| v.label == "conforming").count();
    out
}

/// types the consumer crate supplies beside the generated module: the schema's custom scalars
/// (under both spellings the normalisation can ask for) as opaque JSON values
pub fn scalar_prelude(schema: &SchemaDoc) -> String {
    use heck::ToUpperCamelCase;
    let mut s = String::new();
    let mut done: Vec<String> = vec![];
    for d in &schema.defs {
        if let TypeDef::Scalar { name } = d {
            for n in [name.clone(), name.to_upper_camel_case()] {
                if !done.contains(&n) && !BUILTIN.contains(&n.as_str()) {
                    s.push_str(&format!("pub type {} = serde_json::Value;\n", n));
                    done.push(n);
                }
            }
        }
    }
    s
}

pub fn sobs_coq(compiled: bool, line: &str) -> String {
    if !compiled || line == "COMPILE-ERROR" {
        "SNoCompile".into()
    } else if let Some(js) = line.strip_prefix("OK ") {
        match serde_json::from_str::<Value>(js) {
            Ok(v) => format!("(SOk {})", coq::json(&v)),
            Err(_) => "SSplit".into(),
        }
    } else if line == "OK" {
        "SOkNoSer".into()
    } else if line.starts_with("ERR") {
        "SErr".into()
    } else {
        "SSplit".into()
    }
}

pub fn vector_coq(v: &Vector, obs: &str) -> String {
    format!(
        "(mkV {} {} {} {})",
        coq::s(&v.label),
        v.payload.coq(),
        obs,
        coq::opt(&v.probe, |(p, e)| format!("({}, {})", path_coq(p), coq::s(e)))
    )
}

/// One prepared program: generated through the real library, its chosen operation, consumer module index.
pub struct Prepared {
    pub p: Program,
    pub obs: gencase::Observed,
    pub op: String,
    pub module: String,
    pub with_ser: bool,
    pub idx: usize,
}

/// options for response-side runs: everything random except what the consumer crate must supply
pub fn response_opts(rng: &mut Rng, p: &mut Program) {
    p.opts.extern_enums = vec![];
    p.opts.custom_scalars_module = None;
    p.opts.visibility = Some("pub".into());
    // the consumer crate holds many modules side by side: CLI form (no include_str! of a query file);
    // what Variables derive is C02 / C04's business
    p.opts.cli_mode = true;
    p.opts.struct_name = None;
    p.opts.query_file = None;
    p.opts.variables_derives = None;
    // one operation per module; an operation whose name is already snake_case collides with its own
    // module (`struct my_query` / `mod my_query`): C02's known class, useless here
    {
        use heck::ToSnakeCase;
        let names: Vec<String> = p.doc.defs.iter().filter_map(|d| if let QDef::Op { name: Some(n), .. } = d { Some(n.clone()) } else { None }).collect();
        let usable: Vec<String> = names.iter().filter(|n| n.to_snake_case() != **n).cloned().collect();
        if !usable.is_empty() {
            p.opts.operation_name = Some(usable[rng.below(usable.len())].clone());
        }
    }
    // deprecated fields removed by `deny` are C14's business: the payload would carry them
    if p.opts.deprecation == Some(2) {
        p.opts.deprecation = Some(rng.below(2) as u8);
    }
    p.opts.response_derives = Some(if rng.chance(5, 6) { ["Serialize", "Serialize, Debug", "Debug,Serialize,PartialEq"][rng.below(3)].to_string() } else { "Debug".to_string() });
}

pub fn prepare(cons: &mut Consumer, p: Program) -> Option<Prepared> {
    let obs = gencase::observe(&p, None);
    let ms = obs.modules.clone()?;
    let tokens = obs.tokens.clone()?;
    let m = ms.first()?;
    let with_ser = p.opts.response_derives.as_deref().unwrap_or("").split(',').any(|d| d.trim() == "Serialize");
    let idx = cons.add(Module {
        code: tokens,
        prelude: scalar_prelude(&p.schema),
        exposed: vec![Exposed { key: "resp".into(), path: format!("{}::ResponseData", m.name), de: true, ser: with_ser }],
        custom: vec![],
        outer: String::new(),
    });
    Some(Prepared { op: m.operation_name.clone(), module: m.name.clone(), p, obs, with_ser, idx })
}
