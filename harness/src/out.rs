//! Writing case files for Coq (`cases_<k>.v`) plus the JSON descriptors the driver uses for
//! evidence and replays.
use serde_json::{json, Value};
use std::path::Path;

pub struct Case {
    /// Gallina term of the case (input together with the implementation's observation)
    pub coq: String,
    /// JSON descriptor: enough to re-run the case on the implementation (`--replay`)
    pub desc: Value,
    /// key used to count distinct non-trivial cases
    pub key: String,
    pub nontrivial: bool,
}

pub struct CaseSet {
    /// name of the Run module, e.g. "RunC13"
    pub run_module: String,
    /// Coq type of a case, e.g. "RunC13.case"
    pub cases: Vec<Case>,
    /// the boolean checkers of the Run module evaluated on each case
    pub checkers: Vec<String>,
    pub extra_imports: Vec<String>,
    /// definitions emitted before `cases` in every shard (e.g. the items of a module)
    pub preludes: Vec<String>,
}

impl CaseSet {
    pub fn write(&self, outdir: &Path, shards: usize, stats: Value) {
        std::fs::create_dir_all(outdir).unwrap();
        let n = self.cases.len();
        let shards = shards.max(1).min(n.max(1));
        let per = (n + shards - 1) / shards.max(1);
        let mut manifest = vec![];
        let mut k = 0;
        let mut off = 0;
        while off < n || (n == 0 && k == 0) {
            let end = (off + per).min(n);
            let mut s = String::new();
            s.push_str("From GC Require Import Base Rust");
            for i in &self.extra_imports {
                s.push(' ');
                s.push_str(i);
            }
            s.push_str(&format!(" {}.\n", self.run_module));
            for p in &self.preludes {
                s.push_str(p);
                s.push('\n');
            }
            s.push_str(&format!("Definition cases : list {}.case := [\n", self.run_module));
            for (i, c) in self.cases[off..end].iter().enumerate() {
                if i > 0 {
                    s.push_str(";\n");
                }
                s.push_str("  ");
                s.push_str(&c.coq);
            }
            s.push_str("\n].\n");
            for ch in &self.checkers {
                s.push_str(&format!("Eval vm_compute in (\"{}\", fails {}.{} cases).\n", ch, self.run_module, ch));
            }
            let file = format!("cases_{}.v", k);
            std::fs::write(outdir.join(&file), s).unwrap();
            manifest.push(json!({"file": file, "offset": off, "count": end - off}));
            k += 1;
            off = end;
            if n == 0 {
                break;
            }
        }
        let descs: Vec<&Value> = self.cases.iter().map(|c| &c.desc).collect();
        std::fs::write(outdir.join("cases.json"), serde_json::to_string(&descs).unwrap()).unwrap();
        let mut keys = std::collections::BTreeSet::new();
        for c in &self.cases {
            if c.nontrivial {
                keys.insert(c.key.clone());
            }
        }
        let mut st = stats;
        let o = st.as_object_mut().unwrap();
        o.insert("evaluations".into(), json!(n));
        o.insert("distinct_nontrivial".into(), json!(keys.len()));
        o.insert("shards".into(), json!(manifest));
        o.insert("checkers".into(), json!(self.checkers));
        std::fs::write(outdir.join("stats.json"), serde_json::to_string_pretty(&st).unwrap()).unwrap();
    }
}
