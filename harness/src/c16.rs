//! C16: ID coercion helpers — direct calls, attachment (token level), compiled positions.
use crate::consumer::{Consumer, Exposed, Module};
use crate::coq;
use crate::gql::*;
use crate::items::RItem;
use crate::out::{Case, CaseSet};
use crate::rng::Rng;
use crate::runner;
use serde_json::{json, Value};
use std::path::Path;

fn helper_obs(optional: bool, text: &str) -> String {
    // through a streaming deserializer and through a buffered Value
    let a: Result<Option<String>, String> = {
        let mut d = serde_json::Deserializer::from_str(text);
        if optional {
            graphql_client::serde_with::deserialize_option_id(&mut d).map_err(|e| e.to_string())
        } else {
            graphql_client::serde_with::deserialize_id(&mut d).map(Some).map_err(|e| e.to_string())
        }
    };
    let v: Value = serde_json::from_str(text).unwrap();
    let b: Result<Option<String>, String> = if optional {
        graphql_client::serde_with::deserialize_option_id(v).map_err(|e| e.to_string())
    } else {
        graphql_client::serde_with::deserialize_id(v).map(Some).map_err(|e| e.to_string())
    };
    match (a, b) {
        (Ok(x), Ok(y)) if x == y => format!("(HOk {})", coq::ostr(&x)),
        (Err(_), Err(_)) => "HErr".into(),
        _ => "HSplit".into(),
    }
}

pub fn id_shapes(depth: usize) -> Vec<GType> {
    crate::c13::shapes("ID", depth)
}

pub fn run(outdir: &Path, tier: &str, seed: u64, shards: usize, _replay: Option<String>) {
    runner::quiet_panics();
    let mut rng = Rng::new(seed ^ 0xC16);
    let mut cases = vec![];
    let mut dist = std::collections::BTreeMap::<String, usize>::new();

    // ---- (a) direct helper calls
    let mut inputs: Vec<String> = vec![
        "null", "true", "false", "[]", "{}", "[1]", "{\"a\":1}", "1.0", "1e3", "-0.5", "1.5", "0", "-0", "1", "-1", "42",
        "9223372036854775807", "-9223372036854775808", "9223372036854775808", "18446744073709551615", "-9223372036854775809",
        "\"\"", "\"abc\"", "\"123\"", "\"-7\"", "\"01\"", "\"1.0\"", "\"null\"", "\"h\\u00e9llo\"", "\"\\ud83d\\ude00\"", "\" 5 \"",
        "\"a\\\"b\"", "\"tab\\there\"",
    ]
    .iter()
    .map(|s| s.to_string())
    .collect();
    let n = if tier == "thorough" { 2000 } else { 120 };
    for _ in 0..n {
        match rng.below(3) {
            0 => {
                let z = (rng.next() as i64) >> rng.below(64);
                inputs.push(z.to_string());
            }
            1 => inputs.push(format!("{}", rng.next())),
            _ => {
                let len = rng.below(6);
                let pool: Vec<char> = "019-a.eE \u{e9}".chars().collect();
                let s: String = (0..len).map(|_| *rng.pick(&pool)).collect();
                inputs.push(serde_json::to_string(&Value::String(s)).unwrap());
            }
        }
    }
    for text in &inputs {
        let v: Value = serde_json::from_str(text).unwrap();
        for optional in [false, true] {
            let obs = helper_obs(optional, text);
            *dist.entry(format!("helper/{}", obs.split(' ').next().unwrap().trim_start_matches('('))).or_default() += 1;
            cases.push(Case {
                coq: format!("(CHelper {} {} {})", coq::b(optional), coq::json(&v), obs),
                desc: json!({"kind": "helper", "optional": optional, "input": text, "observed": obs}),
                key: format!("helper|{}|{}", optional, text),
                nontrivial: true,
            });
        }
    }

    // ---- (b) attachment, token level: every ID type expression next to non-ID fields
    let depth = if tier == "thorough" { 3 } else { 2 };
    let mut qfields = vec![];
    let mut sel = vec![];
    let mut plan = vec![];
    for (leaf, tag) in [("ID", "i"), ("String", "s"), ("Int", "n"), ("IDX", "c")] {
        for (k, t) in crate::c13::shapes(leaf, if leaf == "ID" { depth } else { 1 }).into_iter().enumerate() {
            let name = format!("f{}x{}", tag, k);
            qfields.push(FieldDef::new(&name, t.clone()));
            sel.push(Sel::field(&name));
            plan.push((name, t));
        }
    }
    // a field literally named `id` of a non-ID type, and an ID field not named id
    qfields.push(FieldDef::new("id", GType::named("String")));
    sel.push(Sel::field("id"));
    plan.push(("id".into(), GType::named("String")));
    let base_defs = vec![TypeDef::Scalar { name: "IDX".into() }, TypeDef::Object { name: "Query".into(), implements: vec![], fields: qfields }];
    let mut explicit_defs = vec![TypeDef::Scalar { name: "ID".into() }, TypeDef::Scalar { name: "String".into() }, TypeDef::Scalar { name: "Int".into() }];
    explicit_defs.extend(base_defs.iter().cloned());
    let schema = SchemaDoc { defs: base_defs, schema_block: None , input_defaults: vec![] };
    let schema_explicit = SchemaDoc { defs: explicit_defs, schema_block: None , input_defaults: vec![] };
    let doc = QueryDoc { defs: vec![QDef::Op { kind: OpKind::Query, name: Some("Q".into()), vars: vec![], sel }] };
    let opts = Opts { operation_name: Some("Q".into()), ..Opts::default() };
    let json_builtin = JsonVariant { data_wrapped: true, builtin_scalars: 1, meta_types: 2, is_one_of: false, leftover_reason: false };
    for (fmt, ext, text) in [
        ("sdl", "graphql", schema.render_sdl()),
        ("sdl with explicit `scalar ID`", "graphql", schema_explicit.render_sdl()),
        ("json", "json", schema.render_json(&JsonVariant::plain())),
        ("json listing built-in scalars", "json", schema.render_json(&json_builtin)),
    ] {
        let oc = runner::generate(&text, ext, &doc.render(), &opts);
        let mods = runner::modules(&oc);
        for (name, t) in &plan {
            let fld = mods.as_ref().ok().and_then(|m| m.get(0)).and_then(|m| {
                m.items.iter().find_map(|i| match i {
                    RItem::Struct { name: n, fields, .. } if n == "ResponseData" => fields.iter().find(|f| &f.ident == name).cloned(),
                    _ => None,
                })
            });
            let (h, ty, dflt) = match &fld {
                Some(f) => (coq::ostr(&f.deser_with), format!("(Some {})", f.ty.to_coq()), f.default),
                None => ("None".into(), "None".into(), false),
            };
            *dist.entry(format!("attach/{}/{}", fmt, t.name())).or_default() += 1;
            cases.push(Case {
                coq: format!("(CAttach {} {} {} {})", t.to_coq(), h, coq::b(dflt), ty),
                desc: json!({"kind": "attach", "schema_format": fmt, "type": t.sdl(), "field": name, "helper": h, "rust_type": fld.as_ref().map(|f| f.ty.show())}),
                key: format!("attach|{}|{}|{}", fmt, name, t.sdl()),
                nontrivial: t.name() == "ID",
            });
        }
    }

    // ---- (c) compiled: ID at plain / flattened-fragment / variant positions
    let schema2 = SchemaDoc {
        defs: vec![
            TypeDef::Interface { name: "Node".into(), fields: vec![FieldDef::new("id", GType::named("ID")), FieldDef::new("idr", GType::nn(GType::named("ID"))), FieldDef::new("tags", GType::list(GType::named("ID")))] },
            TypeDef::Object {
                name: "Thing".into(),
                implements: vec!["Node".into()],
                fields: vec![FieldDef::new("id", GType::named("ID")), FieldDef::new("idr", GType::nn(GType::named("ID"))), FieldDef::new("tags", GType::list(GType::named("ID"))), FieldDef::new("name", GType::named("String"))],
            },
            TypeDef::Object {
                name: "Query".into(),
                implements: vec![],
                fields: vec![
                    FieldDef::new("a", GType::named("ID")),
                    FieldDef::new("b", GType::nn(GType::named("ID"))),
                    FieldDef::new("ids", GType::nn(GType::list(GType::nn(GType::named("ID"))))),
                    FieldDef::new("mids", GType::list(GType::named("ID"))),
                    FieldDef::new("thing", GType::named("Thing")),
                    FieldDef::new("node", GType::named("Node")),
                ],
            },
        ],
        schema_block: None,
        input_defaults: vec![],
    };
    let doc2 = QueryDoc {
        defs: vec![
            QDef::Frag { name: "F".into(), on: "Thing".into(), sel: vec![Sel::field("id"), Sel::field("idr"), Sel::field("tags")] },
            QDef::Op {
                kind: OpKind::Query,
                name: Some("Q".into()),
                vars: vec![],
                sel: vec![
                    Sel::field("a"),
                    Sel::field("b"),
                    Sel::field("ids"),
                    Sel::field("mids"),
                    Sel::obj("thing", vec![Sel::Spread("F".into()), Sel::field("name")]),
                    Sel::obj("node", vec![Sel::typename(), Sel::Inline { on: Some("Thing".into()), sub: vec![Sel::field("id"), Sel::field("idr"), Sel::field("tags")] }]),
                ],
            },
        ],
    };
    let opts2 = Opts { operation_name: Some("Q".into()), response_derives: Some("Serialize,Debug".into()), visibility: Some("pub".into()), ..Opts::default() };
    let oc2 = runner::generate(&schema2.render_sdl(), "graphql", &doc2.render(), &opts2);
    let mut preludes = vec![];
    let mut cons = Consumer::new("c16", true);
    if let (runner::Outcome::Ok(ts), Ok(ms)) = (&oc2, runner::modules(&oc2)) {
        preludes.push(format!("Definition mod0 : list ritem := {}.", coq::list(&ms[0].items, |i| format!("\n  {}", i.to_coq()))));
        cons.add(Module {
            code: ts.to_string(),
            prelude: String::new(),
            exposed: vec![Exposed { key: "resp".into(), path: "q::ResponseData".into(), de: true, ser: true }],
            custom: vec![],
            outer: String::new(),
        });
        let built = cons.build();
        let field_inputs: Vec<Option<Value>> = vec![
            None,
            Some(Value::Null),
            Some(json!("abc")),
            Some(json!("")),
            Some(json!("123")),
            Some(json!(0)),
            Some(json!(-1)),
            Some(json!(42)),
            Some(json!(i64::MAX)),
            Some(json!(i64::MIN)),
            Some(json!(9223372036854775808u64)),
            Some(json!(u64::MAX)),
            Some(json!(1.0)),
            Some(json!(1.5)),
            Some(json!(true)),
            Some(json!([])),
            Some(json!(["a"])),
            Some(json!({})),
        ];
        let mut vectors = vec![];
        let mut meta = vec![];
        for position in 0..3u32 {
            for nullable in [true, false] {
                for inp in &field_inputs {
                    // a fully valid payload, then the one field under test replaced / removed
                    let mut payload = json!({"a": "x", "b": "y", "ids": ["i1", 2], "mids": [null, "m"], "thing": {"id": "t", "idr": "tr", "name": "n"}, "node": {"__typename": "Thing", "id": "v", "idr": "vr"}});
                    let (obj, key): (&mut serde_json::Map<String, Value>, &str) = match position {
                        0 => (payload.as_object_mut().unwrap(), if nullable { "a" } else { "b" }),
                        1 => (payload["thing"].as_object_mut().unwrap(), if nullable { "id" } else { "idr" }),
                        _ => (payload["node"].as_object_mut().unwrap(), if nullable { "id" } else { "idr" }),
                    };
                    match inp {
                        None => {
                            obj.remove(key);
                        }
                        Some(v) => {
                            obj.insert(key.to_string(), v.clone());
                        }
                    }
                    vectors.push((0usize, "resp".to_string(), serde_json::to_string(&payload).unwrap()));
                    meta.push((position, nullable, inp.clone(), payload));
                }
            }
        }
        let list_inputs: Vec<Option<Value>> = vec![
            None,
            Some(Value::Null),
            Some(json!([])),
            Some(json!(["a"])),
            Some(json!([1])),
            Some(json!(["a", 2, "3", -4])),
            Some(json!([null])),
            Some(json!(["a", null, 7])),
            Some(json!([i64::MAX, i64::MIN])),
            Some(json!([9223372036854775808u64])),
            Some(json!([1.5])),
            Some(json!([true])),
            Some(json!([["a"]])),
            Some(json!("a")),
            Some(json!(5)),
            Some(json!({})),
        ];
        let list_start = vectors.len();
        let mut list_meta = vec![];
        // position 0: plain (`ids: [ID!]!`, `mids: [ID]`); 1: `tags: [ID]` in a flattened fragment; 2: `tags: [ID]` in a variant
        for (position, nullable) in [(0u32, false), (0, true), (1, true), (2, true)] {
            for inp in &list_inputs {
                let mut payload = json!({"a": "x", "b": "y", "ids": ["i1", 2], "mids": [null, "m"], "thing": {"id": "t", "idr": "tr", "tags": ["k"], "name": "n"}, "node": {"__typename": "Thing", "id": "v", "idr": "vr", "tags": ["k"]}});
                let (obj, key): (&mut serde_json::Map<String, Value>, &str) = match position {
                    0 => (payload.as_object_mut().unwrap(), if nullable { "mids" } else { "ids" }),
                    1 => (payload["thing"].as_object_mut().unwrap(), "tags"),
                    _ => (payload["node"].as_object_mut().unwrap(), "tags"),
                };
                match inp {
                    None => {
                        obj.remove(key);
                    }
                    Some(v) => {
                        obj.insert(key.to_string(), v.clone());
                    }
                }
                vectors.push((0usize, "resp".to_string(), serde_json::to_string(&payload).unwrap()));
                list_meta.push((position, nullable, inp.clone(), payload));
            }
        }
        let results = if built { cons.run(&vectors) } else { vectors.iter().map(|_| "NOBIN".into()).collect() };
        for ((position, nullable, inp, payload), line) in list_meta.iter().zip(results[list_start..].iter()) {
            let compiled = cons.status[0].is_ok();
            let (whole, field): (String, String) = if !compiled {
                ("SNoCompile".into(), "SNoCompile".into())
            } else if let Some(js) = line.strip_prefix("OK ") {
                let jv: Value = serde_json::from_str(js).unwrap_or(Value::Null);
                let field = match position { 0 => jv[if *nullable { "mids" } else { "ids" }].clone(), 1 => jv["thing"]["tags"].clone(), _ => jv["node"]["tags"].clone() };
                (format!("(SOk {})", coq::json(&jv)), format!("(SOk {})", coq::json(&field)))
            } else if line.starts_with("ERR") {
                ("SErr".into(), "SErr".into())
            } else {
                ("SSplit".into(), "SSplit".into())
            };
            *dist.entry(format!("list/{}", field.split(' ').next().unwrap().trim_start_matches('('))).or_default() += 1;
            cases.push(Case {
                coq: format!("(CList {} {} {} {})", coq::b(*nullable), coq::b(*nullable), coq::opt(inp, |v| coq::json(v)), field),
                desc: json!({"kind": "list", "position": (["plain", "flattened fragment", "variant"][*position as usize]), "type": if *nullable { "[ID]" } else { "[ID!]!" }, "input": inp, "payload": payload, "observed": line}),
                key: format!("list|{}|{}|{:?}", position, nullable, inp),
                nontrivial: true,
            });
            cases.push(Case {
                coq: format!("(CSerde mod0 \"ResponseData\" true {} {})", coq::json(payload), whole),
                desc: json!({"kind": "serde", "payload": payload, "observed": line}),
                key: format!("serde|{}", payload),
                nontrivial: true,
            });
        }
        for ((position, nullable, inp, payload), line) in meta.iter().zip(results.iter()) {
            let compiled = cons.status[0].is_ok();
            let (whole, field): (String, String) = if !compiled {
                ("SNoCompile".into(), "SNoCompile".into())
            } else if let Some(js) = line.strip_prefix("OK ") {
                let jv: Value = serde_json::from_str(js).unwrap_or(Value::Null);
                let key = if *nullable { if *position == 0 { "a" } else { "id" } } else if *position == 0 { "b" } else { "idr" };
                let sub = match position {
                    0 => &jv,
                    1 => &jv["thing"],
                    _ => &jv["node"],
                };
                (format!("(SOk {})", coq::json(&jv)), format!("(SOk {})", coq::json(&sub[key])))
            } else if line.starts_with("ERR") {
                ("SErr".into(), "SErr".into())
            } else {
                ("SSplit".into(), "SSplit".into())
            };
            *dist.entry(format!("field/pos{}/{}", position, field.split(' ').next().unwrap().trim_start_matches('('))).or_default() += 1;
            cases.push(Case {
                coq: format!("(CField {} {}%N {} {})", coq::b(*nullable), position, coq::opt(inp, |v| coq::json(v)), field),
                desc: json!({"kind": "field", "position": (["plain", "flattened fragment", "variant"][*position as usize]), "nullable": nullable, "input": inp, "payload": payload, "observed": line}),
                key: format!("field|{}|{}|{:?}", position, nullable, inp),
                nontrivial: true,
            });
            cases.push(Case {
                coq: format!("(CSerde mod0 \"ResponseData\" true {} {})", coq::json(payload), whole),
                desc: json!({"kind": "serde", "payload": payload, "observed": line}),
                key: format!("serde|{}", payload),
                nontrivial: true,
            });
        }
        if !compiled_ok(&cons) {
            eprintln!("c16: consumer module did not compile: {:?}", cons.status);
        }
    }
    let compile_errors: Vec<_> = cons.status.iter().enumerate().filter_map(|(k, s)| s.as_ref().err().map(|e| json!({"module": k, "errors": e}))).collect();
    let samples: Vec<_> = cases.iter().step_by((cases.len() / 8).max(1)).map(|c| c.desc.clone()).collect();
    let cs = CaseSet {
        run_module: "RunC16".into(),
        cases,
        checkers: vec!["corr".into(), "prop_helper".into(), "prop_attach".into(), "prop_field".into(), "prop_list".into()],
        extra_imports: vec!["Json".into(), "TypeExpr".into(), "RunSerde".into()],
        preludes,
    };
    cs.write(
        outdir,
        shards,
        json!({
            "rule": "(a) both helpers called directly (streaming and buffered deserializer) on JSON of every kind, i64/u64 boundaries, floats, numeric-looking / empty / non-ASCII strings and seeded random numbers and strings; (b) every ID type expression up to list depth 2 (thorough 3) next to String/Int/custom-scalar fields and a non-ID field named `id`: attached helper and emitted Rust type; (c) compiled module with nullable and non-null ID at plain, flattened-fragment and variant positions x 18 inputs incl. key absent, ID lists ([ID!]! / [ID] plain, [ID] in a flattened fragment and in a variant) x 16 inputs incl. null elements and a null list, each also compared with Serde.v as a whole-payload case.",
            "exhaustive": false,
            "distribution": dist,
            "samples": samples,
            "x_compile_errors": compile_errors,
        }),
    );
    cons.cleanup();
    runner::cleanup_scratch();
}

fn compiled_ok(c: &Consumer) -> bool {
    c.status.iter().all(|s| s.is_ok())
}
