//! syn -> abstract Rust items (`ritem` of coq/theories/Rust.v).
//! Used both by the translator (declarations of graphql_client) and on the token streams
//! the real generator returns.
use crate::coq;
use serde::Serialize;
use syn::visit::Visit;

#[derive(Clone, Debug, PartialEq, Serialize)]
pub enum RType {
    Named(String),
    Option(Box<RType>),
    Vec(Box<RType>),
    Box(Box<RType>),
    Map(Box<RType>),
}

impl RType {
    pub fn to_coq(&self) -> String {
        match self {
            RType::Named(n) => format!("(RNamed {})", coq::s(n)),
            RType::Option(t) => format!("(ROption {})", t.to_coq()),
            RType::Vec(t) => format!("(RVec {})", t.to_coq()),
            RType::Box(t) => format!("(RBox {})", t.to_coq()),
            RType::Map(t) => format!("(RMap {})", t.to_coq()),
        }
    }
    pub fn show(&self) -> String {
        match self {
            RType::Named(n) => n.clone(),
            RType::Option(t) => format!("Option<{}>", t.show()),
            RType::Vec(t) => format!("Vec<{}>", t.show()),
            RType::Box(t) => format!("Box<{}>", t.show()),
            RType::Map(t) => format!("HashMap<String,{}>", t.show()),
        }
    }
}

#[derive(Clone, Debug, PartialEq, Serialize)]
pub struct RField {
    pub ident: String,
    pub ty: RType,
    pub rename: Option<String>,
    pub flatten: bool,
    pub skip_none: bool,
    pub deprecated: Option<Option<String>>,
    pub deser_with: Option<String>,
    pub default: bool,
}

impl RField {
    pub fn to_coq(&self) -> String {
        format!(
            "(mkField {} {} {} {} {} {} {} {})",
            coq::s(&self.ident),
            self.ty.to_coq(),
            coq::ostr(&self.rename),
            coq::b(self.flatten),
            coq::b(self.skip_none),
            coq::opt(&self.deprecated, |d| coq::ostr(d)),
            coq::ostr(&self.deser_with),
            coq::b(self.default)
        )
    }
}

#[derive(Clone, Debug, PartialEq, Serialize)]
pub struct RVariant {
    pub ident: String,
    pub rename: Option<String>,
    pub payload: Option<RType>,
    pub other: bool,
}
impl RVariant {
    pub fn to_coq(&self) -> String {
        format!(
            "(mkVariant {} {} {} {})",
            coq::s(&self.ident),
            coq::ostr(&self.rename),
            coq::opt(&self.payload, |t| t.to_coq()),
            coq::b(self.other)
        )
    }
}

#[derive(Clone, Debug, PartialEq, Serialize)]
pub enum RItem {
    Struct { name: String, derives: Vec<String>, serde_crate: Option<String>, fields: Vec<RField> },
    Unit { name: String, derives: Vec<String>, serde_crate: Option<String> },
    TagEnum { name: String, derives: Vec<String>, serde_crate: Option<String>, tag: String, variants: Vec<RVariant> },
    ExtEnum { name: String, derives: Vec<String>, serde_crate: Option<String>, variants: Vec<RVariant> },
    Untagged { name: String, derives: Vec<String>, variants: Vec<RVariant> },
    StrEnum {
        name: String,
        derives: Vec<String>,
        variants: Vec<String>,
        ser_arms: Vec<(String, String)>,
        ser_other: bool,
        de_arms: Vec<(String, String)>,
        de_other: bool,
    },
    Alias { name: String, target: RType },
    AliasPath { name: String, path: Vec<String> },
    Opaque { name: String },
}

fn pairs(xs: &[(String, String)]) -> String {
    coq::list(xs, |(a, b)| format!("({}, {})", coq::s(a), coq::s(b)))
}

impl RItem {
    pub fn name(&self) -> &str {
        match self {
            RItem::Struct { name, .. }
            | RItem::Unit { name, .. }
            | RItem::TagEnum { name, .. }
            | RItem::ExtEnum { name, .. }
            | RItem::Untagged { name, .. }
            | RItem::StrEnum { name, .. }
            | RItem::Alias { name, .. }
            | RItem::AliasPath { name, .. }
            | RItem::Opaque { name } => name,
        }
    }
    pub fn to_coq(&self) -> String {
        match self {
            RItem::Struct { name, derives, serde_crate, fields } => format!(
                "(IStruct {} {} {} {})",
                coq::s(name),
                coq::strs(derives),
                coq::ostr(serde_crate),
                coq::list(fields, |f| f.to_coq())
            ),
            RItem::Unit { name, derives, serde_crate } => {
                format!("(IUnit {} {} {})", coq::s(name), coq::strs(derives), coq::ostr(serde_crate))
            }
            RItem::TagEnum { name, derives, serde_crate, tag, variants } => format!(
                "(ITagEnum {} {} {} {} {})",
                coq::s(name),
                coq::strs(derives),
                coq::ostr(serde_crate),
                coq::s(tag),
                coq::list(variants, |v| v.to_coq())
            ),
            RItem::ExtEnum { name, derives, serde_crate, variants } => format!(
                "(IExtEnum {} {} {} {})",
                coq::s(name),
                coq::strs(derives),
                coq::ostr(serde_crate),
                coq::list(variants, |v| v.to_coq())
            ),
            RItem::Untagged { name, derives, variants } => format!(
                "(IUntagged {} {} {})",
                coq::s(name),
                coq::strs(derives),
                coq::list(variants, |v| v.to_coq())
            ),
            RItem::StrEnum { name, derives, variants, ser_arms, ser_other, de_arms, de_other } => format!(
                "(IStrEnum {} {} {} {} {} {} {})",
                coq::s(name),
                coq::strs(derives),
                coq::strs(variants),
                pairs(ser_arms),
                coq::b(*ser_other),
                pairs(de_arms),
                coq::b(*de_other)
            ),
            RItem::Alias { name, target } => format!("(IAlias {} {})", coq::s(name), target.to_coq()),
            RItem::AliasPath { name, path } => format!("(IAliasPath {} {})", coq::s(name), coq::strs(path)),
            RItem::Opaque { name } => format!("(IOpaque {})", coq::s(name)),
        }
    }
}

#[derive(Clone, Debug, PartialEq, Serialize)]
pub enum Vis {
    Inherited,
    Pub,
    Restricted(String),
}
impl Vis {
    pub fn to_coq(&self) -> String {
        match self {
            Vis::Inherited => "VInherited".into(),
            Vis::Pub => "VPub".into(),
            Vis::Restricted(p) => format!("(VRestricted {})", coq::s(p)),
        }
    }
}

#[derive(Clone, Debug, PartialEq, Serialize)]
pub struct RModule {
    pub struct_decl: Option<(String, Vis)>,
    pub name: String,
    pub vis: Vis,
    pub operation_name: String,
    pub query: String,
    pub include: Option<String>,
    pub uses: Vec<Vec<String>>,
    pub items: Vec<RItem>,
    pub impl_for: String,
    pub impl_body: Vec<(String, String)>,
    /// names of `default_*` functions in `impl Variables`
    pub default_fns: Vec<String>,
}

impl RModule {
    pub fn to_coq(&self) -> String {
        format!(
            "(mkModule {} {} {} {} {} {} {} {} {} {})",
            coq::opt(&self.struct_decl, |(n, v)| format!("({}, {})", coq::s(n), v.to_coq())),
            coq::s(&self.name),
            self.vis.to_coq(),
            coq::s(&self.operation_name),
            coq::s(&self.query),
            coq::ostr(&self.include),
            coq::list(&self.uses, |u| coq::strs(u)),
            coq::list(&self.items, |i| i.to_coq()),
            coq::s(&self.impl_for),
            pairs(&self.impl_body)
        )
    }
}

pub fn path_to_string(p: &syn::Path) -> String {
    let mut s = String::new();
    if p.leading_colon.is_some() {
        s.push_str("::");
    }
    let segs: Vec<String> = p.segments.iter().map(|x| x.ident.to_string()).collect();
    s.push_str(&segs.join("::"));
    s
}

pub fn conv_type(t: &syn::Type) -> RType {
    match t {
        syn::Type::Path(tp) if tp.qself.is_none() => {
            let segs: Vec<&syn::PathSegment> = tp.path.segments.iter().collect();
            let last = segs.last().unwrap();
            let id = last.ident.to_string();
            match &last.arguments {
                syn::PathArguments::None => RType::Named(path_to_string(&tp.path)),
                syn::PathArguments::AngleBracketed(ab) => {
                    let args: Vec<&syn::Type> = ab
                        .args
                        .iter()
                        .filter_map(|a| if let syn::GenericArgument::Type(t) = a { Some(t) } else { None })
                        .collect();
                    match (id.as_str(), args.len()) {
                        ("Option", 1) => RType::Option(Box::new(conv_type(args[0]))),
                        ("Vec", 1) => RType::Vec(Box::new(conv_type(args[0]))),
                        ("Box", 1) => RType::Box(Box::new(conv_type(args[0]))),
                        ("HashMap", 2) => RType::Map(Box::new(conv_type(args[1]))),
                        _ => RType::Named(format!("<?{}>", quote::quote!(#t))),
                    }
                }
                _ => RType::Named(format!("<?{}>", quote::quote!(#t))),
            }
        }
        syn::Type::Reference(r) => match &*r.elem {
            syn::Type::Path(tp) if tp.path.is_ident("str") => RType::Named("&str".into()),
            _ => RType::Named(format!("<?{}>", quote::quote!(#t))),
        },
        syn::Type::Tuple(tt) if tt.elems.is_empty() => RType::Named("()".into()),
        _ => RType::Named(format!("<?{}>", quote::quote!(#t))),
    }
}

#[derive(Default, Debug)]
struct SerdeAttrs {
    krate: Option<String>,
    tag: Option<String>,
    untagged: bool,
    rename: Option<String>,
    rename_all: Option<String>,
    flatten: bool,
    skip_none: bool,
    deser_with: Option<String>,
    default: bool,
    other: bool,
    unknown: Vec<String>,
}

/// serde_derive's RenameRule (serde_derive/src/internals/case.rs), for fields (written in
/// snake_case) and for variants (written in PascalCase).  None = a rule serde does not know.
fn rename_all_field(rule: &str, field: &str) -> Option<String> {
    let pascal = |f: &str| {
        let mut out = String::new();
        let mut cap = true;
        for ch in f.chars() {
            if ch == '_' {
                cap = true;
            } else if cap {
                out.push(ch.to_ascii_uppercase());
                cap = false;
            } else {
                out.push(ch);
            }
        }
        out
    };
    Some(match rule {
        "lowercase" | "snake_case" => field.to_string(),
        "UPPERCASE" | "SCREAMING_SNAKE_CASE" => field.to_ascii_uppercase(),
        "PascalCase" => pascal(field),
        "camelCase" => {
            let p = pascal(field);
            let mut cs = p.chars();
            match cs.next() {
                Some(c) => c.to_ascii_lowercase().to_string() + cs.as_str(),
                None => p,
            }
        }
        "kebab-case" => field.replace('_', "-"),
        "SCREAMING-KEBAB-CASE" => field.to_ascii_uppercase().replace('_', "-"),
        _ => return None,
    })
}

fn rename_all_variant(rule: &str, variant: &str) -> Option<String> {
    let snake = |v: &str| {
        let mut out = String::new();
        for (i, ch) in v.char_indices() {
            if i > 0 && ch.is_uppercase() {
                out.push('_');
            }
            out.push(ch.to_ascii_lowercase());
        }
        out
    };
    Some(match rule {
        "PascalCase" => variant.to_string(),
        "lowercase" => variant.to_ascii_lowercase(),
        "UPPERCASE" => variant.to_ascii_uppercase(),
        "camelCase" => {
            let mut cs = variant.chars();
            match cs.next() {
                Some(c) => c.to_ascii_lowercase().to_string() + cs.as_str(),
                None => String::new(),
            }
        }
        "snake_case" => snake(variant),
        "SCREAMING_SNAKE_CASE" => snake(variant).to_ascii_uppercase(),
        "kebab-case" => snake(variant).replace('_', "-"),
        "SCREAMING-KEBAB-CASE" => snake(variant).to_ascii_uppercase().replace('_', "-"),
        _ => return None,
    })
}

/// A container-level `rename_all` is the same declaration as a `rename` on every member that
/// has none of its own: observe it as that.
fn apply_rename_all_fields(rule: &Option<String>, fields: &mut [RField]) {
    if let Some(rule) = rule {
        for f in fields.iter_mut() {
            if f.rename.is_none() {
                match rename_all_field(rule, &f.ident) {
                    Some(w) if w != f.ident => f.rename = Some(w),
                    Some(_) => {}
                    None => f.rename = Some(format!("<?rename_all={}>", rule)),
                }
            }
        }
    }
}

fn apply_rename_all_variants(rule: &Option<String>, vs: &mut [RVariant]) {
    if let Some(rule) = rule {
        for v in vs.iter_mut() {
            if v.rename.is_none() {
                match rename_all_variant(rule, &v.ident) {
                    Some(w) if w != v.ident => v.rename = Some(w),
                    Some(_) => {}
                    None => v.rename = Some(format!("<?rename_all={}>", rule)),
                }
            }
        }
    }
}

fn lit_str(e: &syn::Expr) -> Option<String> {
    if let syn::Expr::Lit(syn::ExprLit { lit: syn::Lit::Str(s), .. }) = e {
        Some(s.value())
    } else {
        None
    }
}

fn serde_attrs(attrs: &[syn::Attribute]) -> SerdeAttrs {
    let mut out = SerdeAttrs::default();
    for a in attrs {
        if !a.path().is_ident("serde") {
            continue;
        }
        let parsed = a.parse_args_with(
            syn::punctuated::Punctuated::<syn::Meta, syn::Token![,]>::parse_terminated,
        );
        let metas = match parsed {
            Ok(m) => m,
            Err(_) => {
                out.unknown.push("unparsable".into());
                continue;
            }
        };
        for m in metas {
            match &m {
                syn::Meta::Path(p) => {
                    if p.is_ident("flatten") {
                        out.flatten = true
                    } else if p.is_ident("untagged") {
                        out.untagged = true
                    } else if p.is_ident("default") {
                        out.default = true
                    } else if p.is_ident("other") {
                        out.other = true
                    } else {
                        out.unknown.push(path_to_string(p))
                    }
                }
                syn::Meta::NameValue(nv) => {
                    let v = lit_str(&nv.value);
                    if nv.path.is_ident("crate") {
                        out.krate = v
                    } else if nv.path.is_ident("tag") {
                        out.tag = v
                    } else if nv.path.is_ident("rename") {
                        out.rename = v
                    } else if nv.path.is_ident("rename_all") {
                        out.rename_all = v
                    } else if nv.path.is_ident("skip_serializing_if") {
                        if v.as_deref() == Some("Option::is_none") {
                            out.skip_none = true
                        } else {
                            out.unknown.push(format!("skip_serializing_if={:?}", v))
                        }
                    } else if nv.path.is_ident("deserialize_with") {
                        out.deser_with = v.map(|s| s.rsplit("::").next().unwrap_or("").to_string())
                    } else {
                        out.unknown.push(path_to_string(&nv.path))
                    }
                }
                syn::Meta::List(l) => out.unknown.push(path_to_string(&l.path)),
            }
        }
    }
    out
}

fn derives(attrs: &[syn::Attribute]) -> Vec<String> {
    let mut out = vec![];
    for a in attrs {
        if a.path().is_ident("derive") {
            if let Ok(ps) = a.parse_args_with(
                syn::punctuated::Punctuated::<syn::Path, syn::Token![,]>::parse_terminated,
            ) {
                for p in ps {
                    out.push(path_to_string(&p));
                }
            }
        }
    }
    out
}

fn deprecated(attrs: &[syn::Attribute]) -> Option<Option<String>> {
    for a in attrs {
        if a.path().is_ident("deprecated") {
            match &a.meta {
                syn::Meta::Path(_) => return Some(None),
                syn::Meta::List(_) => {
                    let mut note = None;
                    if let Ok(ms) = a.parse_args_with(
                        syn::punctuated::Punctuated::<syn::Meta, syn::Token![,]>::parse_terminated,
                    ) {
                        for m in ms {
                            if let syn::Meta::NameValue(nv) = m {
                                if nv.path.is_ident("note") {
                                    note = lit_str(&nv.value);
                                }
                            }
                        }
                    }
                    return Some(note);
                }
                syn::Meta::NameValue(nv) => return Some(lit_str(&nv.value)),
            }
        }
    }
    None
}

fn conv_field(f: &syn::Field) -> RField {
    let sa = serde_attrs(&f.attrs);
    RField {
        ident: f.ident.as_ref().map(|i| i.to_string()).unwrap_or_default(),
        ty: conv_type(&f.ty),
        rename: sa.rename,
        flatten: sa.flatten,
        skip_none: sa.skip_none,
        deprecated: deprecated(&f.attrs),
        deser_with: sa.deser_with,
        default: sa.default,
    }
}

fn conv_variant(v: &syn::Variant) -> RVariant {
    let sa = serde_attrs(&v.attrs);
    let payload = match &v.fields {
        syn::Fields::Unit => None,
        syn::Fields::Unnamed(u) if u.unnamed.len() == 1 => Some(conv_type(&u.unnamed[0].ty)),
        _ => Some(RType::Named("<?fields>".into())),
    };
    RVariant { ident: v.ident.to_string(), rename: sa.rename, payload, other: sa.other }
}

struct FirstMatch<'a> {
    found: Option<&'a syn::ExprMatch>,
}
impl<'a> Visit<'a> for FirstMatch<'a> {
    fn visit_expr_match(&mut self, m: &'a syn::ExprMatch) {
        if self.found.is_none() {
            self.found = Some(m);
        }
    }
}

fn pat_path_last2(p: &syn::Path) -> Option<String> {
    p.segments.last().map(|s| s.ident.to_string())
}

/// Ok(E::A) -> Some("A"); Ok(E::Other(s)) -> Some("Other(s)")
fn ok_ctor(e: &syn::Expr) -> Option<String> {
    if let syn::Expr::Call(c) = e {
        if let syn::Expr::Path(f) = &*c.func {
            if f.path.is_ident("Ok") && c.args.len() == 1 {
                match &c.args[0] {
                    syn::Expr::Path(p) => return pat_path_last2(&p.path),
                    syn::Expr::Call(inner) => {
                        if let syn::Expr::Path(p) = &*inner.func {
                            let n = pat_path_last2(&p.path)?;
                            let arg = inner.args.first().map(|a| quote::quote!(#a).to_string()).unwrap_or_default();
                            return Some(format!("{}({})", n, arg));
                        }
                    }
                    _ => {}
                }
            }
        }
    }
    None
}

fn conv_str_enum(e: &syn::ItemEnum, impls: &[&syn::ItemImpl]) -> Option<RItem> {
    let name = e.ident.to_string();
    let mut variants = vec![];
    for v in &e.variants {
        match &v.fields {
            syn::Fields::Unit => variants.push(v.ident.to_string()),
            syn::Fields::Unnamed(u) if u.unnamed.len() == 1 => {
                let t = conv_type(&u.unnamed[0].ty);
                variants.push(format!("{}({})", v.ident, t.show()));
            }
            _ => return None,
        }
    }
    let mut ser_arms = vec![];
    let mut ser_other = false;
    let mut de_arms = vec![];
    let mut de_other = false;
    let mut seen_ser = false;
    let mut seen_de = false;
    for im in impls {
        let tr = match &im.trait_ {
            Some((_, p, _)) => pat_path_last2(p).unwrap_or_default(),
            None => continue,
        };
        let mut fm = FirstMatch { found: None };
        fm.visit_item_impl(im);
        let m = match fm.found {
            Some(m) => m,
            None => continue,
        };
        if tr == "Serialize" {
            seen_ser = true;
            for arm in &m.arms {
                match &arm.pat {
                    syn::Pat::Path(p) => {
                        if let (Some(v), Some(w)) = (pat_path_last2(&p.path), lit_str(&arm.body)) {
                            ser_arms.push((v, w));
                        } else {
                            ser_arms.push(("<?>".into(), "<?>".into()));
                        }
                    }
                    syn::Pat::TupleStruct(ts) => {
                        let v = pat_path_last2(&ts.path).unwrap_or_default();
                        let pat = quote::quote!(#ts).to_string().replace(' ', "");
                        let body = &arm.body;
                        let body = quote::quote!(#body).to_string().replace(' ', "");
                        // the catch-all arm hands the carried string to serialize_str: any of the usual
                        // spellings of "the String as &str" is the same behaviour
                        let binds_s = pat.ends_with("Other(refs)") || pat.ends_with("Other(s)");
                        let as_str = ["&s", "s", "s.as_str()", "s.as_ref()", "&s[..]", "&*s", "&**s", "s.borrow()"].contains(&body.as_str());
                        if v == "Other" && binds_s && as_str {
                            ser_other = true;
                        } else {
                            ser_arms.push((format!("<?{}>", pat), body));
                        }
                    }
                    other => ser_arms.push((format!("<?{}>", quote::quote!(#other)), "<?>".into())),
                }
            }
        } else if tr == "Deserialize" {
            seen_de = true;
            for arm in &m.arms {
                match &arm.pat {
                    syn::Pat::Lit(l) => {
                        let w = if let syn::Lit::Str(s) = &l.lit { s.value() } else { "<?>".into() };
                        let c = ok_ctor(&arm.body).unwrap_or_else(|| "<?>".into());
                        de_arms.push((w, c));
                    }
                    syn::Pat::Wild(_) => {
                        if ok_ctor(&arm.body).as_deref() == Some("Other(s)") {
                            de_other = true;
                        } else {
                            de_arms.push(("_".into(), ok_ctor(&arm.body).unwrap_or_else(|| "<?>".into())));
                        }
                    }
                    other => de_arms.push((format!("<?{}>", quote::quote!(#other)), "<?>".into())),
                }
            }
        }
    }
    if !seen_ser || !seen_de {
        return None;
    }
    Some(RItem::StrEnum { name, derives: derives(&e.attrs), variants, ser_arms, ser_other, de_arms, de_other })
}

fn has_serde_derive(d: &[String]) -> bool {
    d.iter().any(|x| x.ends_with("Serialize") || x.ends_with("Deserialize"))
}

/// Convert the items of one module body (or of a library file).
pub fn conv_items(items: &[syn::Item]) -> (Vec<RItem>, Vec<Vec<String>>, Vec<String>) {
    let mut out = vec![];
    let mut uses = vec![];
    let mut default_fns = vec![];
    let impls: Vec<&syn::ItemImpl> =
        items.iter().filter_map(|i| if let syn::Item::Impl(im) = i { Some(im) } else { None }).collect();
    for it in items {
        match it {
            syn::Item::Struct(s) => {
                let sa = serde_attrs(&s.attrs);
                let d = derives(&s.attrs);
                match &s.fields {
                    syn::Fields::Named(n) => {
                        let mut fields: Vec<RField> = n.named.iter().map(conv_field).collect();
                        apply_rename_all_fields(&sa.rename_all, &mut fields);
                        out.push(RItem::Struct { name: s.ident.to_string(), derives: d, serde_crate: sa.krate, fields })
                    }
                    syn::Fields::Unit => {
                        out.push(RItem::Unit { name: s.ident.to_string(), derives: d, serde_crate: sa.krate })
                    }
                    _ => out.push(RItem::Opaque { name: s.ident.to_string() }),
                }
            }
            syn::Item::Enum(e) => {
                let sa = serde_attrs(&e.attrs);
                let d = derives(&e.attrs);
                let name = e.ident.to_string();
                let mut vs: Vec<RVariant> = e.variants.iter().map(conv_variant).collect();
                apply_rename_all_variants(&sa.rename_all, &mut vs);
                if let Some(tag) = sa.tag {
                    out.push(RItem::TagEnum { name, derives: d, serde_crate: sa.krate, tag, variants: vs });
                } else if sa.untagged {
                    out.push(RItem::Untagged { name, derives: d, variants: vs });
                } else if has_serde_derive(&d) {
                    out.push(RItem::ExtEnum { name, derives: d, serde_crate: sa.krate, variants: vs });
                } else {
                    let mine: Vec<&syn::ItemImpl> = impls
                        .iter()
                        .copied()
                        .filter(|im| {
                            if let syn::Type::Path(tp) = &*im.self_ty {
                                tp.path.is_ident(&e.ident)
                            } else {
                                false
                            }
                        })
                        .collect();
                    match conv_str_enum(e, &mine) {
                        Some(i) => out.push(i),
                        None => out.push(RItem::Opaque { name }),
                    }
                }
            }
            syn::Item::Type(t) => {
                let name = t.ident.to_string();
                match &*t.ty {
                    syn::Type::Path(tp)
                        if tp.qself.is_none()
                            && tp.path.segments.len() > 1
                            && tp.path.segments.iter().all(|s| s.arguments.is_none()) =>
                    {
                        let mut path: Vec<String> = tp.path.segments.iter().map(|s| s.ident.to_string()).collect();
                        if tp.path.leading_colon.is_some() {
                            path.insert(0, "".into());
                        }
                        out.push(RItem::AliasPath { name, path })
                    }
                    ty => out.push(RItem::Alias { name, target: conv_type(ty) }),
                }
            }
            syn::Item::Use(u) => {
                let mut acc = vec![];
                flatten_use(&u.tree, vec![], &mut acc);
                if u.leading_colon.is_some() {
                    for a in acc.iter_mut() {
                        a.insert(0, "".into());
                    }
                }
                uses.extend(acc);
            }
            syn::Item::Impl(im) => {
                if im.trait_.is_none() {
                    for ii in &im.items {
                        if let syn::ImplItem::Fn(f) = ii {
                            default_fns.push(f.sig.ident.to_string());
                        }
                    }
                }
            }
            _ => {}
        }
    }
    (out, uses, default_fns)
}

fn flatten_use(t: &syn::UseTree, prefix: Vec<String>, out: &mut Vec<Vec<String>>) {
    match t {
        syn::UseTree::Path(p) => {
            let mut pr = prefix;
            pr.push(p.ident.to_string());
            flatten_use(&p.tree, pr, out)
        }
        syn::UseTree::Name(n) => {
            let mut pr = prefix;
            pr.push(n.ident.to_string());
            out.push(pr)
        }
        syn::UseTree::Rename(r) => {
            let mut pr = prefix;
            pr.push(format!("{} as {}", r.ident, r.rename));
            out.push(pr)
        }
        syn::UseTree::Glob(_) => {
            let mut pr = prefix;
            pr.push("*".into());
            out.push(pr)
        }
        syn::UseTree::Group(g) => {
            for i in &g.items {
                flatten_use(i, prefix.clone(), out)
            }
        }
    }
}

pub fn conv_vis(v: &syn::Visibility) -> Vis {
    match v {
        syn::Visibility::Inherited => Vis::Inherited,
        syn::Visibility::Public(_) => Vis::Pub,
        syn::Visibility::Restricted(r) => {
            let p = &r.path;
            let inn = if r.in_token.is_some() { "in " } else { "" };
            Vis::Restricted(format!("{}{}", inn, path_to_string(p)))
        }
    }
}

fn const_str(items: &[syn::Item], name: &str) -> Option<String> {
    for it in items {
        if let syn::Item::Const(c) = it {
            if c.ident == name {
                return lit_str(&c.expr);
            }
        }
    }
    None
}

fn const_include(items: &[syn::Item]) -> Option<String> {
    for it in items {
        if let syn::Item::Const(c) = it {
            if c.ident == "__QUERY_WORKAROUND" {
                if let syn::Expr::Macro(m) = &*c.expr {
                    if m.mac.path.is_ident("include_str") {
                        if let Ok(l) = m.mac.parse_body::<syn::LitStr>() {
                            return Some(l.value());
                        }
                    }
                }
                return Some("<?>".into());
            }
        }
    }
    None
}

/// Split a generated file/token stream into its per-operation modules.
pub fn conv_file(f: &syn::File) -> Result<Vec<RModule>, String> {
    let mut mods = vec![];
    let mut pending_struct: Option<(String, Vis)> = None;
    let mut i = 0;
    let items = &f.items;
    while i < items.len() {
        match &items[i] {
            syn::Item::Struct(s) => {
                pending_struct = Some((s.ident.to_string(), conv_vis(&s.vis)));
            }
            syn::Item::Mod(m) => {
                let body = match &m.content {
                    Some((_, b)) => b,
                    None => return Err("mod without body".into()),
                };
                let (its, uses, default_fns) = conv_items(body);
                mods.push(RModule {
                    struct_decl: pending_struct.take(),
                    name: m.ident.to_string(),
                    vis: conv_vis(&m.vis),
                    operation_name: const_str(body, "OPERATION_NAME").unwrap_or_else(|| "<?>".into()),
                    query: const_str(body, "QUERY").unwrap_or_else(|| "<?>".into()),
                    include: const_include(body),
                    uses,
                    items: its,
                    impl_for: String::new(),
                    impl_body: vec![],
                    default_fns,
                });
            }
            syn::Item::Impl(im) => {
                if let Some(last) = mods.last_mut() {
                    if let syn::Type::Path(tp) = &*im.self_ty {
                        last.impl_for = path_to_string(&tp.path);
                    }
                    // struct literal fields of build_query
                    struct SL {
                        out: Vec<(String, String)>,
                    }
                    impl<'a> Visit<'a> for SL {
                        fn visit_expr_struct(&mut self, e: &'a syn::ExprStruct) {
                            for f in &e.fields {
                                let k = match &f.member {
                                    syn::Member::Named(i) => i.to_string(),
                                    syn::Member::Unnamed(_) => "?".into(),
                                };
                                let ex = &f.expr;
                                let v = quote::quote!(#ex).to_string().replace(' ', "");
                                self.out.push((k, v));
                            }
                        }
                    }
                    let mut sl = SL { out: vec![] };
                    sl.visit_item_impl(im);
                    // also the associated types
                    for ii in &im.items {
                        if let syn::ImplItem::Type(t) = ii {
                            let ty = &t.ty;
                            sl.out.push((format!("type {}", t.ident), quote::quote!(#ty).to_string().replace(' ', "")));
                        }
                    }
                    // the order of the members of a struct literal / of associated types means nothing
                    let canon = ["variables", "query", "operation_name", "type Variables", "type ResponseData"];
                    sl.out.sort_by_key(|(k, _)| canon.iter().position(|c| c == k).unwrap_or(canon.len()));
                    last.impl_body = sl.out;
                }
            }
            _ => {}
        }
        i += 1;
    }
    Ok(mods)
}

pub fn parse_tokens(ts: &proc_macro2::TokenStream) -> Result<Vec<RModule>, String> {
    let f: syn::File = syn::parse2(ts.clone()).map_err(|e| format!("syn: {}", e))?;
    conv_file(&f)
}
