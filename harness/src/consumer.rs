//! Throw-away consumer crates: compile emitted code with the real rustc + serde and drive it
//! with JSON vectors.  Lives under $VERIF_SCRATCH (outside /repo and /verif) and is removed by
//! `cleanup`.  Only the cargo target directory with third-party dependency artifacts is kept
//! (under /verif/.cache) so that serde & co. are not recompiled on every check.
use std::collections::BTreeMap;
use std::io::Write;
use std::path::PathBuf;
use std::process::{Command, Stdio};

pub struct Exposed {
    /// key used in vectors
    pub key: String,
    /// Rust path of the type inside the wrapper module
    pub path: String,
    pub de: bool,
    pub ser: bool,
}

pub struct Module {
    /// generated code (token stream printed)
    pub code: String,
    /// items placed beside the generated code inside the wrapper (custom scalar types etc.)
    pub prelude: String,
    pub exposed: Vec<Exposed>,
    /// extra statements for the dispatch function: (key, rust expression of type String using `json: &str`)
    pub custom: Vec<(String, String)>,
    /// items placed in the module file OUTSIDE the wrapper (reachable as `super::super::x` from the generated module)
    pub outer: String,
}

pub struct Consumer {
    pub dir: PathBuf,
    pub modules: Vec<Module>,
    /// compile status per module: Ok(()) or the rustc error codes/messages
    pub status: Vec<Result<(), Vec<String>>>,
    pub with_serde_dep: bool,
    pub bin: Option<PathBuf>,
    pub build_log: String,
    /// items placed at the crate root (main.rs)
    pub crate_prelude: String,
}

fn repo() -> String {
    std::env::var("VERIF_REPO").unwrap_or_else(|_| "/repo".into())
}

fn target_dir() -> PathBuf {
    let verif = std::env::var("VERIF_DIR").unwrap_or_else(|_| "/verif".into());
    PathBuf::from(verif).join(".cache").join("cons-target")
}

impl Consumer {
    pub fn new(tag: &str, with_serde_dep: bool) -> Consumer {
        let base = std::env::var("VERIF_SCRATCH").unwrap_or_else(|_| "/var/tmp/verif-scratch".into());
        let dir = PathBuf::from(base).join(format!("cons-{}-{}", tag, std::process::id()));
        let _ = std::fs::remove_dir_all(&dir);
        std::fs::create_dir_all(dir.join("src")).unwrap();
        Consumer { dir, modules: vec![], status: vec![], with_serde_dep, bin: None, build_log: String::new(), crate_prelude: String::new() }
    }

    pub fn add(&mut self, m: Module) -> usize {
        self.modules.push(m);
        self.modules.len() - 1
    }

    fn module_source(&self, k: usize, stub: bool) -> String {
        let m = &self.modules[k];
        if stub {
            return "pub fn dispatch(_key: &str, _json: &str) -> Option<String> { Some(\"COMPILE-ERROR\".to_string()) }\n".to_string();
        }
        let mut s = String::new();
        s.push_str("#![allow(warnings)]\n");
        s.push_str(&m.outer);
        s.push_str("\npub mod w {\n");
        s.push_str(&m.prelude);
        s.push('\n');
        s.push_str(&m.code);
        s.push_str("\n}\n");
        s.push_str("pub fn dispatch(key: &str, json: &str) -> Option<String> {\n    match key {\n");
        for e in &m.exposed {
            let f = match (e.de, e.ser) {
                (true, true) => "crate::de_ser",
                (true, false) => "crate::de_only",
                _ => "crate::de_only",
            };
            s.push_str(&format!("        {:?} => Some({}::<w::{}>(json)),\n", e.key, f, e.path));
        }
        for (k2, expr) in &m.custom {
            s.push_str(&format!("        {:?} => Some({{ {} }}),\n", k2, expr));
        }
        s.push_str("        _ => None,\n    }\n}\n");
        s
    }

    fn write_all(&self, stubs: &[bool]) {
        let serde_dep = if self.with_serde_dep { "serde = { version = \"1.0\", features = [\"derive\"] }\n" } else { "" };
        let toml = format!(
            "[package]\nname = \"cons\"\nversion = \"0.1.0\"\nedition = \"2021\"\n\n[workspace]\n\n[dependencies]\ngraphql_client = {{ path = \"{}/graphql_client\" }}\nserde_json = \"1.0\"\n{}\n[profile.dev]\ndebug = false\nopt-level = 0\nincremental = false\n",
            repo(),
            serde_dep
        );
        std::fs::write(self.dir.join("Cargo.toml"), toml).unwrap();
        let _ = std::fs::copy(format!("{}/Cargo.lock", repo()), self.dir.join("Cargo.lock"));
        let mut main = String::new();
        main.push_str("#![allow(warnings)]\nuse std::io::BufRead;\n");
        main.push_str(&self.crate_prelude);
        main.push('\n');
        for k in 0..self.modules.len() {
            main.push_str(&format!("mod m{};\n", k));
        }
        main.push_str(
            r#"
pub fn canon(v: &serde_json::Value) -> String { serde_json::to_string(v).unwrap() }

pub fn de_ser<T: serde::de::DeserializeOwned + serde::Serialize>(json: &str) -> String {
    let a: Result<T, _> = serde_json::from_str(json);
    let val: serde_json::Value = match serde_json::from_str(json) { Ok(v) => v, Err(e) => return format!("ERR badjson {}", e) };
    let b: Result<T, _> = serde_json::from_value(val);
    match (a, b) {
        (Ok(x), Ok(y)) => {
            let sx = serde_json::to_value(&x).map(|v| canon(&v));
            let sy = serde_json::to_value(&y).map(|v| canon(&v));
            match (sx, sy) {
                (Ok(p), Ok(q)) if p == q => format!("OK {}", p),
                (Ok(p), Ok(q)) => format!("SPLIT ser {} vs {}", p, q),
                (Err(e), _) | (_, Err(e)) => format!("SERERR {}", e),
            }
        }
        (Err(e), Err(_)) => format!("ERR {}", e),
        (Ok(_), Err(e)) => format!("SPLIT from_str ok, from_value err: {}", e),
        (Err(e), Ok(_)) => format!("SPLIT from_str err: {}, from_value ok", e),
    }
}

pub fn de_dbg_ser<T: serde::de::DeserializeOwned + serde::Serialize + std::fmt::Debug>(json: &str) -> String {
    let a: Result<T, _> = serde_json::from_str(json);
    let val: serde_json::Value = match serde_json::from_str(json) { Ok(v) => v, Err(e) => return format!("ERR badjson {}", e) };
    let b: Result<T, _> = serde_json::from_value(val);
    match (a, b) {
        (Ok(x), Ok(y)) => {
            let sx = serde_json::to_value(&x).map(|v| canon(&v));
            let sy = serde_json::to_value(&y).map(|v| canon(&v));
            let (dx, dy) = (format!("{:?}", x), format!("{:?}", y));
            match (sx, sy) {
                (Ok(p), Ok(q)) if p == q && dx == dy => format!("OK\t{}\t{}", dx, p),
                (Ok(p), Ok(q)) => format!("SPLIT ser {} vs {}", p, q),
                (Err(e), _) | (_, Err(e)) => format!("SERERR {}", e),
            }
        }
        (Err(e), Err(_)) => format!("ERR {}", e),
        (Ok(_), Err(e)) => format!("SPLIT from_str ok, from_value err: {}", e),
        (Err(e), Ok(_)) => format!("SPLIT from_str err: {}, from_value ok", e),
    }
}

pub fn de_only<T: serde::de::DeserializeOwned>(json: &str) -> String {
    let a: Result<T, _> = serde_json::from_str(json);
    let val: serde_json::Value = match serde_json::from_str(json) { Ok(v) => v, Err(e) => return format!("ERR badjson {}", e) };
    let b: Result<T, _> = serde_json::from_value(val);
    match (a, b) {
        (Ok(_), Ok(_)) => "OK".to_string(),
        (Err(e), Err(_)) => format!("ERR {}", e),
        (Ok(_), Err(e)) => format!("SPLIT from_str ok, from_value err: {}", e),
        (Err(e), Ok(_)) => format!("SPLIT from_str err: {}, from_value ok", e),
    }
}

fn main() {
    std::panic::set_hook(Box::new(|_| {}));
    let stdin = std::io::stdin();
    for line in stdin.lock().lines() {
        let line = line.unwrap();
        let mut it = line.splitn(3, '\t');
        let idx: usize = it.next().unwrap().parse().unwrap();
        let key = it.next().unwrap().to_string();
        let json = it.next().unwrap_or("").to_string();
        let r = std::panic::catch_unwind(move || dispatch(idx, &key, &json));
        match r {
            Ok(Some(s)) => println!("{}", s.replace('\n', " ")),
            Ok(None) => println!("NOKEY"),
            Err(_) => println!("PANIC"),
        }
    }
}

fn dispatch(idx: usize, key: &str, json: &str) -> Option<String> {
    match idx {
"#,
        );
        for k in 0..self.modules.len() {
            main.push_str(&format!("        {} => m{}::dispatch(key, json),\n", k, k));
        }
        main.push_str("        _ => None,\n    }\n}\n");
        std::fs::write(self.dir.join("src/main.rs"), main).unwrap();
        for k in 0..self.modules.len() {
            std::fs::write(self.dir.join(format!("src/m{}.rs", k)), self.module_source(k, stubs[k])).unwrap();
        }
    }

    fn cargo_build(&self) -> (bool, BTreeMap<usize, Vec<String>>, String) {
        let out = Command::new("cargo")
            .args(["build", "--offline", "--message-format=json", "--quiet"])
            .current_dir(&self.dir)
            .env("CARGO_TARGET_DIR", target_dir())
            .env("CARGO_NET_OFFLINE", "true")
            .env("RUSTFLAGS", "-Awarnings")
            .stdout(Stdio::piped())
            .stderr(Stdio::piped())
            .output()
            .expect("cargo build");
        let mut errs: BTreeMap<usize, Vec<String>> = BTreeMap::new();
        let mut other = String::new();
        let text = String::from_utf8_lossy(&out.stdout);
        for line in text.lines() {
            let v: serde_json::Value = match serde_json::from_str(line) {
                Ok(v) => v,
                Err(_) => continue,
            };
            if v["reason"] != "compiler-message" {
                continue;
            }
            let msg = &v["message"];
            if msg["level"] != "error" {
                continue;
            }
            let code = msg["code"]["code"].as_str().unwrap_or("").to_string();
            let text = msg["message"].as_str().unwrap_or("").to_string();
            let mut attributed = false;
            if let Some(spans) = msg["spans"].as_array() {
                for sp in spans {
                    // follow macro expansions to the file of the call site too
                    let mut files = vec![sp["file_name"].as_str().unwrap_or("").to_string()];
                    let mut e = &sp["expansion"];
                    while e.is_object() {
                        files.push(e["span"]["file_name"].as_str().unwrap_or("").to_string());
                        e = &e["span"]["expansion"];
                    }
                    for f in files {
                        if let Some(rest) = f.strip_prefix("src/m") {
                            if let Some(num) = rest.strip_suffix(".rs") {
                                if let Ok(k) = num.parse::<usize>() {
                                    errs.entry(k).or_default().push(format!("{} {}", code, text));
                                    attributed = true;
                                }
                            }
                        }
                    }
                }
            }
            if !attributed {
                other.push_str(&format!("{} {}\n", code, text));
            }
        }
        other.push_str(&String::from_utf8_lossy(&out.stderr));
        (out.status.success(), errs, other)
    }

    /// Build; modules that do not compile are stubbed out and reported.
    pub fn build(&mut self) -> bool {
        let n = self.modules.len();
        let mut stubs = vec![false; n];
        self.status = vec![Ok(()); n];
        for _round in 0..4 {
            self.write_all(&stubs);
            let (ok, errs, other) = self.cargo_build();
            self.build_log = other;
            if ok {
                self.bin = Some(target_dir().join("debug").join("cons"));
                return true;
            }
            if errs.is_empty() {
                return false;
            }
            for (k, es) in errs {
                stubs[k] = true;
                let mut es = es;
                es.sort();
                es.dedup();
                self.status[k] = Err(es);
            }
        }
        false
    }

    /// vectors: (module index, key, json) -> one result line each
    pub fn run(&self, vectors: &[(usize, String, String)]) -> Vec<String> {
        let bin = match &self.bin {
            Some(b) => b,
            None => return vectors.iter().map(|_| "NOBIN".to_string()).collect(),
        };
        let mut child = Command::new(bin).stdin(Stdio::piped()).stdout(Stdio::piped()).stderr(Stdio::null()).spawn().expect("spawn consumer");
        let mut input = String::new();
        for (k, key, json) in vectors {
            input.push_str(&format!("{}\t{}\t{}\n", k, key, json.replace('\n', " ")));
        }
        let mut stdin = child.stdin.take().unwrap();
        let h = std::thread::spawn(move || {
            let _ = stdin.write_all(input.as_bytes());
        });
        let out = child.wait_with_output().unwrap();
        let _ = h.join();
        let text = String::from_utf8_lossy(&out.stdout);
        let mut lines: Vec<String> = text.lines().map(|s| s.to_string()).collect();
        while lines.len() < vectors.len() {
            lines.push("CRASH".to_string());
        }
        lines
    }

    pub fn cleanup(&self) {
        let _ = std::fs::remove_dir_all(&self.dir);
    }
}
