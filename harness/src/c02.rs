//! C02: supported inputs are accepted and the generated code type-checks, in all delivery forms:
//! library token stream and CLI-written file (compiled in a consumer crate with serde), and the
//! derive macro (checked in crates with and without a direct serde dependency).
use crate::consumer::{Consumer, Module};
use crate::coq;
use crate::gencase;
use crate::gql::*;
use crate::out::{Case, CaseSet};
use crate::progs::{self, Program};
use crate::resp;
use crate::rng::Rng;
use crate::runner;
use serde_json::{json, Value};
use std::collections::BTreeMap;
use std::path::{Path, PathBuf};
use std::process::{Command, Stdio};

const SCALAR_NAMES: [&str; 3] = ["Date", "my_scalar", "MyScalar"];

fn scalars_mod(name: &str, ty: &str) -> String {
    let mut s = format!("pub mod {} {{\n", name);
    for n in SCALAR_NAMES {
        s.push_str(&format!("    pub type {} = {};\n", n, ty));
    }
    s.push_str("}\n");
    s
}

/// extern enums as a consumer would write them, using only what graphql_client re-exports
fn extern_enum_prelude(schema: &SchemaDoc, names: &[String], norm_rust: bool) -> String {
    use heck::ToUpperCamelCase;
    let mut s = String::new();
    for d in &schema.defs {
        if let TypeDef::Enum { name, values } = d {
            if !names.contains(name) {
                continue;
            }
            s.push_str("#[derive(graphql_client::_private::serde::Serialize, graphql_client::_private::serde::Deserialize, Debug, Clone, PartialEq)]\n#[serde(crate = \"graphql_client::_private::serde\")]\n");
            s.push_str(&format!("pub enum {} {{\n", name));
            for (i, v) in values.iter().enumerate() {
                s.push_str(&format!("    #[serde(rename = {:?})] V{},\n", v, i));
            }
            s.push_str("}\n");
            let c = name.to_upper_camel_case();
            if norm_rust && &c != name {
                s.push_str(&format!("pub type {} = {};\n", c, name));
            }
        }
    }
    s
}

fn scalar_prelude_as(schema: &SchemaDoc, ty: &str) -> String {
    resp::scalar_prelude(schema).replace("serde_json::Value", ty)
}

struct DeriveCrate {
    dir: PathBuf,
    with_serde: bool,
    mods: Vec<String>,
}

impl DeriveCrate {
    fn new(tag: &str, with_serde: bool) -> Self {
        let base = std::env::var("VERIF_SCRATCH").unwrap_or_else(|_| "/var/tmp/verif-scratch".into());
        let dir = PathBuf::from(base).join(format!("derive-{}-{}", tag, std::process::id()));
        let _ = std::fs::remove_dir_all(&dir);
        std::fs::create_dir_all(dir.join("src")).unwrap();
        std::fs::create_dir_all(dir.join("gql")).unwrap();
        DeriveCrate { dir, with_serde, mods: vec![] }
    }
    fn add(&mut self, p: &Program, op: &str) -> usize {
        let k = self.mods.len();
        std::fs::write(self.dir.join(format!("gql/s{}.graphql", k)), p.schema.render_sdl()).unwrap();
        std::fs::write(self.dir.join(format!("gql/q{}.graphql", k)), p.doc.render()).unwrap();
        let o = &p.opts;
        let mut attrs = vec![format!("schema_path = \"gql/s{}.graphql\"", k), format!("query_path = \"gql/q{}.graphql\"", k)];
        if let Some(d) = &o.response_derives {
            attrs.push(format!("response_derives = {:?}", d));
        }
        if let Some(d) = &o.variables_derives {
            attrs.push(format!("variables_derives = {:?}", d));
        }
        match o.deprecation {
            Some(0) => attrs.push("deprecated = \"allow\"".into()),
            Some(1) => attrs.push("deprecated = \"warn\"".into()),
            Some(2) => attrs.push("deprecated = \"deny\"".into()),
            _ => {}
        }
        if o.normalization_rust {
            attrs.push("normalization = \"rust\"".into());
        }
        if let Some(m) = &o.custom_scalars_module {
            attrs.push(format!("custom_scalars_module = {:?}", m));
        }
        if !o.extern_enums.is_empty() {
            attrs.push(format!("extern_enums({})", o.extern_enums.iter().map(|e| format!("{:?}", e)).collect::<Vec<_>>().join(", ")));
        }
        if o.fragments_other_variant {
            attrs.push("fragments_other_variant = true".into());
        }
        if o.skip_serializing_none {
            attrs.push("skip_serializing_none".into());
        }
        let vis = match o.visibility.as_deref() {
            Some("pub") => "pub ",
            Some("crate") => "pub(crate) ",
            _ => "",
        };
        let mut src = String::from("#![allow(warnings)]\nuse graphql_client::GraphQLQuery;\n");
        if o.custom_scalars_module.is_none() {
            src.push_str(&scalar_prelude_as(&p.schema, "String"));
        }
        src.push_str(&extern_enum_prelude(&p.schema, &o.extern_enums, o.normalization_rust));
        // the derive selects the operation whose NORMALISED name equals the struct's name: under
        // normalization = "rust" the struct of operation `my_query` is written `MyQuery`
        let struct_name = if o.normalization_rust { heck::ToUpperCamelCase::to_upper_camel_case(op) } else { op.to_string() };
        src.push_str(&format!("#[derive(GraphQLQuery)]\n#[graphql({})]\n{}struct {};\n", attrs.join(", "), vis, struct_name));
        std::fs::write(self.dir.join(format!("src/d{}.rs", k)), &src).unwrap();
        self.mods.push(src);
        k
    }
    /// per module: Ok or the rustc error codes / messages
    fn check(&self) -> Vec<Result<(), Vec<String>>> {
        let repo = std::env::var("VERIF_REPO").unwrap_or_else(|_| "/repo".into());
        let verif = std::env::var("VERIF_DIR").unwrap_or_else(|_| "/verif".into());
        let serde_dep = if self.with_serde { "serde = { version = \"1.0\", features = [\"derive\"] }\n" } else { "" };
        std::fs::write(
            self.dir.join("Cargo.toml"),
            format!("[package]\nname = \"dcons\"\nversion = \"0.1.0\"\nedition = \"2021\"\n\n[workspace]\n\n[dependencies]\ngraphql_client = {{ path = \"{}/graphql_client\" }}\n{}\n[profile.dev]\ndebug = false\nincremental = false\n", repo, serde_dep),
        )
        .unwrap();
        let _ = std::fs::copy(format!("{}/Cargo.lock", repo), self.dir.join("Cargo.lock"));
        let mut stubbed = vec![false; self.mods.len()];
        let mut status: Vec<Result<(), Vec<String>>> = vec![Ok(()); self.mods.len()];
        for _round in 0..4 {
            let mut main = String::from("#![allow(warnings)]\n");
            main.push_str(&scalars_mod("scalars", "String"));
            main.push_str(&scalars_mod("types", "String"));
            for k in 0..self.mods.len() {
                if !stubbed[k] {
                    main.push_str(&format!("mod d{};\n", k));
                }
            }
            main.push_str("fn main() {}\n");
            std::fs::write(self.dir.join("src/main.rs"), main).unwrap();
            let out = Command::new("cargo")
                .args(["check", "--offline", "--message-format=json", "--quiet"])
                .current_dir(&self.dir)
                .env("CARGO_TARGET_DIR", PathBuf::from(&verif).join(".cache").join(if self.with_serde { "derive-target" } else { "derive-noserde-target" }))
                .env("CARGO_NET_OFFLINE", "true")
                .env("RUSTFLAGS", "-Awarnings")
                .stdout(Stdio::piped())
                .stderr(Stdio::piped())
                .output()
                .expect("cargo check");
            if out.status.success() {
                return status;
            }
            let mut any = false;
            for line in String::from_utf8_lossy(&out.stdout).lines() {
                let v: Value = match serde_json::from_str(line) {
                    Ok(v) => v,
                    Err(_) => continue,
                };
                if v["reason"] != "compiler-message" || v["message"]["level"] != "error" {
                    continue;
                }
                let msg = &v["message"];
                let text = format!("{} {}", msg["code"]["code"].as_str().unwrap_or(""), msg["message"].as_str().unwrap_or(""));
                let mut files = vec![];
                for sp in msg["spans"].as_array().cloned().unwrap_or_default() {
                    files.push(sp["file_name"].as_str().unwrap_or("").to_string());
                    let mut e = sp["expansion"].clone();
                    while e.is_object() {
                        files.push(e["span"]["file_name"].as_str().unwrap_or("").to_string());
                        e = e["span"]["expansion"].clone();
                    }
                }
                for f in files {
                    if let Some(num) = f.strip_prefix("src/d").and_then(|r| r.strip_suffix(".rs")) {
                        if let Ok(k) = num.parse::<usize>() {
                            any = true;
                            stubbed[k] = true;
                            match &mut status[k] {
                                Err(es) => {
                                    if !es.contains(&text) {
                                        es.push(text.clone())
                                    }
                                }
                                s => *s = Err(vec![text.clone()]),
                            }
                        }
                    }
                }
            }
            if !any {
                // an error that cannot be attributed: everything counts as failed
                let err = String::from_utf8_lossy(&out.stderr).lines().take(3).collect::<Vec<_>>().join(" | ");
                return status.into_iter().map(|s| s.and(Err(vec![format!("unattributed build failure: {}", err)]))).collect();
            }
        }
        status
    }
    fn cleanup(&self) {
        let _ = std::fs::remove_dir_all(&self.dir);
    }
}

fn multi_op_directed() -> Vec<Program> {
    // several operations in one document, sharing fragments, inputs and enums
    let mut out = vec![];
    let mut p = crate::c01dir::directed().remove(2);
    if let Some(QDef::Op { sel, .. }) = p.doc.defs.iter().find(|d| matches!(d, QDef::Op { .. })).cloned() {
        p.doc.defs.push(QDef::Op { kind: OpKind::Query, name: Some("Second".into()), vars: vec![VarDef { name: "n".into(), ty: GType::named("Int"), default: None }], sel: sel.into_iter().take(1).collect() });
        p.doc.defs.push(QDef::Op { kind: OpKind::Query, name: Some("Third".into()), vars: vec![], sel: vec![Sel::field("count")] });
    }
    p.opts.operation_name = None;
    out.push(p);
    let mut q = crate::c04dir::directed().remove(0);
    if let Some(QDef::Op { vars, sel, .. }) = q.doc.defs.first().cloned() {
        q.doc.defs.push(QDef::Op { kind: OpKind::Query, name: Some("Again".into()), vars: vars.into_iter().take(2).collect(), sel });
    }
    q.opts.operation_name = None;
    out.push(q);
    out
}

pub fn run(outdir: &Path, tier: &str, seed: u64, shards: usize, replay: Option<String>) {
    runner::quiet_panics();
    let mut rng = Rng::new(seed ^ 0xC02);
    let thorough = tier == "thorough";
    let nprog = if thorough { 150 } else { 45 };
    let mut dist = BTreeMap::<String, usize>::new();
    let scratch = runner::scratch_dir().join("c02");
    let _ = std::fs::remove_dir_all(&scratch);
    std::fs::create_dir_all(&scratch).unwrap();
    // (program, expect_ok)
    let mut programs: Vec<(Program, bool)> = vec![];
    if let Some(rp) = &replay {
        let v: Value = serde_json::from_str(&std::fs::read_to_string(rp).unwrap()).unwrap();
        programs.push((serde_json::from_value(v["case"]["program"].clone()).unwrap(), v["case"]["expect_ok"].as_bool().unwrap_or(false)));
    } else {
        for p in crate::c01dir::snake_case_types().into_iter().chain(crate::c01dir::deprecated_subtree()).chain(crate::c01dir::explicit_builtin_scalars()).chain(crate::c01dir::keyword_type_names()) {
            programs.push((p, true));
        }
        for p in crate::c01dir::directed() {
            // one directed program is outside the supported subset on purpose (no __typename on the interface selection)
            let supported = !p.tags.iter().any(|t| t == "rejected-by-design");
            programs.push((p, supported));
        }
        for (i, p) in crate::c04dir::directed().into_iter().enumerate() {
            if i % 4 == 0 || i > 21 {
                programs.push((p, true));
            }
        }
        for p in multi_op_directed() {
            programs.push((p, true));
        }
        // the directed programs again under other option sets
        let n_dir = programs.len();
        for i in 0..n_dir {
            if i % 3 != 0 {
                continue;
            }
            let mut p = programs[i].0.clone();
            p.opts.normalization_rust = true;
            p.opts.skip_serializing_none = true;
            p.opts.fragments_other_variant = true;
            p.opts.response_derives = Some("Debug, Clone, PartialEq, Serialize".into());
            p.opts.variables_derives = Some("Debug, Clone, PartialEq, Deserialize".into());
            p.opts.custom_scalars_module = Some("crate::scalars".into());
            p.opts.visibility = Some("crate".into());
            let supported = programs[i].1;
            programs.push((p, supported));
        }
        while programs.len() < nprog {
            let p = progs::gen_program(&mut rng);
            programs.push((p, false));
        }
    }
    let mut cons = Consumer::new("c02", true);
    cons.crate_prelude = format!("{}{}", scalars_mod("scalars", "serde_json::Value"), "");
    let mut dser = DeriveCrate::new("s", true);
    let mut dnos = DeriveCrate::new("n", false);
    let cli = crate::c19::build_cli();
    struct Prep {
        p: Program,
        expect_ok: bool,
        obs: gencase::Observed,
        lib: Option<usize>,
        cli: Option<Option<usize>>, // Some(None) = the command failed
        derive: Option<(usize, usize)>,
        derive_op: String,
    }
    let mut preps: Vec<Prep> = vec![];
    for (i, (mut p, expect_ok)) in programs.into_iter().enumerate() {
        if !p.opts.cli_mode {
            let qf = scratch.join(format!("q{}.graphql", i));
            std::fs::write(&qf, p.doc.render()).unwrap();
            p.opts.query_file = Some(qf.to_string_lossy().to_string());
        }
        let obs = gencase::observe(&p, None);
        *dist.entry(format!("generation/{}", obs.class)).or_default() += 1;
        let prelude = |p: &Program| -> String {
            let mut s = String::new();
            if p.opts.custom_scalars_module.is_none() {
                s.push_str(&resp::scalar_prelude(&p.schema));
            }
            s.push_str(&extern_enum_prelude(&p.schema, &p.opts.extern_enums, p.opts.normalization_rust));
            s
        };
        let outer = scalars_mod("types", "serde_json::Value");
        let mut lib = None;
        let mut cli_idx = None;
        let mut derive = None;
        let mut derive_op = String::new();
        if let (Some(_), Some(tokens)) = (&obs.modules, &obs.tokens) {
            // derive-mode output needs the user's `struct Op;`
            let code = if p.opts.cli_mode { tokens.clone() } else { format!("pub struct {};\n{}", p.opts.struct_name.clone().unwrap_or_default(), tokens) };
            lib = Some(cons.add(Module { code, prelude: prelude(&p), exposed: vec![], custom: vec![], outer: outer.clone() }));
            // CLI: only what its flags can say
            let o = &p.opts;
            if let (Some(bin), true) = (&cli, o.cli_mode && !o.normalization_rust && !o.skip_serializing_none && o.serde_path.is_none()) {
                let d = scratch.join(format!("cli{}", i));
                std::fs::create_dir_all(&d).unwrap();
                std::fs::write(d.join("schema.graphql"), p.schema.render_sdl()).unwrap();
                std::fs::write(d.join("query.graphql"), p.doc.render()).unwrap();
                let mut argv: Vec<String> = vec!["generate".into(), "--schema-path".into(), "schema.graphql".into(), "query.graphql".into(), "--no-formatting".into(), "-o".into(), "out".into()];
                std::fs::create_dir_all(d.join("out")).unwrap();
                if let Some(s) = &o.operation_name { argv.push("--selected-operation".into()); argv.push(s.clone()); }
                if let Some(s) = &o.variables_derives { argv.push("-I".into()); argv.push(s.clone()); }
                if let Some(s) = &o.response_derives { argv.push("-O".into()); argv.push(s.clone()); }
                if let Some(k) = o.deprecation { argv.push("-d".into()); argv.push(["allow", "warn", "deny"][k as usize].into()); }
                match o.visibility.as_deref() {
                    Some("") => { argv.push("-m".into()); argv.push("private".into()); }
                    Some(v) => { argv.push("-m".into()); argv.push(v.to_string()); }
                    None => {}
                }
                if let Some(s) = &o.custom_scalars_module { argv.push("-p".into()); argv.push(s.clone()); }
                if o.fragments_other_variant { argv.push("--fragments-other-variant".into()); }
                if !o.extern_enums.is_empty() { argv.push("--external-enums".into()); argv.extend(o.extern_enums.iter().cloned()); }
                let st = Command::new(bin).args(&argv).current_dir(&d).stdout(Stdio::null()).stderr(Stdio::null()).status();
                let text = std::fs::read_to_string(d.join("out/query.rs")).ok();
                match (st.map(|s| s.success()).unwrap_or(false), text) {
                    (true, Some(t)) => {
                        // the file starts with an inner attribute (`#![allow(..)]`), legal only at the top of a file
                        let t: String = t.lines().filter(|l| !l.trim_start().starts_with("#![")).collect::<Vec<_>>().join("\n");
                        cli_idx = Some(Some(cons.add(Module { code: t, prelude: prelude(&p), exposed: vec![], custom: vec![], outer: outer.clone() })));
                    }
                    _ => cli_idx = Some(None),
                }
            }
            // derive: one operation, named by the struct
            let opn = o.operation_name.clone().or_else(|| p.doc.defs.iter().find_map(|d| if let QDef::Op { name: Some(n), .. } = d { Some(n.clone()) } else { None }));
            if let Some(opn) = opn {
                if o.serde_path.is_none() || o.serde_path.as_deref() == Some("graphql_client::_private::serde") {
                    let is_ident = opn.chars().all(|c| c.is_ascii_alphanumeric() || c == '_');
                    if is_ident {
                        derive = Some((dser.add(&p, &opn), dnos.add(&p, &opn)));
                        derive_op = opn;
                    }
                }
            }
        }
        preps.push(Prep { p, expect_ok, obs, lib, cli: cli_idx, derive, derive_op });
    }
    let built = cons.build();
    if !built {
        eprintln!("c02: consumer crate did not build: {}", cons.build_log.lines().take(5).collect::<Vec<_>>().join(" | "));
    }
    let ds = dser.check();
    let dn = dnos.check();
    let mut cases = vec![];
    for pr in &preps {
        let mut forms = vec![];
        let mut fdesc = vec![];
        let codes = |es: &Vec<String>| -> Vec<String> { let mut c: Vec<String> = es.iter().map(|e| e.split(' ').next().unwrap_or("").to_string()).collect(); c.sort(); c.dedup(); c };
        let mut push = |name: &str, generated: bool, st: Option<&Result<(), Vec<String>>>, dist: &mut BTreeMap<String, usize>| {
            let (ok, errs): (bool, Vec<String>) = match st {
                Some(Ok(())) => (true, vec![]),
                Some(Err(es)) => (false, es.clone()),
                None => (false, vec![]),
            };
            *dist.entry(format!("form/{}/{}", name, if !generated { "not generated" } else if ok { "compiles" } else { "rejected by rustc" })).or_default() += 1;
            forms.push(format!("(mkForm {} {} {} {})", coq::s(name), coq::b(generated), coq::b(ok), coq::strs(&codes(&errs))));
            fdesc.push(json!({"form": name, "generated": generated, "compiled": ok, "errors": errs}));
        };
        if let Some(k) = pr.lib {
            push("library", true, if built { cons.status.get(k) } else { None }, &mut dist);
        }
        match pr.cli {
            Some(Some(k)) => push("cli", true, if built { cons.status.get(k) } else { None }, &mut dist),
            Some(None) => push("cli", false, None, &mut dist),
            None => {}
        }
        if let Some((a, b)) = pr.derive {
            push("derive", true, ds.get(a), &mut dist);
            push("derive-without-serde", true, dn.get(b), &mut dist);
        }
        cases.push(Case {
            coq: format!("(mkC02 {}\n  {}\n  [{}])", gencase::gcase(&pr.p, &pr.obs), coq::b(pr.expect_ok), forms.join("; ")),
            desc: json!({"program": pr.p, "schema": pr.p.schema.render_sdl(), "query": pr.p.doc.render(), "expect_ok": pr.expect_ok, "generation": pr.obs.class, "detail": pr.obs.detail, "derive_struct": pr.derive_op, "forms": fdesc}),
            key: format!("{}|{}|{:?}", pr.p.schema.render_sdl(), pr.p.doc.render(), pr.p.opts),
            nontrivial: pr.lib.is_some(),
        });
    }
    let samples: Vec<_> = cases.iter().take(2).map(|c| json!({"query": c.desc["query"], "forms": c.desc["forms"]})).collect();
    let cs = CaseSet {
        run_module: "RunC02".into(),
        cases,
        checkers: ["corr_gen", "corr_static", "prop_c02", "known_ident_collision", "known_op_module_clash", "known_default_derive", "known_default_value_rendering", "known_keyword_type_name"].iter().map(|s| s.to_string()).collect(),
        extra_imports: vec!["Json".into(), "TypeExpr".into(), "Schema".into(), "Query".into(), "Attrs".into(), "Codegen".into(), "RunGen".into()],
        preludes: vec![],
    };
    cs.write(outdir, shards, json!({
        "rule": "directed programs that are valid by construction (zoo selections, every input type expression, multi-operation documents; also under normalization + skip_serializing_none + other-variant + extra derives + scalars module + pub(crate)) must be accepted; they and random programs with random option sets (derives incl. Default, normalization, deprecation strategy, other-variant, skip-none, scalars module, extern enums, visibility, derive/CLI mode) are delivered as library token stream, as CLI-written file (when the flags can express the options) and through #[derive(GraphQLQuery)] in a crate with and in a crate without a direct serde dependency; rustc's verdict per module from cargo's JSON diagnostics.",
        "distribution": dist, "samples": samples,
    }));
    cons.cleanup();
    dser.cleanup();
    dnos.cleanup();
    let _ = std::fs::remove_dir_all(&scratch);
    runner::cleanup_scratch();
}
