//! C06: valid programs, each with every applicable single invalidating edit of the rule
//! catalogue applied at a random position (any depth, inside fragments and inline fragments).
use crate::gencase;
use crate::gql::*;
use crate::out::{Case, CaseSet};
use crate::progs::{self, fields_of, possible_types, Program};
use crate::rng::Rng;
use crate::runner;
use serde_json::json;
use std::path::Path;

/// A path to a selection: indices into nested selection lists, starting from a definition.
#[derive(Clone, Debug)]
struct Pos {
    def: usize,
    path: Vec<usize>,
    parent_type: String,
}

fn walk(schema: &SchemaDoc, sels: &[Sel], parent: &str, def: usize, prefix: &mut Vec<usize>, out: &mut Vec<(Pos, Sel)>) {
    for (i, s) in sels.iter().enumerate() {
        prefix.push(i);
        out.push((Pos { def, path: prefix.clone(), parent_type: parent.to_string() }, s.clone()));
        match s {
            Sel::Field { name, sub, .. } => {
                if let Some(f) = fields_of(schema, parent).iter().find(|f| &f.name == name) {
                    walk(schema, sub, f.ty.name(), def, prefix, out);
                }
            }
            Sel::Inline { on: Some(t), sub } => walk(schema, sub, t, def, prefix, out),
            _ => {}
        }
        prefix.pop();
    }
}

fn def_sels_mut(d: &mut QDef) -> &mut Vec<Sel> {
    match d {
        QDef::Op { sel, .. } | QDef::Frag { sel, .. } | QDef::Anon { sel } => sel,
    }
}

fn at_mut<'a>(doc: &'a mut QueryDoc, pos: &Pos) -> (&'a mut Vec<Sel>, usize) {
    let mut list: &mut Vec<Sel> = def_sels_mut(&mut doc.defs[pos.def]);
    for i in &pos.path[..pos.path.len() - 1] {
        list = match &mut list[*i] {
            Sel::Field { sub, .. } | Sel::Inline { sub, .. } => sub,
            _ => unreachable!(),
        };
    }
    (list, *pos.path.last().unwrap())
}

fn positions(p: &Program) -> Vec<(Pos, Sel)> {
    let (q, m, s) = p.schema.root_names();
    let mut out = vec![];
    for (di, d) in p.doc.defs.iter().enumerate() {
        match d {
            QDef::Op { kind, sel, .. } => {
                let root = match kind {
                    OpKind::Query => q.clone(),
                    OpKind::Mutation => m.clone(),
                    OpKind::Subscription => s.clone(),
                };
                if let Some(r) = root {
                    walk(&p.schema, sel, &r, di, &mut vec![], &mut out);
                }
            }
            QDef::Frag { on, sel, .. } => walk(&p.schema, sel, on, di, &mut vec![], &mut out),
            QDef::Anon { .. } => {}
        }
    }
    out
}

fn is_composite(schema: &SchemaDoc, t: &str) -> bool {
    matches!(schema.kind_of(t), "OBJECT" | "INTERFACE" | "UNION") && schema.defs.iter().any(|d| d.name() == t)
}

/// all type names of the schema that are composite
fn composites(schema: &SchemaDoc) -> Vec<String> {
    schema.defs.iter().filter(|d| !matches!(d, TypeDef::Extend { .. })).map(|d| d.name().to_string()).filter(|n| is_composite(schema, n)).collect()
}

pub const EDITS: [&str; 17] = [
    "unknown_field_aliased_typename",
    "subselection_on_leaf_aliased_typename",
    "subscription_same_field_twice",
    "subscription_two_root_fields_one_response_name",
    "field_renamed_in_schema",
    "typename_only_in_variant_fragment",
    "unknown_field",
    "subselection_on_leaf",
    "no_subselection_on_composite",
    "undefined_fragment",
    "unknown_type_condition",
    "impossible_type_condition",
    "missing_typename",
    "subscription_two_root_fields",
    "anonymous_operation",
    "unnamed_operation",
    "missing_root_type",
];

/// Some(edited program) if the edit is applicable somewhere
pub fn apply_edit(rng: &mut Rng, p: &Program, edit: &str) -> Option<Program> {
    let mut q = p.clone();
    let pos = positions(p);
    let pick = |rng: &mut Rng, cands: Vec<(Pos, Sel)>| -> Option<(Pos, Sel)> {
        if cands.is_empty() {
            None
        } else {
            Some(cands[rng.below(cands.len())].clone())
        }
    };
    match edit {
        "unknown_field" => {
            let c = pick(rng, pos.into_iter().filter(|(ps, s)| matches!(s, Sel::Field { name, .. } if name != "__typename") && p.schema.kind_of(&ps.parent_type) != "UNION").collect())?;
            let (list, i) = at_mut(&mut q.doc, &c.0);
            if let Sel::Field { name, .. } = &mut list[i] {
                *name = "noSuchFieldHere".into();
            }
        }
        // the same two mistakes hidden behind the ALIAS `__typename` (the meta field is recognised by its name,
        // not by the key it answers under)
        "unknown_field_aliased_typename" => {
            let c = pick(rng, pos.into_iter().filter(|(ps, s)| matches!(s, Sel::Field { name, .. } if name != "__typename") && p.schema.kind_of(&ps.parent_type) != "UNION").collect())?;
            let (list, i) = at_mut(&mut q.doc, &c.0);
            if let Sel::Field { name, alias, sub } = &mut list[i] {
                *name = "noSuchFieldHere".into();
                *alias = Some("__typename".into());
                sub.clear();
            }
        }
        "subselection_on_leaf_aliased_typename" => {
            let c = pick(rng, pos.into_iter().filter(|(ps, s)| match s {
                Sel::Field { name, sub, .. } if name != "__typename" && sub.is_empty() => fields_of(&p.schema, &ps.parent_type).iter().any(|f| &f.name == name && !is_composite(&p.schema, f.ty.name())),
                _ => false,
            }).collect())?;
            let (list, i) = at_mut(&mut q.doc, &c.0);
            if let Sel::Field { sub, alias, .. } = &mut list[i] {
                sub.push(Sel::field("name"));
                *alias = Some("__typename".into());
            }
        }
        // the SAME root field selected twice under two response names: two root fields
        "subscription_same_field_twice" => {
            let idx = q.doc.defs.iter().position(|d| matches!(d, QDef::Op { kind: OpKind::Subscription, .. }))?;
            if let QDef::Op { sel, .. } = &mut q.doc.defs[idx] {
                let first = sel.first().cloned()?;
                if let Sel::Field { name, sub, .. } = first {
                    sel.push(Sel::Field { alias: Some("againUnderAnotherName".into()), name, sub });
                } else {
                    return None;
                }
            }
        }
        // the query is left alone and the SCHEMA changes under it: the field it selects is renamed in the
        // parent type's definition (the same query file was valid a moment ago, against the original schema)
        "field_renamed_in_schema" => {
            let c = pick(rng, pos.into_iter().filter(|(ps, s)| matches!(s, Sel::Field { name, .. } if name != "__typename") && matches!(p.schema.kind_of(&ps.parent_type), "OBJECT" | "INTERFACE")).collect())?;
            let fname = if let Sel::Field { name, .. } = &c.1 { name.clone() } else { return None };
            let parent = c.0.parent_type.clone();
            let mut hit = false;
            for d in q.schema.defs.iter_mut() {
                match d {
                    TypeDef::Object { name, fields, .. } | TypeDef::Interface { name, fields } | TypeDef::Extend { name, fields, .. } if *name == parent => {
                        for f in fields.iter_mut() {
                            if f.name == fname {
                                f.name = format!("{}Renamed", fname);
                                hit = true;
                            }
                        }
                    }
                    _ => {}
                }
            }
            if !hit {
                return None;
            }
        }
        "subselection_on_leaf" => {
            let c = pick(rng, pos.into_iter().filter(|(ps, s)| match s {
                Sel::Field { name, sub, .. } if name != "__typename" && sub.is_empty() => fields_of(&p.schema, &ps.parent_type).iter().any(|f| &f.name == name && !is_composite(&p.schema, f.ty.name())),
                _ => false,
            }).collect())?;
            let (list, i) = at_mut(&mut q.doc, &c.0);
            if let Sel::Field { sub, .. } = &mut list[i] {
                sub.push(Sel::field("name"));
            }
        }
        "no_subselection_on_composite" => {
            let c = pick(rng, pos.into_iter().filter(|(_, s)| matches!(s, Sel::Field { sub, .. } if !sub.is_empty())).collect())?;
            let (list, i) = at_mut(&mut q.doc, &c.0);
            if let Sel::Field { sub, .. } = &mut list[i] {
                sub.clear();
            }
        }
        "undefined_fragment" => {
            let c = pick(rng, pos)?;
            let (list, i) = at_mut(&mut q.doc, &c.0);
            list.insert(i, Sel::Spread("UndefinedFragment".into()));
        }
        "unknown_type_condition" => {
            let c = pick(rng, pos)?;
            let (list, i) = at_mut(&mut q.doc, &c.0);
            list.insert(i, Sel::Inline { on: Some("NoSuchType".into()), sub: vec![Sel::typename()] });
        }
        "impossible_type_condition" => {
            // a composite type that is neither the parent, nor one of its possible types, nor a
            // type the parent is a possible type of
            let comps = composites(&p.schema);
            let mut cands = vec![];
            for (ps, s) in pos {
                for t in &comps {
                    let par = &ps.parent_type;
                    if t == par || possible_types(&p.schema, par).contains(t) || possible_types(&p.schema, t).contains(par) {
                        continue;
                    }
                    // both abstract with overlapping members would be valid GraphQL: skip
                    let pt = possible_types(&p.schema, par);
                    let tt = possible_types(&p.schema, t);
                    if pt.iter().any(|x| tt.contains(x)) {
                        continue;
                    }
                    cands.push((ps.clone(), s.clone(), t.clone()));
                }
            }
            if cands.is_empty() {
                return None;
            }
            let (ps, _, t) = cands[rng.below(cands.len())].clone();
            let sub = if p.schema.kind_of(&t) == "UNION" { vec![Sel::typename()] } else { vec![Sel::typename(), Sel::field(&fields_of(&p.schema, &t).first().map(|f| f.name.clone()).unwrap_or_else(|| "__typename".into()))] };
            let sub: Vec<Sel> = sub.into_iter().map(|s| match s { Sel::Field { name, .. } if is_composite(&p.schema, fields_of(&p.schema, &t).iter().find(|f| f.name == name).map(|f| f.ty.name().to_string()).unwrap_or_default().as_str()) => Sel::typename(), other => other }).collect();
            let (list, i) = at_mut(&mut q.doc, &ps);
            list.insert(i, Sel::Inline { on: Some(t), sub });
        }
        "missing_typename" => {
            // an abstract-typed field whose selection has a direct __typename and no same-type spread
            let c = pick(rng, pos.into_iter().filter(|(ps, s)| match s {
                Sel::Field { name, sub, .. } => {
                    let ft = fields_of(&p.schema, &ps.parent_type).iter().find(|f| &f.name == name).map(|f| f.ty.name().to_string());
                    match ft {
                        Some(t) => matches!(p.schema.kind_of(&t), "UNION" | "INTERFACE") && sub.iter().any(|x| matches!(x, Sel::Field { name, .. } if name == "__typename")) && !sub.iter().any(|x| matches!(x, Sel::Spread(_))),
                        None => false,
                    }
                }
                _ => false,
            }).collect())?;
            let (list, i) = at_mut(&mut q.doc, &c.0);
            if let Sel::Field { sub, .. } = &mut list[i] {
                sub.retain(|x| !matches!(x, Sel::Field { name, .. } if name == "__typename"));
                if sub.is_empty() {
                    return None;
                }
            }
        }
        "typename_only_in_variant_fragment" => {
            // the abstract selection loses its own __typename; a spread of a fragment on one of its
            // possible types (which does select __typename) is added instead
            let c = pick(rng, pos.into_iter().filter(|(ps, s)| match s {
                Sel::Field { name, sub, .. } => {
                    let ft = fields_of(&p.schema, &ps.parent_type).iter().find(|f| &f.name == name).map(|f| f.ty.name().to_string());
                    match ft {
                        Some(t) => matches!(p.schema.kind_of(&t), "UNION" | "INTERFACE") && !possible_types(&p.schema, &t).is_empty() && !sub.iter().any(|x| matches!(x, Sel::Spread(_))),
                        None => false,
                    }
                }
                _ => false,
            }).collect())?;
            let (abstract_type, variant) = match &c.1 {
                Sel::Field { name, .. } => {
                    let t = fields_of(&p.schema, &c.0.parent_type).iter().find(|f| &f.name == name).unwrap().ty.name().to_string();
                    let v = possible_types(&p.schema, &t)[0].clone();
                    (t, v)
                }
                _ => return None,
            };
            let _ = abstract_type;
            let (list, i) = at_mut(&mut q.doc, &c.0);
            if let Sel::Field { sub, .. } = &mut list[i] {
                sub.retain(|x| !matches!(x, Sel::Field { name, .. } if name == "__typename"));
                sub.insert(0, Sel::Spread("TypenameCarrier".into()));
            }
            q.doc.defs.push(QDef::Frag { name: "TypenameCarrier".into(), on: variant, sel: vec![Sel::typename()] });
        }
        "subscription_two_root_fields" => {
            let idx = q.doc.defs.iter().position(|d| matches!(d, QDef::Op { kind: OpKind::Subscription, .. }))?;
            if let QDef::Op { sel, .. } = &mut q.doc.defs[idx] {
                sel.push(Sel::Field { alias: Some("second".into()), name: "ticks".into(), sub: vec![] });
            }
        }
        // two root fields that answer under ONE response name (the second aliased to the name of the first):
        // still two root fields
        "subscription_two_root_fields_one_response_name" => {
            let idx = q.doc.defs.iter().position(|d| matches!(d, QDef::Op { kind: OpKind::Subscription, .. }))?;
            if let QDef::Op { sel, .. } = &mut q.doc.defs[idx] {
                let first = match sel.first() {
                    Some(Sel::Field { alias, name, .. }) => alias.clone().unwrap_or_else(|| name.clone()),
                    _ => return None,
                };
                sel.push(Sel::Field { alias: Some(first), name: "ticks".into(), sub: vec![] });
            }
        }
        "anonymous_operation" => {
            let idx = q.doc.defs.iter().position(|d| matches!(d, QDef::Op { kind: OpKind::Query, vars, .. } if vars.is_empty()))?;
            if let QDef::Op { sel, .. } = q.doc.defs[idx].clone() {
                q.doc.defs[idx] = QDef::Anon { sel };
            }
        }
        "unnamed_operation" => {
            let ops: Vec<usize> = q.doc.defs.iter().enumerate().filter(|(_, d)| matches!(d, QDef::Op { .. })).map(|x| x.0).collect();
            let idx = ops[rng.below(ops.len())];
            if let QDef::Op { name, .. } = &mut q.doc.defs[idx] {
                *name = None;
            }
        }
        "missing_root_type" => {
            let (_, m, s) = p.schema.root_names();
            let (kind, fieldname) = if m.is_none() { (OpKind::Mutation, "doIt") } else if s.is_none() { (OpKind::Subscription, "ticks") } else { return None };
            q.doc.defs.push(QDef::Op { kind, name: Some("ExtraOp".into()), vars: vec![], sel: vec![Sel::field(fieldname)] });
        }
        _ => return None,
    }
    // the edited program is generated in CLI mode without a selected operation, so that every
    // operation (and every fragment it uses) is exercised
    q.opts.cli_mode = true;
    q.opts.operation_name = None;
    q.opts.struct_name = None;
    Some(q)
}

pub fn run(outdir: &Path, tier: &str, seed: u64, shards: usize, replay: Option<String>) {
    runner::quiet_panics();
    let mut rng = Rng::new(seed ^ 0xC06);
    let n = if tier == "thorough" { 1500 } else { 100 };
    let mut cases = vec![];
    let mut dist = std::collections::BTreeMap::<String, usize>::new();
    let mut work: Vec<(Program, Option<String>)> = vec![];
    if let Some(rp) = replay {
        let v: serde_json::Value = serde_json::from_str(&std::fs::read_to_string(rp).unwrap()).unwrap();
        work.push((serde_json::from_value(v["case"]["program"].clone()).unwrap(), v["case"]["edit"].as_str().map(|s| s.to_string())));
    } else {
        for _ in 0..n {
            let mut p = progs::gen_program(&mut rng);
            p.opts.cli_mode = true;
            p.opts.operation_name = None;
            p.opts.struct_name = None;
            p.opts.query_file = None;
            work.push((p.clone(), None));
            for e in EDITS {
                // up to two positions per edit kind
                for _ in 0..2 {
                    if let Some(q) = apply_edit(&mut rng, &p, e) {
                        work.push((q, Some(e.to_string())));
                    }
                }
            }
        }
    }
    for (p, edit) in &work {
        let obs = gencase::observe(p, None);
        *dist.entry(format!("{}/{}", edit.clone().unwrap_or_else(|| "valid".into()), obs.class)).or_default() += 1;
        cases.push(Case {
            coq: format!("(mkCase {} {})", gencase::gcase(p, &obs), crate::coq::ostr(edit)),
            desc: json!({"program": p, "edit": edit, "schema": p.schema.render_sdl(), "query": p.doc.render(), "observed": obs.class, "detail": obs.detail.chars().take(200).collect::<String>()}),
            key: format!("{}|{}|{:?}", p.schema.render_sdl(), p.doc.render(), edit),
            nontrivial: edit.is_some(),
        });
    }
    let samples: Vec<_> = cases.iter().step_by((cases.len() / 6).max(1)).map(|c| json!({"edit": c.desc["edit"], "query": c.desc["query"], "observed": c.desc["observed"], "detail": c.desc["detail"]})).collect();
    let cs = CaseSet {
        run_module: "RunC06".into(),
        cases,
        checkers: vec!["corr".into(), "prop_rejected".into(), "known_composite_without_subselection".into(), "original_accepted".into()],
        extra_imports: vec!["TypeExpr".into(), "Schema".into(), "Query".into(), "Attrs".into(), "Codegen".into(), "RunGen".into()],
        preludes: vec![],
    };
    cs.write(outdir, shards, json!({
        "rule": "valid random programs (schemas with objects, interfaces, unions, enums, custom scalars, inputs; 1-3 operations, 0-3 fragments) and, for each, up to two applications of each of the 11 single invalidating edits of the rule catalogue at a random applicable position at any depth (inside fragments and inline fragments included). Non-trivial = an edited program.",
        "distribution": dist, "samples": samples,
    }));
    runner::cleanup_scratch();
}
