//! Running one generated program through the real library and rendering the observation as a
//! `RunGen.gcase` term.
use crate::coq;
use crate::gql::*;
use crate::items::RModule;
use crate::progs::Program;
use crate::runner::{self, Outcome};

pub struct Observed {
    pub coq: String,
    pub class: &'static str,
    pub modules: Option<Vec<RModule>>,
    pub tokens: Option<String>,
    pub detail: String,
}

/// format: "sdl" or a JSON variant
pub fn observe(p: &Program, json: Option<&JsonVariant>) -> Observed {
    let text = p.doc.render();
    let (schema_text, ext) = match json {
        None => (p.schema.render_sdl(), "graphql"),
        Some(v) => (p.schema.render_json(v), "json"),
    };
    // Before the call under observation, the same query FILE meets a decoy schema: the same
    // definitions in reverse order (every type and field keeps its name and gets another index).
    // Whatever the library remembers from that call must not leak into the next one.
    if json.is_none() && p.schema.defs.len() > 1 {
        let mut decoy = p.schema.clone();
        decoy.defs.reverse();
        let _ = runner::generate(&decoy.render_sdl(), ext, &text, &p.opts);
    }
    observe_text(p, &schema_text, ext)
}

/// the same observation on a schema TEXT given by the caller (renderings the AST does not express)
pub fn observe_text(p: &Program, schema_text: &str, ext: &str) -> Observed {
    let text = p.doc.render();
    let oc = runner::generate(schema_text, ext, &text, &p.opts);
    match &oc {
        Outcome::Ok(ts) => match runner::modules(&oc) {
            Ok(mut ms) => {
                for m in ms.iter_mut() {
                    if m.query == text {
                        m.query = "<same>".into();
                    }
                }
                let c = format!("(GOk {})", coq::list(&ms, |m| format!("\n    {}", m.to_coq())));
                Observed { coq: c, class: "ok", modules: Some(ms), tokens: Some(ts.to_string()), detail: String::new() }
            }
            Err(e) => Observed { coq: "GUnparsable".into(), class: "unparsable", modules: None, tokens: Some(ts.to_string()), detail: e },
        },
        Outcome::Err(e) => Observed { coq: "GErr".into(), class: "err", modules: None, tokens: None, detail: e.clone() },
        Outcome::Panic(e) => Observed { coq: "GPanic".into(), class: "panic", modules: None, tokens: None, detail: e.clone() },
    }
}

pub fn gcase(p: &Program, obs: &Observed) -> String {
    format!("(mkG {}\n   {}\n   {}\n   {})", p.schema.to_coq(), p.doc.to_coq(), p.opts.to_coq(), obs.coq)
}
