//! C01 (conforming payloads deserialize losslessly) and C03 (corrupted payloads are rejected):
//! random programs through the real generator, compiled in a consumer crate, driven with payload
//! vectors; the Coq side re-derives the items from the generator model, runs Serde.v on them and
//! judges the observations against the specification Conform.v.
use crate::consumer::Consumer;
use crate::gencase;
use crate::out::{Case, CaseSet};
use crate::progs;
use crate::resp::{self, Prepared};
use crate::rng::Rng;
use crate::runner;
use serde_json::{json, Value};
use std::path::Path;

pub fn run(outdir: &Path, tier: &str, seed: u64, shards: usize, replay: Option<String>, prop: &str) {
    runner::quiet_panics();
    let mut rng = Rng::new(seed ^ if prop == "C01" { 0xC01 } else { 0xC03 });
    let thorough = tier == "thorough";
    let nprog = if thorough { 160 } else { 32 };
    let (n_conf, n_corr) = match (prop, thorough) {
        ("C01", false) => (5, 0),
        ("C01", true) => (10, 0),
        (_, false) => (1, 14),
        (_, true) => (2, 30),
    };
    let mut dist = std::collections::BTreeMap::<String, usize>::new();
    let mut cons = Consumer::new(&prop.to_lowercase(), true);
    let mut prepared: Vec<Prepared> = vec![];
    let programs: Vec<progs::Program> = if let Some(rp) = &replay {
        let v: Value = serde_json::from_str(&std::fs::read_to_string(rp).unwrap()).unwrap();
        vec![serde_json::from_value(v["case"]["program"].clone()).unwrap()]
    } else {
        let mut ps = crate::c01dir::directed();
        let mut extra = crate::c01dir::snake_case_types();
        extra.extend(crate::c01dir::explicit_builtin_scalars().into_iter().take(1));
        // the random programs are in addition to the directed ones (quick: 18, thorough: 146)
        let nprog = ps.len() + extra.len() + nprog - 14;
        ps.extend(extra);
        let mut tries = 0;
        while ps.len() < nprog && tries < nprog * 4 {
            tries += 1;
            let mut p = progs::gen_program(&mut rng);
            resp::response_opts(&mut rng, &mut p);
            ps.push(p);
        }
        ps
    };
    let mut rejected: Vec<(progs::Program, gencase::Observed)> = vec![];
    for p in programs {
        match resp::prepare(&mut cons, p.clone()) {
            Some(pr) => prepared.push(pr),
            None => {
                // kept as a case without vectors: the generator model must agree that it is rejected
                *dist.entry("program/not generated (rejected by the library)".into()).or_default() += 1;
                let obs = gencase::observe(&p, None);
                rejected.push((p, obs));
            }
        }
    }
    let built = cons.build();
    if !built {
        eprintln!("{}: consumer crate did not build: {}", prop, cons.build_log.lines().take(5).collect::<Vec<_>>().join(" | "));
    }
    // vectors
    let mut all_vectors = vec![];
    let mut per_prog = vec![];
    for pr in &prepared {
        let vs = if let Some(rp) = &replay {
            // replay: the recorded vectors
            let v: Value = serde_json::from_str(&std::fs::read_to_string(rp).unwrap()).unwrap();
            v["case"]["vectors"].as_array().cloned().unwrap_or_default().iter().map(|x| resp::Vector {
                label: x["label"].as_str().unwrap_or("").to_string(),
                payload: resp::J::from_value(&x["payload"]),
                probe: None,
                site: None,
            }).collect()
        } else {
            resp::vectors_for(&mut rng, &pr.p, &pr.op, n_conf, n_corr, &mut dist)
        };
        for v in &vs {
            all_vectors.push((pr.idx, "resp".to_string(), v.payload.text()));
        }
        per_prog.push(vs);
    }
    let results = if built { cons.run(&all_vectors) } else { all_vectors.iter().map(|_| "NOBIN".to_string()).collect() };
    let mut k = 0;
    let mut cases = vec![];
    for (pr, vs) in prepared.iter().zip(per_prog.iter()) {
        let compiled = built && cons.status[pr.idx].is_ok();
        if !compiled {
            *dist.entry("program/does not compile".into()).or_default() += 1;
        }
        let mut vcoq = vec![];
        let mut vdesc = vec![];
        for v in vs {
            let line = &results[k];
            k += 1;
            let obs = resp::sobs_coq(compiled, line);
            *dist.entry(format!("observed/{}/{}", v.label.split(':').next().unwrap_or(""), obs.split(' ').next().unwrap_or("").trim_start_matches('('))).or_default() += 1;
            vcoq.push(resp::vector_coq(v, &obs));
            vdesc.push(json!({"label": v.label, "site": v.site, "payload": v.payload.to_value(), "payload_text": v.payload.text(), "observed": line}));
        }
        cases.push(Case {
            coq: format!("(mkR {}\n  {} {}\n  [{}])", gencase::gcase(&pr.p, &pr.obs), crate::coq::s(&pr.op), crate::coq::b(pr.with_ser), vcoq.join(";\n   ")),
            desc: json!({"program": pr.p, "schema": pr.p.schema.render_sdl(), "query": pr.p.doc.render(), "operation": pr.op, "vectors": vdesc,
                         "compile_errors": cons.status.get(pr.idx).and_then(|s| s.as_ref().err().cloned())}),
            key: format!("{}|{}|{}", pr.p.schema.render_sdl(), pr.p.doc.render(), pr.op),
            nontrivial: !vs.is_empty(),
        });
    }
    for (p, obs) in &rejected {
        cases.push(Case {
            coq: format!("(mkR {}\n  \"\" false [])", gencase::gcase(p, obs)),
            desc: json!({"program": p, "schema": p.schema.render_sdl(), "query": p.doc.render(), "operation": null, "vectors": [], "rejected": obs.detail}),
            key: format!("{}|{}|rejected", p.schema.render_sdl(), p.doc.render()),
            nontrivial: false,
        });
    }
    let samples: Vec<_> = cases.iter().take(2).map(|c| json!({"schema": c.desc["schema"], "query": c.desc["query"], "operation": c.desc["operation"], "first_vectors": c.desc["vectors"].as_array().map(|a| a.iter().take(3).cloned().collect::<Vec<_>>())})).collect();
    let checkers: Vec<String> = if prop == "C01" { vec!["corr_gen", "corr_serde", "corr_cert", "corr_spec", "prop_c01", "known_field_merging", "info_uncertified"] } else { vec!["corr_gen", "corr_serde", "corr_exact", "corr_spec", "prop_c03", "known_field_merging", "info_rejection_not_proved"] }.into_iter().map(|s| s.to_string()).collect();
    let cs = CaseSet {
        run_module: "RunResp".into(),
        cases,
        checkers,
        extra_imports: vec!["Json".into(), "TypeExpr".into(), "Schema".into(), "Query".into(), "Attrs".into(), "Codegen".into(), "RunSerde".into(), "RunGen".into()],
        preludes: vec![],
    };
    cs.write(outdir, shards, json!({
        "rule": "directed programs (recursive / nested fragments, fragments on interfaces and unions spread under objects and vice versa, aliases, lists of abstract types) + random programs (progs.rs) generated by the real library and compiled in a consumer crate with custom scalars as serde_json::Value; per operation: conforming payloads from a generator that mirrors CollectFields/CompleteValue (every runtime type at abstract positions, null 1/4 at nullable positions, list lengths 0/1/2/3, scalar boundary values, ID as string or integer, keys shuffled) — each re-checked by Conform.conforms — and their single-point corruptions (null / deleted key at non-null positions, non-list at list positions, wrong kind per scalar / enum / object, unknown and swapped __typename).",
        "distribution": dist, "samples": samples,
    }));
    cons.cleanup();
    runner::cleanup_scratch();
}
