//! Rendering of values as Gallina terms.
pub fn s(x: &str) -> String {
    let mut o = String::with_capacity(x.len() + 2);
    o.push('"');
    for c in x.chars() {
        if c == '"' {
            o.push_str("\"\"");
        } else {
            o.push(c);
        }
    }
    o.push('"');
    o
}
pub fn list<T>(xs: &[T], f: impl Fn(&T) -> String) -> String {
    let v: Vec<String> = xs.iter().map(|x| f(x)).collect();
    format!("[{}]", v.join("; "))
}
pub fn strs(xs: &[String]) -> String {
    list(xs, |x| s(x))
}
pub fn opt<T>(x: &Option<T>, f: impl Fn(&T) -> String) -> String {
    match x {
        None => "None".to_string(),
        Some(v) => format!("(Some {})", f(v)),
    }
}
pub fn ostr(x: &Option<String>) -> String {
    opt(x, |v| s(v))
}
pub fn b(x: bool) -> &'static str {
    if x {
        "true"
    } else {
        "false"
    }
}
pub fn z(x: i128) -> String {
    if x < 0 {
        format!("({})%Z", x)
    } else {
        format!("{}%Z", x)
    }
}

/// serde_json value -> Gallina `json` term
pub fn json(v: &serde_json::Value) -> String {
    use serde_json::Value::*;
    match v {
        Null => "JNull".into(),
        Bool(x) => format!("(JBool {})", b(*x)),
        Number(n) => {
            if let Some(i) = n.as_i64() {
                format!("(JInt {})", z(i as i128))
            } else if let Some(u) = n.as_u64() {
                format!("(JInt {})", z(u as i128))
            } else {
                format!("(JFrac {})", s(&n.to_string()))
            }
        }
        String(x) => format!("(JStr {})", s(x)),
        Array(a) => format!("(JArr {})", list(a, |x| json(x))),
        Object(m) => {
            let items: Vec<std::string::String> = m.iter().map(|(k, v)| format!("({}, {})", s(k), json(v))).collect();
            format!("(JObj [{}])", items.join("; "))
        }
    }
}
