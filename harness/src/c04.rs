//! C04: Variables serialize to exactly the declared variables, validly typed; every valid
//! assignment is expressible.  Variables values are built by deserializing reference assignments
//! (variables_derives = Deserialize) inside a compiled consumer crate, then sent through
//! `Op::build_query` and `serde_json::to_value`.
use crate::consumer::{Consumer, Module};
use crate::coq;
use crate::gencase;
use crate::gql::*;
use crate::out::{Case, CaseSet};
use crate::progs::{self, Program};
use crate::resp::{self, J};
use crate::rng::Rng;
use crate::runner;
use serde_json::{json, Value};
use std::collections::BTreeMap;
use std::path::Path;

pub struct InGen<'a> {
    pub schema: &'a SchemaDoc,
    pub failed: bool,
    pub dist: BTreeMap<String, usize>,
    /// put a string that is not a value of the enum at enum positions
    pub foreign_enum: bool,
}

impl<'a> InGen<'a> {
    fn bump(&mut self, k: &str) {
        *self.dist.entry(k.to_string()).or_default() += 1;
    }
    fn input_def(&self, n: &str) -> Option<(Vec<(String, GType)>, bool)> {
        self.schema.defs.iter().find_map(|d| if let TypeDef::Input { name, fields, one_of } = d { if name == n { Some((fields.clone(), *one_of)) } else { None } } else { None })
    }
    fn enum_values(&self, n: &str) -> Vec<String> {
        self.schema.defs.iter().find_map(|d| if let TypeDef::Enum { name, values } = d { if name == n { Some(values.clone()) } else { None } } else { None }).unwrap_or_default()
    }
    /// None = leave the member out
    pub fn value(&mut self, rng: &mut Rng, ty: &GType, nullable: bool, depth: usize, may_omit: bool) -> Option<J> {
        match ty {
            GType::NonNull(u) => self.value(rng, u, false, depth, false),
            _ if nullable && (depth > 4 || rng.chance(1, 3)) => {
                if may_omit && rng.chance(1, 2) {
                    self.bump("nullable member/absent");
                    None
                } else {
                    self.bump("nullable member/null");
                    Some(J::Null)
                }
            }
            GType::List(u) => {
                let n = if depth > 4 { 0 } else { [0, 1, 2, 3][rng.below(4)] };
                self.bump(&format!("list length/{}", if n >= 2 { "n".into() } else { n.to_string() }));
                let mut items = vec![];
                for _ in 0..n {
                    items.push(self.value(rng, u, true, depth + 1, false).unwrap_or(J::Null));
                }
                Some(J::Arr(items))
            }
            GType::Named(n) => {
                self.bump("nullable member/some");
                match self.schema.kind_of(n) {
                    "SCALAR" => Some(match n.as_str() {
                        "Int" => J::Int([0i128, -1, 7, i32::MAX as i128, i32::MIN as i128, 1i128 << 40][rng.below(6)]),
                        "Float" => J::Frac(serde_json::to_string(&[0.5f64, -2.25, 1.0e-3][rng.below(3)]).unwrap()),
                        "String" => J::Str(["", "text", "h\u{e9}", "\"q\""][rng.below(4)].to_string()),
                        "Boolean" => J::Bool(rng.chance(1, 2)),
                        "ID" => J::Str(["id-1", "42", ""][rng.below(3)].to_string()),
                        _ => [J::Str("2020-01-01".into()), J::Int(3), J::Obj(vec![("k".into(), J::Bool(true))]), J::Arr(vec![J::Int(1)])][rng.below(4)].clone(),
                    }),
                    "ENUM" => {
                        let vs = self.enum_values(n);
                        if self.foreign_enum {
                            self.bump("enum/foreign value");
                            Some(J::Str("NOT_IN_SCHEMA".into()))
                        } else if vs.is_empty() {
                            self.failed = true;
                            None
                        } else {
                            Some(J::Str(vs[rng.below(vs.len())].clone()))
                        }
                    }
                    "INPUT_OBJECT" => {
                        let (fields, one_of) = match self.input_def(n) {
                            Some(x) => x,
                            None => {
                                self.failed = true;
                                return None;
                            }
                        };
                        if depth > 7 {
                            self.failed = true;
                            return None;
                        }
                        if one_of {
                            self.bump("input/@oneOf");
                            if fields.is_empty() {
                                self.failed = true;
                                return None;
                            }
                            let (k, t) = fields[rng.below(fields.len())].clone();
                            // the chosen member must not be null
                            let inner = GType::nn(strip_nn(&t));
                            let v = self.value(rng, &inner, false, depth + 1, false)?;
                            Some(J::Obj(vec![(k, v)]))
                        } else {
                            self.bump("input/object");
                            let mut m = vec![];
                            for (k, t) in &fields {
                                if let Some(v) = self.value(rng, t, true, depth + 1, true) {
                                    m.push((k.clone(), v));
                                }
                            }
                            if rng.chance(1, 2) {
                                rng.shuffle(&mut m);
                            }
                            Some(J::Obj(m))
                        }
                    }
                    _ => {
                        self.failed = true;
                        None
                    }
                }
            }
        }
    }
}

fn strip_nn(t: &GType) -> GType {
    match t {
        GType::NonNull(u) => (**u).clone(),
        other => other.clone(),
    }
}

pub fn assignment(rng: &mut Rng, schema: &SchemaDoc, vars: &[VarDef], foreign_enum: bool, dist: &mut BTreeMap<String, usize>) -> Option<J> {
    let mut g = InGen { schema, failed: false, dist: BTreeMap::new(), foreign_enum };
    let mut m = vec![];
    for v in vars {
        // a defaulted variable may be left out as well
        let may_omit = !v.ty.is_nonnull() || v.default.is_some();
        if v.default.is_some() && rng.chance(1, 3) {
            continue;
        }
        if let Some(x) = g.value(rng, &v.ty, true, 0, may_omit) {
            m.push((v.name.clone(), x));
        }
    }
    if g.failed {
        return None;
    }
    for (k, v) in g.dist {
        *dist.entry(k).or_default() += v;
    }
    if rng.chance(1, 2) {
        rng.shuffle(&mut m);
    }
    Some(J::Obj(m))
}

/// paths of the non-null positions of an assignment (variables and input-object members)
fn nonnull_sites(schema: &SchemaDoc, ty: &GType, j: &J, path: &mut Vec<resp::PE>, member: bool, out: &mut Vec<(Vec<resp::PE>, bool)>) {
    match ty {
        GType::NonNull(u) => {
            // a custom scalar is the consumer's type (serde_json::Value here takes null): not probed
            let custom = matches!(&**u, GType::Named(n) if schema.kind_of(n) == "SCALAR" && !BUILTIN.contains(&n.as_str()));
            if !custom {
                out.push((path.clone(), member));
            }
            nonnull_sites(schema, u, j, path, member, out);
        }
        GType::List(u) => {
            if let J::Arr(items) = j {
                for (i, x) in items.iter().enumerate() {
                    path.push(resp::PE::Idx(i));
                    nonnull_sites(schema, u, x, path, false, out);
                    path.pop();
                }
            }
        }
        GType::Named(n) => {
            if let (J::Obj(m), "INPUT_OBJECT") = (j, schema.kind_of(n)) {
                let def = schema.defs.iter().find_map(|d| if let TypeDef::Input { name, fields, one_of } = d { if name == n { Some((fields.clone(), *one_of)) } else { None } } else { None });
                if let Some((fields, one_of)) = def {
                    if one_of {
                        return;
                    }
                    for (k, t) in &fields {
                        if let Some((_, v)) = m.iter().find(|(k2, _)| k2 == k) {
                            path.push(resp::PE::Key(k.clone()));
                            nonnull_sites(schema, t, v, path, true, out);
                            path.pop();
                        }
                    }
                }
            }
        }
    }
}

pub fn op_vars(p: &Program, op: &str) -> Vec<VarDef> {
    p.doc.defs.iter().find_map(|d| if let QDef::Op { name: Some(n), vars, .. } = d { if n == op { Some(vars.clone()) } else { None } } else { None }).unwrap_or_default()
}

pub fn variables_opts(rng: &mut Rng, p: &mut Program) {
    resp::response_opts(rng, p);
    p.opts.variables_derives = Some(["Deserialize", "Deserialize, Debug", "Debug,Deserialize,Clone,PartialEq"][rng.below(3)].to_string());
    p.opts.response_derives = None;
}

/// dispatch expression: Variables from JSON, through build_query, the `variables` member of the body
pub fn variables_expr(module: &str, struct_name: &str) -> String {
    format!(
        "match serde_json::from_str::<w::{m}::Variables>(json) {{ Ok(v) => {{ let body = <w::{s} as graphql_client::GraphQLQuery>::build_query(v); match serde_json::to_value(&body) {{ Ok(val) => format!(\"OK {{}}\", crate::canon(&val[\"variables\"])), Err(e) => format!(\"SERERR {{}}\", e) }} }}, Err(e) => format!(\"ERR {{}}\", e) }}",
        m = module,
        s = struct_name
    )
}

pub fn run(outdir: &Path, tier: &str, seed: u64, shards: usize, replay: Option<String>) {
    runner::quiet_panics();
    let mut rng = Rng::new(seed ^ 0xC04);
    let thorough = tier == "thorough";
    let nprog = if thorough { 200 } else { 40 };
    let nvec = if thorough { 16 } else { 8 };
    let mut dist = BTreeMap::<String, usize>::new();
    let mut cons = Consumer::new("c04", true);
    struct Prep {
        p: Program,
        obs: gencase::Observed,
        op: String,
        idx: usize,
    }
    let mut prepared: Vec<Prep> = vec![];
    let mut rejected = vec![];
    let programs: Vec<Program> = if let Some(rp) = &replay {
        let v: Value = serde_json::from_str(&std::fs::read_to_string(rp).unwrap()).unwrap();
        vec![serde_json::from_value(v["case"]["program"].clone()).unwrap()]
    } else {
        // (the programs of known finding K14 — defaults of enum / input-object type — belong to C02's check)
        let mut ps: Vec<_> = crate::c04dir::directed().into_iter().filter(|p| !p.tags.iter().any(|t| t == "directed-defaults-k14")).collect();
        let mut tries = 0;
        while ps.len() < nprog && tries < nprog * 6 {
            tries += 1;
            let mut p = progs::gen_program(&mut rng);
            variables_opts(&mut rng, &mut p);
            // prefer operations that declare variables
            let op = p.opts.operation_name.clone().unwrap_or_default();
            if op_vars(&p, &op).is_empty() && rng.chance(9, 10) {
                continue;
            }
            ps.push(p);
        }
        ps
    };
    for p in programs {
        let obs = gencase::observe(&p, None);
        match (&obs.modules, &obs.tokens) {
            (Some(ms), Some(tokens)) if !ms.is_empty() => {
                let m = &ms[0];
                let struct_name = m.struct_decl.as_ref().map(|d| d.0.clone()).unwrap_or_else(|| m.impl_for.clone());
                let idx = cons.add(Module {
                    code: tokens.clone(),
                    prelude: resp::scalar_prelude(&p.schema),
                    exposed: vec![],
                    custom: vec![("vars".into(), variables_expr(&m.name, &struct_name))],
                    outer: String::new(),
                });
                prepared.push(Prep { op: m.operation_name.clone(), p, obs, idx });
            }
            _ => {
                *dist.entry("program/not generated (rejected by the library)".into()).or_default() += 1;
                rejected.push((p, obs));
            }
        }
    }
    let built = cons.build();
    if !built {
        eprintln!("c04: consumer crate did not build: {}", cons.build_log.lines().take(5).collect::<Vec<_>>().join(" | "));
    }
    let mut all = vec![];
    let mut per_prog: Vec<Vec<(String, J)>> = vec![];
    for pr in &prepared {
        let vars = op_vars(&pr.p, &pr.op);
        let mut vs: Vec<(String, J)> = vec![];
        if let Some(rp) = &replay {
            let v: Value = serde_json::from_str(&std::fs::read_to_string(rp).unwrap()).unwrap();
            for x in v["case"]["vectors"].as_array().cloned().unwrap_or_default() {
                vs.push((x["label"].as_str().unwrap_or("").to_string(), J::from_value(&x["input"])));
            }
        } else if vars.is_empty() {
            vs.push(("valid".into(), J::Null));
        } else {
            for _ in 0..nvec {
                if let Some(a) = assignment(&mut rng, &pr.p.schema, &vars, false, &mut dist) {
                    vs.push(("valid".into(), a));
                }
            }
        }
        // single-point corruptions: null at / removal of a non-null variable or input-object member
        if replay.is_none() {
            let base: Vec<J> = vs.iter().take(2).map(|(_, a)| a.clone()).collect();
            for a in base {
                let mut sites = vec![];
                if let J::Obj(m) = &a {
                    for v in &vars {
                        if let Some((_, x)) = m.iter().find(|(k, _)| k == &v.name) {
                            let mut path = vec![resp::PE::Key(v.name.clone())];
                            nonnull_sites(&pr.p.schema, &v.ty, x, &mut path, v.default.is_none(), &mut sites);
                        }
                    }
                }
                rng.shuffle(&mut sites);
                for (path, member) in sites.into_iter().take(3) {
                    let mut q = a.clone();
                    if resp::set_at(&mut q, &path, Some(J::Null)) {
                        *dist.entry("corrupt/null at non-null input position".into()).or_default() += 1;
                        vs.push(("corrupt:null at non-null".into(), q));
                    }
                    if member {
                        let mut q = a.clone();
                        if resp::set_at(&mut q, &path, None) {
                            *dist.entry("corrupt/non-null input member removed".into()).or_default() += 1;
                            vs.push(("corrupt:non-null member removed".into(), q));
                        }
                    }
                }
            }
        }
        for (_, a) in &vs {
            all.push((pr.idx, "vars".to_string(), a.text()));
        }
        per_prog.push(vs);
    }
    // a second stream, in cases of its own: enum values outside the schema (the catch-all variant)
    let mut foreign: Vec<(usize, Vec<(String, J)>)> = vec![];
    if replay.is_none() {
        for (k, pr) in prepared.iter().enumerate() {
            let vars = op_vars(&pr.p, &pr.op);
            let uses_enum = vars.iter().any(|v| pr.p.schema.kind_of(v.ty.name()) == "ENUM");
            if !uses_enum {
                continue;
            }
            let mut vs = vec![];
            for _ in 0..2 {
                if let Some(a) = assignment(&mut rng, &pr.p.schema, &vars, true, &mut BTreeMap::new()) {
                    vs.push(("other_enum".to_string(), a));
                }
            }
            for (_, a) in &vs {
                all.push((pr.idx, "vars".to_string(), a.text()));
            }
            foreign.push((k, vs));
        }
    }
    let results = if built { cons.run(&all) } else { all.iter().map(|_| "NOBIN".to_string()).collect() };
    let mut k = 0;
    let mut cases = vec![];
    let mut emit = |pr: &Prep, vs: &Vec<(String, J)>, k: &mut usize, cases: &mut Vec<Case>, dist: &mut BTreeMap<String, usize>, stream: &str| {
        let compiled = built && cons.status[pr.idx].is_ok();
        let mut vcoq = vec![];
        let mut vdesc = vec![];
        for (label, a) in vs {
            let line = &results[*k];
            *k += 1;
            let obs = resp::sobs_coq(compiled, line);
            *dist.entry(format!("observed/{}/{}", label, obs.split(' ').next().unwrap_or("").trim_start_matches('('))).or_default() += 1;
            vcoq.push(format!("(mkVV {} {} {})", coq::s(label), a.coq(), obs));
            vdesc.push(json!({"label": label, "input": a.to_value(), "input_text": a.text(), "observed": line}));
        }
        cases.push(Case {
            coq: format!("(mkVC {}\n  {}\n  [{}])", gencase::gcase(&pr.p, &pr.obs), coq::s(&pr.op), vcoq.join(";\n   ")),
            desc: json!({"program": pr.p, "schema": pr.p.schema.render_sdl(), "query": pr.p.doc.render(), "operation": pr.op, "stream": stream, "vectors": vdesc,
                         "compile_errors": cons.status.get(pr.idx).and_then(|s| s.as_ref().err().cloned())}),
            key: format!("{}|{}|{}|{}", pr.p.schema.render_sdl(), pr.p.doc.render(), pr.op, stream),
            nontrivial: !vs.is_empty(),
        });
    };
    for (pr, vs) in prepared.iter().zip(per_prog.iter()) {
        emit(pr, vs, &mut k, &mut cases, &mut dist, "valid assignments");
    }
    for (pi, vs) in &foreign {
        emit(&prepared[*pi], vs, &mut k, &mut cases, &mut dist, "enum values outside the schema");
    }
    for (p, obs) in &rejected {
        cases.push(Case {
            coq: format!("(mkVC {}\n  \"\" [])", gencase::gcase(p, obs)),
            desc: json!({"program": p, "schema": p.schema.render_sdl(), "query": p.doc.render(), "operation": null, "vectors": [], "rejected": obs.detail}),
            key: format!("{}|{}|rejected", p.schema.render_sdl(), p.doc.render()),
            nontrivial: false,
        });
    }
    let compile_errors: usize = prepared.iter().filter(|pr| !(built && cons.status[pr.idx].is_ok())).count();
    dist.insert("program/does not compile".into(), compile_errors);
    let samples: Vec<_> = cases.iter().take(2).map(|c| json!({"query": c.desc["query"], "operation": c.desc["operation"], "first_vectors": c.desc["vectors"].as_array().map(|a| a.iter().take(3).cloned().collect::<Vec<_>>())})).collect();
    let cs = CaseSet {
        run_module: "RunVars".into(),
        cases,
        checkers: ["corr_gen", "corr_serde", "corr_varcert", "corr_spec", "prop_c04", "known_enum_other", "info_var_uncertified"].iter().map(|s| s.to_string()).collect(),
        extra_imports: vec!["Json".into(), "TypeExpr".into(), "Schema".into(), "Query".into(), "Attrs".into(), "Codegen".into(), "RunSerde".into(), "RunGen".into()],
        preludes: vec![],
    };
    cs.write(outdir, shards, json!({
        "rule": "directed programs (every input type expression up to list depth 2 over scalars, custom scalars, enums, nested / recursive / @oneOf input objects; variables with defaults; keyword and camelCase names) + random programs; normalization and skip_serializing_none random; per operation: reference assignments (each nullable member null / absent / some, list lengths 0/1/2/3, @oneOf with each member, recursion to depth 7), deserialized into Variables in the compiled consumer crate, passed through Op::build_query and serde_json::to_value. A second stream puts a string outside the schema at enum positions (known class).",
        "distribution": dist, "samples": samples,
    }));
    cons.cleanup();
    runner::cleanup_scratch();
}
