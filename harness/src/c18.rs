//! C18: the attribute scanners of graphql_query_derive/src/attributes.rs, included from the
//! current working tree by #[path], run on generated `#[graphql(...)]` arrangements.
use crate::coq;
use crate::out::{Case, CaseSet};
use crate::rng::Rng;
use serde::{Deserialize, Serialize};
use serde_json::json;
use std::path::Path;

#[path = "/repo/graphql_query_derive/src/attributes.rs"]
#[allow(dead_code, unused_imports)]
mod attributes;

#[derive(Clone, Debug, PartialEq, Serialize, Deserialize)]
pub enum Item {
    KV(String, String),
    Flag(String),
    KList(String, Vec<String>, bool),
}

impl Item {
    fn key(&self) -> &str {
        match self {
            Item::KV(k, _) | Item::Flag(k) | Item::KList(k, _, _) => k,
        }
    }
    fn to_coq(&self) -> String {
        match self {
            Item::KV(k, v) => format!("(KV {} {})", coq::s(k), coq::s(v)),
            Item::Flag(k) => format!("(Flag {})", coq::s(k)),
            Item::KList(k, vs, tr) => format!("(KList {} {} {})", coq::s(k), coq::strs(vs), coq::b(*tr)),
        }
    }
}

fn lit(v: &str, style: usize) -> String {
    match style % 3 {
        1 if !v.contains("\"#") && !v.contains('\r') => format!("r#\"{}\"#", v),
        2 => {
            // fully escaped: every char as \u{..}
            let mut o = String::from("\"");
            for c in v.chars() {
                o.push_str(&format!("\\u{{{:x}}}", c as u32));
            }
            o.push('"');
            o
        }
        _ => format!("{:?}", v),
    }
}

fn render(items: &[Item], trail: bool, style: usize, spacing: usize) -> String {
    let sp = match spacing % 3 {
        0 => " ",
        1 => "",
        _ => "\n      ",
    };
    let parts: Vec<String> = items
        .iter()
        .enumerate()
        .map(|(i, it)| match it {
            Item::KV(k, v) => format!("{}{}={}{}", k, sp, sp, lit(v, style + i)),
            Item::Flag(k) => k.clone(),
            Item::KList(k, vs, tr) => {
                let ls: Vec<String> = vs.iter().enumerate().map(|(j, v)| lit(v, style + i + j)).collect();
                format!("{}({}{})", k, ls.join(&format!(",{}", sp)), if *tr && !vs.is_empty() { "," } else { "" })
            }
        })
        .collect();
    let mut body = parts.join(&format!(",{}", sp));
    if trail && !items.is_empty() {
        body.push(',');
    }
    let extra = match spacing % 2 {
        0 => "#[derive(GraphQLQuery)]\n",
        _ => "#[derive(Debug, GraphQLQuery)]\n#[allow(dead_code)]\n",
    };
    format!("{}#[graphql({})]\n#[allow(unused)]\npub struct MyQuery;", extra, body)
}

const KEYS: [&str; 10] = [
    "schema_path",
    "query_path",
    "variables_derives",
    "response_derives",
    "custom_scalars_module",
    "extern_enums",
    "fragments_other_variant",
    "skip_serializing_none",
    "deprecated",
    "normalization",
];

fn canonical_item(k: &str, rng: &mut Rng) -> Item {
    let pick = |rng: &mut Rng, xs: &[&str]| xs[rng.below(xs.len())].to_string();
    match k {
        "extern_enums" => {
            let n = rng.below(4);
            Item::KList(k.into(), (0..n).map(|i| format!("Enum{}", i)).collect(), n > 0 && rng.chance(1, 2))
        }
        "skip_serializing_none" => Item::Flag(k.into()),
        "fragments_other_variant" => Item::KV(k.into(), pick(rng, &["true", "false", "TRUE", "yes", " true"])),
        "deprecated" => Item::KV(k.into(), pick(rng, &["allow", "deny", "warn", "WARN", " Deny ", "bogus", "Allow\t"])),
        "normalization" => Item::KV(k.into(), pick(rng, &["none", "rust", "Rust", "RUST ", "camel"])),
        "schema_path" | "query_path" => Item::KV(k.into(), pick(rng, &["src/schema.graphql", "q.graphql", "a b/c.json", "dir/\u{e9}.gql", "with\"quote.graphql"])),
        "custom_scalars_module" => Item::KV(k.into(), pick(rng, &["crate::scalars", "super", "a::b::c"])),
        _ => Item::KV(k.into(), pick(rng, &["Debug", "Debug, Clone", "Debug,PartialEq , Eq", "serde::Serialize", "a\\b", "x=y, z"])),
    }
}

fn odd_item(k: &str, rng: &mut Rng) -> Item {
    // the "wrong" syntactic form for a key: still an item with that key
    match rng.below(3) {
        0 => Item::Flag(k.into()),
        1 => Item::KList(k.into(), vec!["X".into(), "true".into()], rng.chance(1, 2)),
        _ => Item::KV(k.into(), "true".into()),
    }
}

fn permutations(keys: &[&'static str], k: usize, cur: &mut Vec<&'static str>, out: &mut Vec<Vec<&'static str>>) {
    if cur.len() == k {
        out.push(cur.clone());
        return;
    }
    for x in keys {
        if !cur.contains(x) {
            cur.push(x);
            permutations(keys, k, cur, out);
            cur.pop();
        }
    }
}

fn strat(ast: &syn::DeriveInput) -> String {
    use graphql_client_codegen::deprecation::DeprecationStrategy::*;
    match attributes::extract_deprecation_strategy(ast) {
        Ok(Allow) => "(Some DAllow)".into(),
        Ok(Warn) => "(Some DWarn)".into(),
        Ok(Deny) => "(Some DDeny)".into(),
        Err(_) => "None".into(),
    }
}

fn norm(ast: &syn::DeriveInput) -> String {
    use graphql_client_codegen::normalization::Normalization::*;
    match attributes::extract_normalization(ast) {
        Ok(None) => "(Some false)".into(),
        Ok(Rust) => "(Some true)".into(),
        Err(_) => "None".into(),
    }
}

pub fn run(outdir: &Path, tier: &str, seed: u64, shards: usize, replay: Option<String>) {
    crate::runner::quiet_panics();
    let mut rng = Rng::new(seed ^ 0xC18);
    let mut arrangements: Vec<(Vec<Item>, bool, usize, usize)> = vec![];
    if let Some(rp) = replay {
        let v: serde_json::Value = serde_json::from_str(&std::fs::read_to_string(rp).unwrap()).unwrap();
        let c = &v["case"];
        let items: Vec<Item> = serde_json::from_value(c["items"].clone()).unwrap();
        arrangements.push((items, c["trail"].as_bool().unwrap_or(false), c["style"].as_u64().unwrap_or(0) as usize, c["spacing"].as_u64().unwrap_or(0) as usize));
    } else {
        let maxk = if tier == "thorough" { 4 } else { 3 };
        for k in 0..=maxk {
            let mut ps = vec![];
            permutations(&KEYS, k, &mut vec![], &mut ps);
            for (i, p) in ps.into_iter().enumerate() {
                let items: Vec<Item> = p.iter().map(|key| canonical_item(key, &mut rng)).collect();
                arrangements.push((items, i % 2 == 0, i, i / 2));
            }
        }
        let nrand = if tier == "thorough" { 4000 } else { 500 };
        for i in 0..nrand {
            let n = 4 + rng.below(7);
            let mut keys: Vec<&str> = KEYS.to_vec();
            keys.push("unknown_key");
            keys.push("other");
            rng.shuffle(&mut keys);
            keys.truncate(n.min(keys.len()));
            let items: Vec<Item> = keys.iter().map(|k| if rng.chance(1, 5) { odd_item(k, &mut rng) } else { canonical_item(k, &mut rng) }).collect();
            arrangements.push((items, rng.chance(1, 2), i, rng.below(6)));
        }
    }
    let mut cases = vec![];
    let mut dist = std::collections::BTreeMap::<String, usize>::new();
    for (items, trail, style, spacing) in &arrangements {
        let src = render(items, *trail, *style, *spacing);
        let ast: syn::DeriveInput = match syn::parse_str(&src) {
            Ok(a) => a,
            Err(e) => {
                eprintln!("harness: unparsable arrangement {}: {}", src, e);
                continue;
            }
        };
        let ea = |k: &str| attributes::extract_attr(&ast, k).ok();
        let obs = format!(
            "(mkDopts {} {} {} {} {} {} {} {} {} {})",
            coq::ostr(&ea("variables_derives")),
            coq::ostr(&ea("response_derives")),
            coq::ostr(&ea("custom_scalars_module")),
            coq::opt(&attributes::extract_attr_list(&ast, "extern_enums").ok(), |v| coq::strs(v)),
            coq::b(attributes::extract_fragments_other_variant(&ast)),
            coq::b(attributes::extract_skip_serializing_none(&ast)),
            strat(&ast),
            norm(&ast),
            coq::ostr(&ea("query_path")),
            coq::ostr(&ea("schema_path"))
        );
        let mut probe_keys: Vec<String> = items.iter().map(|i| i.key().to_string()).collect();
        probe_keys.push("absent_key".into());
        let pa = coq::list(&probe_keys, |k| format!("({}, {})", coq::s(k), coq::ostr(&ea(k))));
        let pl = coq::list(&probe_keys, |k| format!("({}, {})", coq::s(k), coq::opt(&attributes::extract_attr_list(&ast, k).ok(), |v| coq::strs(v))));
        let pf = coq::list(&probe_keys, |k| format!("({}, {})", coq::s(k), coq::b(attributes::ident_exists(&ast, k).is_ok())));
        *dist.entry(format!("{} items{}", items.len(), if *trail { ", trailing comma" } else { "" })).or_default() += 1;
        cases.push(Case {
            coq: format!("(mkCase {} {} {} {} {} {} [])", coq::list(items, |i| i.to_coq()), coq::b(*trail), obs, pa, pl, pf),
            desc: json!({"items": items, "trail": trail, "style": style, "spacing": spacing, "source": src, "observed_options": obs}),
            key: src.clone(),
            nontrivial: items.len() >= 2,
        });
    }
    // real derives: which files does a path in the attribute designate?
    if arrangements.len() > 1 {
        let probes = path_probes();
        for (how, got) in &probes {
            *dist.entry(format!("path probe/{}/{}", how, got)).or_default() += 1;
        }
        let empty = "(mkDopts None None None None false false None None None None)";
        cases.push(Case {
            coq: format!("(mkCase [] false {} [] [] [] {})", empty, coq::list(&probes, |(h, g)| format!("({}, {})", coq::s(h), coq::s(g)))),
            desc: json!({"kind": "path probes", "items": [], "trail": false, "style": 0, "spacing": 0, "probes": probes}),
            key: "path probes".into(),
            nontrivial: true,
        });
    }
    let samples: Vec<_> = cases.iter().step_by((cases.len() / 6).max(1)).map(|c| c.desc.clone()).collect();
    let cs = CaseSet { run_module: "RunC18".into(), cases, checkers: vec!["corr".into(), "prop".into(), "wellformed".into()], extra_imports: vec!["Attrs".into()], preludes: vec![] };
    cs.write(
        outdir,
        shards,
        json!({
            "rule": "all arrangements (subsets x permutations) of up to 3 (thorough: 4) of the 10 recognised keys with alternating trailing comma, spacing and literal style (plain / raw / fully \\u-escaped), plus seeded random arrangements of 4-10 items incl. unknown keys and keys in the wrong syntactic form; surrounded by extra #[derive]/#[allow] attributes. Non-trivial = at least 2 items.",
            "exhaustive": false,
            "distribution": dist,
            "samples": samples,
        }),
    );
}


/// A workspace whose ROOT holds decoy `graphql/schema.graphql` / `graphql/query.graphql` (cargo runs
/// rustc from the workspace root) and whose member `consumer/` holds the real ones under the same
/// relative paths.  Each derive is followed by code that only compiles if the member's files were read.
fn path_probes() -> Vec<(String, String)> {
    use std::process::{Command, Stdio};
    let repo = std::env::var("VERIF_REPO").unwrap_or_else(|_| "/repo".into());
    let verif = std::env::var("VERIF_DIR").unwrap_or_else(|_| "/verif".into());
    let ws = crate::runner::scratch_dir().join("c18-ws");
    let _ = std::fs::remove_dir_all(&ws);
    let w = |rel: &str, text: &str| {
        let p = ws.join(rel);
        std::fs::create_dir_all(p.parent().unwrap()).unwrap();
        std::fs::write(p, text).unwrap();
    };
    w("Cargo.toml", "[workspace]\nmembers = [\"consumer\"]\nresolver = \"2\"\n");
    let _ = std::fs::copy(format!("{}/Cargo.lock", repo), ws.join("Cargo.lock"));
    // decoys at the workspace root, and one level above the member under another name
    w("graphql/schema.graphql", "type Query { rootField: Int }\n");
    w("graphql/query.graphql", "query Q { rootField }\n");
    w("shared/schema.graphql", "type Query { memberField: Int }\n");
    w("consumer/graphql/schema.graphql", "type Query { memberField: Int }\n");
    w("consumer/graphql/query.graphql", "query Q { memberField }\n");
    w("consumer/Cargo.toml", &format!("[package]\nname = \"consumer\"\nversion = \"0.1.0\"\nedition = \"2021\"\n\n[dependencies]\ngraphql_client = {{ path = \"{}/graphql_client\" }}\n", repo));
    let variants: Vec<(&str, &str, &str)> = vec![
        ("same relative path exists under the workspace root", "graphql/schema.graphql", "graphql/query.graphql"),
        ("./ prefix", "./graphql/schema.graphql", "./graphql/query.graphql"),
        ("schema reached through ..", "../shared/schema.graphql", "graphql/query.graphql"),
    ];
    let mut out = vec![];
    for (k, (how, sp, qp)) in variants.iter().enumerate() {
        let src = format!(
            "#![allow(warnings)]\nuse graphql_client::GraphQLQuery;\n#[derive(GraphQLQuery)]\n#[graphql(schema_path = {:?}, query_path = {:?})]\npub struct Q;\nfn main() {{ let d = q::ResponseData {{ member_field: Some(1) }}; let _ = d.member_field; }}\n",
            sp, qp
        );
        w("consumer/src/main.rs", &src);
        let o = Command::new("cargo")
            .args(["check", "--offline", "--quiet", "-p", "consumer"])
            .current_dir(&ws)
            .env("CARGO_TARGET_DIR", std::path::PathBuf::from(&verif).join(".cache").join("derive-target"))
            .env("CARGO_NET_OFFLINE", "true")
            .env("RUSTFLAGS", "-Awarnings")
            .stdout(Stdio::null())
            .stderr(Stdio::piped())
            .output();
        let got = match o {
            Ok(o) if o.status.success() => "manifest".to_string(),
            Ok(o) => {
                let e = String::from_utf8_lossy(&o.stderr).to_string();
                if e.contains("member_field") || e.contains("root_field") { "files under the compiler's working directory".to_string() } else { format!("error: {}", e.lines().find(|l| l.contains("error")).unwrap_or("").chars().take(120).collect::<String>()) }
            }
            Err(e) => format!("error: {}", e),
        };
        let _ = k;
        out.push((how.to_string(), got));
    }
    // ---- the real macro, end to end: each program below compiles and exits 0 only if every option written
    // in its #[graphql(...)] attribute was applied (alone, and together with the other options beside it).
    // This is the glue of graphql_query_derive/src/lib.rs, which the in-process part of this check mirrors.
    w("consumer/graphql/opts_schema.graphql", "scalar Stamp\nenum distance_unit { METER KM }\nenum Color { RED GREEN }\ninterface Shape { id: ID! }\ntype Circle implements Shape { id: ID! r: Int }\ntype Square implements Shape { id: ID! side: Int }\ninput Filter { name: String unit: distance_unit limit: Int }\ntype Query { unit: distance_unit! color: Color old: Int @deprecated(reason: \"gone\") fresh: Int at: Stamp shape: Shape find(f: Filter, u: distance_unit): Int }\n");
    w("consumer/graphql/opts_query.graphql", "query Opts($f: Filter, $u: distance_unit) { unit color old fresh at shape { __typename ... on Circle { r } } find(f: $f, u: $u) }\n");
    w("consumer/Cargo.toml", &format!("[package]\nname = \"consumer\"\nversion = \"0.1.0\"\nedition = \"2021\"\n\n[dependencies]\ngraphql_client = {{ path = \"{}/graphql_client\" }}\nserde = {{ version = \"1\", features = [\"derive\"] }}\nserde_json = \"1\"\n", repo));
    let prelude = "#![allow(warnings)]\n#![deny(unfulfilled_lint_expectations)]\nuse graphql_client::GraphQLQuery;\nuse serde::{Serialize, Deserialize};\ntype Stamp = String;\n";
    let payload_known = r#"{"unit":"KM","color":"RED","old":1,"fresh":2,"at":"now","shape":{"__typename":"Circle","r":2},"find":3}"#;
    let payload = r#"{"unit":"KM","color":"RED","old":1,"fresh":2,"at":"now","shape":{"__typename":"Triangle"},"find":3}"#;
    let paths = "schema_path = \"graphql/opts_schema.graphql\", query_path = \"graphql/opts_query.graphql\"";
    let option_probes: Vec<(&str, String)> = vec![
        // extern_enums beside normalization = rust: the listed (schema) name still designates the caller's type
        ("extern_enums + normalization = rust on an enum whose name normalization changes", format!(
            "{prelude}#[derive(Debug, Serialize, Deserialize, PartialEq)] pub enum DistanceUnit {{ METER, KM }}\n#[derive(GraphQLQuery)]\n#[graphql({paths}, normalization = \"rust\", extern_enums(\"distance_unit\"), response_derives = \"Debug\")]\npub struct Opts;\nfn main() {{ let d: opts::ResponseData = serde_json::from_str({payload_known:?}).unwrap_or_else(|e| {{ eprintln!(\"{{}}\", e); std::process::exit(3) }}); let u: DistanceUnit = d.unit; assert_eq!(u, DistanceUnit::KM); }}\n")),
        // no `deprecated` key: the documented default (warn) marks the field, whatever lints the struct allows
        ("default deprecation strategy beside #[allow(deprecated)] on the struct", format!(
            "{prelude}#[allow(deprecated)]\n#[derive(GraphQLQuery)]\n#[graphql({paths})]\npub struct Opts;\n#[expect(deprecated)]\nfn touch(d: &opts::ResponseData) -> Option<i64> {{ d.old }}\nfn main() {{ let d: opts::ResponseData = serde_json::from_str({payload_known:?}).unwrap_or_else(|e| {{ eprintln!(\"{{}}\", e); std::process::exit(3) }}); assert_eq!(touch(&d), Some(1)); }}\n")),
        // a flag beside a list-valued option in one attribute
        ("skip_serializing_none beside extern_enums(...)", format!(
            "{prelude}#[derive(Debug, Serialize, Deserialize, PartialEq)] pub enum distance_unit {{ METER, KM }}\n#[derive(GraphQLQuery)]\n#[graphql({paths}, extern_enums(\"distance_unit\"), skip_serializing_none)]\npub struct Opts;\nfn main() {{ let v = opts::Variables {{ f: Some(opts::Filter {{ name: Some(\"x\".into()), unit: None, limit: None }}), u: None }}; let s = serde_json::to_string(&v).unwrap(); if s != r#\"{{\"f\":{{\"name\":\"x\"}}}}\"# {{ eprintln!(\"{{}}\", s); std::process::exit(4) }} }}\n")),
        // every option at once
        ("all options in one attribute", format!(
            "{prelude}mod scalars {{ pub type Stamp = u8; }}\n#[derive(Debug, Serialize, Deserialize, PartialEq, Clone, Default)] pub enum Color {{ #[default] RED, GREEN }}\n#[derive(GraphQLQuery)]\n#[graphql({paths}, response_derives = \"Debug,Clone,PartialEq\", variables_derives = \"Debug,Default\", deprecated = \"deny\", normalization = \"rust\", custom_scalars_module = \"crate::scalars\", extern_enums(\"Color\"), fragments_other_variant = \"true\", skip_serializing_none)]\npub struct Opts;\nfn main() {{ let d: opts::ResponseData = serde_json::from_str(&{payload:?}.replace(\"\\\"now\\\"\", \"7\")).unwrap_or_else(|e| {{ eprintln!(\"{{}}\", e); std::process::exit(3) }}); let c: Option<Color> = d.color.clone(); let at: Option<u8> = d.at; let _ = d.clone() == d; match d.shape {{ Some(opts::OptsShape::Unknown) => (), _ => std::process::exit(5) }}; let _: opts::DistanceUnit = d.unit; let v = opts::Variables::default(); let s = serde_json::to_string(&v).unwrap(); if s != \"{{}}\" {{ eprintln!(\"{{}}\", s); std::process::exit(4) }} }}\n#[cfg(any())] fn never(d: opts::ResponseData) {{ let _ = d.old; }}\n")),
    ];
    for (how, src) in option_probes {
        w("consumer/src/main.rs", &src);
        let o = Command::new("cargo")
            .args(["run", "--offline", "--quiet", "-p", "consumer"])
            .current_dir(&ws)
            .env("CARGO_TARGET_DIR", std::path::PathBuf::from(&verif).join(".cache").join("derive-target"))
            .env("CARGO_NET_OFFLINE", "true")
            .env("RUSTFLAGS", "-Awarnings")
            .stdout(Stdio::null())
            .stderr(Stdio::piped())
            .output();
        let got = match o {
            Ok(o) if o.status.success() => "applied".to_string(),
            Ok(o) => {
                let e = String::from_utf8_lossy(&o.stderr).to_string();
                format!("not applied: {}", e.lines().find(|l| l.contains("error") || l.contains("panicked")).or_else(|| e.lines().last()).unwrap_or("").chars().take(160).collect::<String>())
            }
            Err(e) => format!("error: {}", e),
        };
        out.push((how.to_string(), got));
    }
    let _ = std::fs::remove_dir_all(&ws);
    out
}
