//! C05: operation selection, module constants, byte-exact QUERY, derive-mode error, request body.
use crate::coq;
use crate::gencase;
use crate::gql::*;
use crate::items;
use crate::out::{Case, CaseSet};
use crate::progs;
use crate::rng::Rng;
use crate::runner;
use serde_json::json;
use std::path::Path;

/// the same document with adversarial trivia: comments, CR LF, tabs, commas, non-ASCII
fn decorate(text: &str, kind: usize) -> String {
    match kind % 9 {
        0 => text.to_string(),
        // a UTF-8 byte order mark (editors on Windows write one; graphql_parser skips it as trivia)
        6 => format!("\u{feff}{}", text),
        7 => format!("\n\n  \n{}\n\n \t\n", text),
        8 => format!("\u{feff}{}", text.replace('\n', "\r\n")),
        1 => text.replace('\n', "\r\n"),
        2 => format!("# h\u{e9}llo \u{1F600} \"quotes\" \\back\\slash\\ \u{2003}wide space\n{}\n# trailing comment without newline", text),
        3 => text.replace("{\n", "{\t\n").replace("  ", "\t"),
        4 => text.replace('\n', "\r"),
        _ => text.replace("}\n\n", "}\n,,,\n\n# \u{4e2d}\u{6587}\n"),
    }
}

fn call_from_file(schema_text: &str, query_text: &str, opts: &Opts, n: usize) -> runner::Outcome {
    let dir = runner::scratch_dir();
    let sp = dir.join(format!("c05_schema_{}.graphql", n));
    let qp = dir.join(format!("c05_query_{}.graphql", n));
    std::fs::write(&sp, schema_text).unwrap();
    std::fs::write(&qp, query_text.as_bytes()).unwrap();
    let o = opts.clone();
    let qp2 = qp.clone();
    let sp2 = sp.clone();
    let r = std::panic::catch_unwind(move || graphql_client_codegen::generate_module_token_stream(qp2, &sp2, o.to_lib()).map_err(|e| e.to_string()));
    match r {
        Ok(Ok(ts)) => runner::Outcome::Ok(ts),
        Ok(Err(e)) => runner::Outcome::Err(e),
        Err(p) => runner::Outcome::Panic(runner::panic_msg(p)),
    }
}

pub fn run(outdir: &Path, tier: &str, seed: u64, shards: usize, replay: Option<String>) {
    runner::quiet_panics();
    let mut rng = Rng::new(seed ^ 0xC05);
    let mut cases = vec![];
    let mut dist = std::collections::BTreeMap::<String, usize>::new();
    let n = if tier == "thorough" { 1500 } else { 120 };
    let mut programs: Vec<progs::Program> = vec![];
    if let Some(rp) = replay {
        let v: serde_json::Value = serde_json::from_str(&std::fs::read_to_string(rp).unwrap()).unwrap();
        programs.push(serde_json::from_value(v["case"]["program"].clone()).unwrap());
    } else {
        for _ in 0..n {
            let mut p = progs::gen_program(&mut rng);
            // exercise the selection logic: matching, non-matching, matching only after normalization
            let names: Vec<String> = p.doc.defs.iter().filter_map(|d| if let QDef::Op { name: Some(n), .. } = d { Some(n.clone()) } else { None }).collect();
            use heck::ToUpperCamelCase;
            let pick = names[rng.below(names.len())].clone();
            let choice = match rng.below(6) {
                0 => None,
                1 => Some("NoSuchOperation".to_string()),
                2 => Some(pick.to_upper_camel_case()),
                3 => Some(pick.to_lowercase()),
                _ => Some(pick),
            };
            p.opts.operation_name = choice.clone();
            if !p.opts.cli_mode {
                p.opts.struct_name = choice.clone().or(Some("Unnamed".into()));
                if p.opts.operation_name.is_none() {
                    p.opts.operation_name = p.opts.struct_name.clone();
                }
            }
            programs.push(p);
        }
    }
    for (i, p) in programs.iter().enumerate() {
        let obs = gencase::observe(p, None);
        *dist.entry(format!("gen/{}/{}", if p.opts.cli_mode { "cli" } else { "derive" }, obs.class)).or_default() += 1;
        cases.push(Case {
            coq: format!("(CGen {})", gencase::gcase(p, &obs)),
            desc: json!({"kind": "gen", "program": p, "query": p.doc.render(), "operation_name": p.opts.operation_name, "mode": if p.opts.cli_mode { "cli" } else { "derive" }, "normalization_rust": p.opts.normalization_rust, "observed": obs.class, "detail": obs.detail}),
            key: format!("gen|{}|{:?}|{}|{}", p.doc.render(), p.opts.operation_name, p.opts.cli_mode, p.opts.normalization_rust),
            nontrivial: true,
        });
        // derive-mode error text
        if !p.opts.cli_mode && obs.class == "err" {
            let ops: Vec<String> = p.doc.defs.iter().filter_map(|d| if let QDef::Op { name: Some(n), .. } = d { Some(n.clone()) } else { None }).collect();
            let sn = p.opts.struct_name.clone().unwrap_or_default();
            *dist.entry("notfound".into()).or_default() += 1;
            cases.push(Case {
                coq: format!("(CNotFound {} {} {})", coq::strs(&ops), coq::s(&sn), coq::ostr(&Some(obs.detail.clone()))),
                desc: json!({"kind": "notfound", "operations": ops, "struct": sn, "message": obs.detail}),
                key: format!("nf|{}|{}", p.doc.render(), sn),
                nontrivial: true,
            });
        }
        // byte-exactness of QUERY through the file route (what the derive and the CLI use)
        if i % 4 == 0 || tier == "thorough" {
            for kind in 0..9 {
                let text = decorate(&p.doc.render(), kind);
                let mut o = p.opts.clone();
                o.cli_mode = true;
                o.operation_name = None;
                o.struct_name = None;
                let oc = call_from_file(&p.schema.render_sdl(), &text, &o, i * 10 + kind);
                let (nmods, all_eq) = match &oc {
                    // CLI form: the tokens are printed into a .rs file and compiled from there; rustc turns CR LF into
                    // LF when it reads a source file (inside raw string literals too), so the constant the consumer
                    // gets is the literal's value after that step
                    runner::Outcome::Ok(ts) => match syn::parse_file(&ts.to_string().replace("\r\n", "\n")).map_err(|e| e.to_string()).and_then(|f| items::conv_file(&f)) {
                        Ok(ms) => (ms.len(), ms.iter().all(|m| m.query.as_bytes() == text.as_bytes())),
                        Err(_) => (0, false),
                    },
                    _ => (0, false),
                };
                let kind_name = ["plain", "CRLF", "comments+non-ASCII", "tabs", "CR only", "commas+CJK comment", "byte order mark", "leading and trailing blank lines", "byte order mark + CRLF"][kind];
                *dist.entry(format!("text/{}/{}", kind_name, if all_eq { "equal" } else { "DIFFERENT" })).or_default() += 1;
                cases.push(Case {
                    coq: format!("(CText {} {}%N {})", coq::s(kind_name), nmods, coq::b(all_eq)),
                    desc: json!({"kind": "text", "trivia": kind_name, "text": text, "modules": nmods, "query_constants_equal_file_bytes": all_eq, "outcome": oc.class()}),
                    key: format!("text|{}|{}", kind, text),
                    nontrivial: kind != 0,
                });
            }
        }
    }
    // request body, in-process
    for (v, q, n) in [
        (json!(null), "query Q { a }", "Q"),
        (json!({"x": 1, "y": [null, "s"]}), "query  Other_name($x: Int) {\r\n  a\n}", "Other_name"),
        (json!({}), "# c\nsubscription s { t }", "s"),
    ] {
        let body = graphql_client::QueryBody { variables: v.clone(), query: Box::leak(q.to_string().into_boxed_str()), operation_name: Box::leak(n.to_string().into_boxed_str()) };
        let obs = serde_json::to_value(&body).unwrap();
        *dist.entry("body".into()).or_default() += 1;
        cases.push(Case {
            coq: format!("(CBody {} {} {} {})", coq::json(&v), coq::s(q), coq::s(n), coq::json(&obs)),
            desc: json!({"kind": "body", "observed": obs}),
            key: format!("body|{}", n),
            nontrivial: true,
        });
    }
    let samples: Vec<_> = cases.iter().step_by((cases.len() / 6).max(1)).map(|c| {
        let mut d = c.desc.clone();
        if let Some(o) = d.as_object_mut() { o.remove("program"); }
        d
    }).collect();
    let cs = CaseSet {
        run_module: "RunC05".into(),
        cases,
        checkers: vec!["corr".into(), "prop_select".into(), "prop_text".into(), "prop_notfound".into(), "prop_body".into()],
        extra_imports: vec!["Json".into(), "TypeExpr".into(), "Schema".into(), "Query".into(), "Attrs".into(), "Codegen".into(), "RunGen".into()],
        preludes: vec![],
    };
    cs.write(outdir, shards, json!({
        "rule": "random documents with 1-3 operations and 0-3 fragments in random order x selected name {none, matching, non-matching, matching only after normalization, lower-cased} x mode {derive, CLI/library} x normalization; QUERY constants compared byte-for-byte with the query FILE for nine trivia variants (plain, CR LF, CR only, tabs, comments with quotes / backslashes / non-ASCII / astral characters, commas + CJK, a leading byte order mark, leading / trailing blank lines, byte order mark + CR LF); derive-mode error text; request body serialised in-process.",
        "distribution": dist, "samples": samples,
    }));
    runner::cleanup_scratch();
}
