//! C11: every keyword x case style x name position x normalization, observed at token level.
use crate::coq;
use crate::gql::*;
use crate::items::{RItem, RModule};
use crate::out::{Case, CaseSet};
use crate::rng::Rng;
use crate::runner::{self, Outcome};
use heck::{ToSnakeCase, ToUpperCamelCase};
use serde_json::json;
use std::path::Path;

const POSITIONS: [&str; 8] = ["response", "alias", "variable", "input_field", "oneof", "enum_value", "frag_struct", "frag_variant"];

fn pos_coq(p: &str) -> &'static str {
    match p {
        "response" => "PResponse",
        "alias" => "PAlias",
        "variable" => "PVariable",
        "input_field" => "PInputField",
        "oneof" => "POneOf",
        "frag_struct" => "PFragStruct",
        "frag_variant" => "PFragVariant",
        _ => "PEnumValue",
    }
}

fn frag_name_usable(n: &str, kws: &[String]) -> bool {
    let mut cs = n.chars();
    let first_ok = cs.next().map(|c| c.is_ascii_alphabetic()).unwrap_or(false);
    first_ok && n.chars().all(|c| c.is_ascii_alphanumeric() || c == '_') && n != "on" && !kws.iter().any(|k| k == n)
        && !["Self", "self", "crate", "super", "true", "false", "null", "union", "macro_rules", "dyn", "async", "await", "try", "gen"].contains(&n)
        && !["Sub", "Other2", "Un", "Query", "Inp", "One", "En", "Q", "QZzsub", "QZzun", "QZzunOnSub", "QZzunOn", "Variables", "ResponseData", "Int", "ID", "String", "Float", "Boolean", "Box", "Option", "Vec", "Serialize", "Deserialize", "Result"].contains(&n)
}

fn valid_name(n: &str) -> bool {
    let mut cs = n.chars();
    match cs.next() {
        Some(c) if c == '_' || c.is_ascii_alphabetic() => {}
        _ => return false,
    }
    cs.all(|c| c == '_' || c.is_ascii_alphanumeric()) && !n.starts_with("__")
}

fn benign(pos: &str) -> &'static str {
    match pos {
        "response" => "plainresp",
        "alias" => "plainalias",
        "variable" => "plainvar",
        "input_field" => "plainin",
        "oneof" => "plainone",
        "frag_struct" | "frag_variant" => "plainfrag",
        _ => "PLAINVAL",
    }
}

/// schema + query with `name` at the positions in `mask`
fn program(name: &str, mask: &[&str]) -> (SchemaDoc, QueryDoc) {
    let at = |pos: &str| -> String {
        if mask.contains(&pos) {
            name.to_string()
        } else {
            benign(pos).to_string()
        }
    };
    let schema = SchemaDoc {
        defs: vec![
            TypeDef::Object { name: "Sub".into(), implements: vec![], fields: vec![FieldDef::new("x", GType::named("Int")), FieldDef::new("y", GType::named("Int"))] },
            TypeDef::Object { name: "Other2".into(), implements: vec![], fields: vec![FieldDef::new("z", GType::named("Int"))] },
            TypeDef::Union { name: "Un".into(), members: vec!["Sub".into(), "Other2".into()] },
            TypeDef::Object {
                name: "Query".into(),
                implements: vec![],
                fields: vec![FieldDef::new(&at("response"), GType::named("Int")), FieldDef::new("zzsub", GType::named("Sub")), FieldDef::new("zzun", GType::named("Un"))],
            },
            TypeDef::Input { name: "Inp".into(), fields: vec![(at("input_field"), GType::named("Int"))], one_of: false },
            TypeDef::Input { name: "One".into(), fields: vec![(at("oneof"), GType::named("Int"))], one_of: true },
            TypeDef::Enum { name: "En".into(), values: vec![at("enum_value")] },
        ],
        schema_block: None,
        input_defaults: vec![],
    };
    // ONE fragment carries the name for both fragment positions (two fragments cannot share a name); it is
    // spread next to another field of a struct and next to an inline fragment of a union variant
    let frag_name = if mask.contains(&"frag_struct") || mask.contains(&"frag_variant") { name.to_string() } else { benign("frag_struct").to_string() };
    let doc = QueryDoc {
        defs: vec![QDef::Frag { name: frag_name.clone(), on: "Sub".into(), sel: vec![Sel::field("y")] }, QDef::Op {
            kind: OpKind::Query,
            name: Some("Q".into()),
            vars: vec![
                VarDef { name: at("variable"), ty: GType::named("Int"), default: None },
                VarDef { name: "zzi".into(), ty: GType::named("Inp"), default: None },
                VarDef { name: "zzo".into(), ty: GType::named("One"), default: None },
                VarDef { name: "zze".into(), ty: GType::named("En"), default: None },
            ],
            sel: vec![
                Sel::field(&at("response")),
                Sel::Field { alias: None, name: "zzsub".into(), sub: vec![Sel::Field { alias: Some(at("alias")), name: "x".into(), sub: vec![] }, Sel::Spread(frag_name.clone())] },
                Sel::Field { alias: None, name: "zzun".into(), sub: vec![Sel::typename(), Sel::Inline { on: Some("Sub".into()), sub: vec![Sel::field("x")] }, Sel::Spread(frag_name.clone())] },
            ],
        }],
    };
    (schema, doc)
}

fn find<'a>(m: &'a RModule, n: &str) -> Option<&'a RItem> {
    m.items.iter().find(|i| i.name() == n)
}

fn observe(m: &RModule, pos: &str, name: &str, norm_rust: bool) -> String {
    let fld = |item: &str, idx: usize| -> String {
        match find(m, item) {
            Some(RItem::Struct { fields, .. }) if fields.len() > idx => {
                format!("(OField {} {})", coq::s(&fields[idx].ident), coq::ostr(&fields[idx].rename))
            }
            _ => "OMissing".into(),
        }
    };
    let _ = norm_rust;
    match pos {
        "response" => fld("ResponseData", 0),
        "alias" => fld("QZzsub", 0),
        "frag_struct" => fld("QZzsub", 1),
        "frag_variant" => fld("QZzunOnSub", 1),
        "variable" => fld("Variables", 0),
        "input_field" => fld("Inp", 0),
        "oneof" => match find(m, "One") {
            Some(RItem::ExtEnum { variants, .. }) if !variants.is_empty() => {
                format!("(OField {} {})", coq::s(&variants[0].ident), coq::ostr(&variants[0].rename))
            }
            _ => "OMissing".into(),
        },
        _ => match find(m, "En") {
            Some(RItem::StrEnum { variants, ser_arms, de_arms, .. }) if !variants.is_empty() => {
                let id = &variants[0];
                let ser = ser_arms.iter().find(|(v, _)| v == id).map(|(_, w)| w.clone());
                let de = de_arms.iter().find(|(w, _)| w == name).map(|(_, v)| v.clone());
                format!("(OEnum {} {} {})", coq::s(id), coq::ostr(&ser), coq::ostr(&de))
            }
            _ => "OMissing".into(),
        },
    }
}

/// the keyword table as the code has it now (for choosing inputs only; the model uses Gen/Keywords.v)
pub fn table_keywords() -> Vec<String> {
    let shared = std::fs::read_to_string(format!("{}/graphql_client_codegen/src/codegen/shared.rs", std::env::var("VERIF_REPO").unwrap_or_else(|_| "/repo".into()))).unwrap_or_default();
    let mut kws = vec![];
    if let Some(a) = shared.find("RUST_KEYWORDS") {
        if let Some(b) = shared[a..].find("];") {
            for part in shared[a..a + b].split('"').skip(1).step_by(2) {
                kws.push(part.to_string());
            }
        }
    }
    kws
}

pub fn names(tier: &str, seed: u64, keywords: &[String]) -> Vec<String> {
    let mut out: Vec<String> = vec![];
    let mut base: Vec<String> = keywords.to_vec();
    for w in [
        "as", "break", "const", "continue", "crate", "else", "enum", "extern", "false", "fn", "for", "if", "impl", "in", "let", "loop",
        "match", "mod", "move", "mut", "pub", "ref", "return", "self", "Self", "static", "struct", "super", "trait", "true", "type",
        "unsafe", "use", "where", "while", "async", "await", "dyn", "abstract", "become", "box", "do", "final", "macro", "override",
        "priv", "typeof", "unsized", "virtual", "yield", "try",
    ] {
        if !base.iter().any(|b| b == w) {
            base.push(w.to_string());
        }
    }
    // near misses and ordinary names
    for w in ["selfie", "types", "Other", "other", "id", "ID", "userName", "user_name", "UserName", "USER_NAME", "HTTPServer", "x", "X", "a1", "gen", "union", "default", "raw", "r"] {
        base.push(w.to_string());
    }
    for w in &base {
        let cap = {
            let mut c = w.chars();
            match c.next() {
                Some(f) => f.to_uppercase().collect::<String>() + c.as_str(),
                None => String::new(),
            }
        };
        out.push(w.clone());
        out.push(cap.clone());
        out.push(w.to_uppercase());
        out.push(w.to_lowercase());
        out.push(format!("_{}", w));
        out.push(format!("{}_", w));
        out.push(format!("{}1", w));
        out.push(format!("{}Field", w));
        out.push(format!("my{}", cap));
        out.push(format!("my_{}", w));
    }
    // exhaustive small names over {a,B,_,1} (validates Heck.v and finds degenerate snake forms)
    let alpha = ['a', 'B', '_', '1'];
    let maxlen = if tier == "thorough" { 5 } else { 4 };
    let mut frontier: Vec<String> = vec![String::new()];
    for _ in 0..maxlen {
        let mut next = vec![];
        for p in &frontier {
            for c in alpha {
                let mut q = p.clone();
                q.push(c);
                next.push(q);
            }
        }
        out.extend(next.iter().cloned());
        frontier = next;
    }
    // random names
    let mut rng = Rng::new(seed ^ 0xC11);
    let pool: Vec<char> = "abcxyzABCXYZ019__".chars().collect();
    let nrand = if tier == "thorough" { 3000 } else { 300 };
    for _ in 0..nrand {
        let len = 1 + rng.below(10);
        let s: String = (0..len).map(|_| *rng.pick(&pool)).collect();
        out.push(s);
    }
    let mut seen = std::collections::BTreeSet::new();
    out.retain(|n| valid_name(n) && seen.insert(n.clone()));
    if tier != "thorough" {
        // quick tier: every keyword-derived name, and every third of the rest
        let kwd: std::collections::BTreeSet<String> = base.iter().cloned().collect();
        let mut i = 0;
        out.retain(|n| {
            i += 1;
            kwd.contains(n) || kwd.contains(&n.to_lowercase()) || i % 3 == 0
        });
    }
    // witnesses of the known finding K5 are always replayed
    for w in ["_", "_1"] {
        if !out.iter().any(|n| n == w) {
            out.push(w.to_string());
        }
    }
    out
}

pub fn run(outdir: &Path, tier: &str, seed: u64, shards: usize, replay: Option<String>) {
    runner::quiet_panics();
    let kws = table_keywords();
    let mut todo: Vec<(String, bool)> = vec![];
    if let Some(rp) = replay {
        let v: serde_json::Value = serde_json::from_str(&std::fs::read_to_string(rp).unwrap()).unwrap();
        let c = &v["case"];
        todo.push((c["name"].as_str().unwrap().to_string(), c["normalization_rust"].as_bool().unwrap_or(false)));
    } else {
        for n in names(tier, seed, &kws) {
            todo.push((n.clone(), false));
            todo.push((n, true));
        }
    }
    let mut cases = vec![];
    let mut dist = std::collections::BTreeMap::<String, usize>::new();
    for (name, norm) in &todo {
        let positions: Vec<&str> = POSITIONS
            .iter()
            .copied()
            .filter(|p| !(*p == "enum_value" && ["true", "false", "null"].contains(&name.as_str())))
            // a fragment's name is also the name of its struct, used as written: the fragment positions are
            // exercised with names that are identifiers and not keywords as they stand (Type, MATCH, Loop ...);
            // `on` is not a fragment name in GraphQL
            .filter(|p| !p.starts_with("frag_") || (frag_name_usable(name, &kws)))
            .collect();
        let opts = Opts { operation_name: Some("Q".into()), normalization_rust: *norm, ..Opts::default() };
        let gen = |mask: &[&str]| -> Outcome {
            let (s, d) = program(name, mask);
            runner::generate(&s.render_sdl(), "graphql", &d.render(), &opts)
        };
        let all = gen(&positions);
        let all_mod = runner::modules(&all).ok().filter(|m| m.len() == 1);
        for pos in &positions {
            let obs = match &all_mod {
                Some(m) => observe(&m[0], pos, name, *norm),
                None => {
                    // isolate this position
                    let one = gen(&[*pos]);
                    match (&one, runner::modules(&one)) {
                        (Outcome::Panic(_), _) => "OPanic".to_string(),
                        (_, Ok(m)) if m.len() == 1 => observe(&m[0], pos, name, *norm),
                        (Outcome::Ok(_), Err(_)) => "OUnparsable".to_string(),
                        _ => "OMissing".to_string(),
                    }
                }
            };
            let class = if obs == "OPanic" { "panic" } else if obs == "OMissing" { "missing" } else if obs == "OUnparsable" { "unparsable" } else { "ok" };
            *dist.entry(format!("{}/{}/{}", pos, if *norm { "rust" } else { "none" }, class)).or_default() += 1;
            let is_kw = kws.iter().any(|k| k == name);
            cases.push(Case {
                coq: format!(
                    "(mkCase {} {} {} {} {} {})",
                    pos_coq(pos),
                    coq::s(name),
                    coq::b(*norm),
                    obs,
                    coq::s(&name.to_snake_case()),
                    coq::s(&name.to_upper_camel_case())
                ),
                desc: json!({"name": name, "position": pos, "normalization_rust": norm, "observed": obs, "is_table_keyword": is_kw}),
                key: format!("{}|{}|{}", name, pos, norm),
                nontrivial: is_kw || name.to_snake_case() != *name,
            });
        }
    }
    let samples: Vec<_> = cases.iter().step_by((cases.len() / 6).max(1)).map(|c| c.desc.clone()).collect();
    let cs = CaseSet {
        run_module: "RunC11".into(),
        cases,
        checkers: vec!["corr".into(), "heck".into(), "prop_wire".into(), "prop_ident".into(), "known_bad_case_ident".into()],
        extra_imports: vec!["Heck".into(), "Naming".into()],
        preludes: vec![],
    };
    cs.write(
        outdir,
        shards,
        json!({
            "rule": "every word of the translated keyword table and of the reference keyword list, plus near-misses, in 10 case styles; all names over {a,B,_,1} up to length 4 (thorough: 5); seeded random names; each at 8 name positions (response field, alias, variable, input field, @oneOf member, enum value, and — for names usable as a fragment name — the flattened member of a fragment spread in a struct and in a union variant) x normalization {none, rust}. Non-trivial = table keyword or not already snake_case.",
            "exhaustive": false,
            "distribution": dist,
            "samples": samples,
        }),
    );
    runner::cleanup_scratch();
}
