//! C12: input-type graphs (exhaustive for 2 types, random beyond) and fragment recursion patterns.
use crate::gencase;
use crate::gql::*;
use crate::out::{Case, CaseSet};
use crate::progs::{apply_wrap, Program};
use crate::rng::Rng;
use crate::runner;
use serde_json::json;
use std::path::Path;

const EDGE_KINDS: [&str; 5] = ["", "T", "T!", "[T]", "[T!]!"];

/// the same graph under names that `normalization = "rust"` spells differently (Hasura / PostGraphile style)
const SNAKE_NAMES: [&str; 6] = ["tree_node", "users_bool_exp", "HTTPFilter", "order_by", "input_x", "aB"];

fn input_program(names: &[&str], edges: &[(usize, usize, &str)], one_of: &[bool]) -> Program {
    let mut defs = vec![];
    for (i, n) in names.iter().enumerate() {
        let mut fields = vec![("leaf".to_string(), GType::named("Int"))];
        for (k, (a, b, kind)) in edges.iter().enumerate() {
            if *a == i && !kind.is_empty() {
                // an @oneOf member is nullable by definition; keep the list-ness of the edge
                let w = if one_of[i] { if kind.starts_with('[') { "[T]" } else { "T" } } else { kind };
                fields.push((format!("e{}to{}", k, names[*b].to_lowercase()), apply_wrap(w, names[*b])));
            }
        }
        defs.push(TypeDef::Input { name: n.to_string(), fields, one_of: one_of[i] });
    }
    defs.push(TypeDef::Object { name: "Query".into(), implements: vec![], fields: vec![FieldDef::new("x", GType::named("Int"))] });
    let vars = names.iter().map(|n| VarDef { name: format!("v{}", n.to_lowercase()), ty: GType::named(n), default: None }).collect();
    Program {
        schema: SchemaDoc { defs, schema_block: None , input_defaults: vec![] },
        doc: QueryDoc { defs: vec![QDef::Op { kind: OpKind::Query, name: Some("Q".into()), vars, sel: vec![Sel::field("x")] }] },
        opts: Opts { operation_name: Some("Q".into()), ..Opts::default() },
        tags: vec![],
    }
}

fn frag_schema() -> SchemaDoc {
    let person = vec![
        FieldDef::new("name", GType::named("String")),
        FieldDef::new("friend", GType::named("Person")),
        FieldDef::new("bestFriend", GType::nn(GType::named("Person"))),
        FieldDef::new("friends", GType::list(GType::named("Person"))),
        FieldDef::new("pet", GType::named("Pet")),
        FieldDef::new("named", GType::named("Named")),
    ];
    SchemaDoc {
        defs: vec![
            TypeDef::Interface { name: "Named".into(), fields: vec![FieldDef::new("name", GType::named("String"))] },
            TypeDef::Object { name: "Person".into(), implements: vec!["Named".into()], fields: person },
            TypeDef::Object { name: "Dog".into(), implements: vec!["Named".into()], fields: vec![FieldDef::new("name", GType::named("String")), FieldDef::new("owner", GType::named("Person"))] },
            TypeDef::Object { name: "Cat".into(), implements: vec![], fields: vec![FieldDef::new("name", GType::named("String")), FieldDef::new("owner", GType::named("Person"))] },
            TypeDef::Union { name: "Pet".into(), members: vec!["Dog".into(), "Cat".into()] },
            TypeDef::Object { name: "Query".into(), implements: vec![], fields: vec![FieldDef::new("me", GType::named("Person")), FieldDef::new("pet", GType::named("Pet")), FieldDef::new("named", GType::named("Named"))] },
        ],
        schema_block: None,
        input_defaults: vec![],
    }
}

fn sp(n: &str) -> Sel {
    Sel::Spread(n.into())
}
fn fr(name: &str, on: &str, sel: Vec<Sel>) -> QDef {
    QDef::Frag { name: name.into(), on: on.into(), sel }
}
fn q(sel: Vec<Sel>) -> QDef {
    QDef::Op { kind: OpKind::Query, name: Some("Q".into()), vars: vec![], sel }
}

pub fn fragment_patterns() -> Vec<(&'static str, Vec<QDef>)> {
    let f = Sel::field;
    let o = Sel::obj;
    vec![
        ("self through a field (alias form)", vec![fr("F", "Person", vec![f("name"), o("friend", vec![sp("F")])]), q(vec![o("me", vec![sp("F")])])]),
        ("self through a field (flattened next to a field)", vec![fr("F", "Person", vec![f("name"), o("friend", vec![f("name"), sp("F")])]), q(vec![o("me", vec![f("name"), sp("F")])])]),
        ("self through a non-null field", vec![fr("F", "Person", vec![o("bestFriend", vec![f("name"), sp("F")])]), q(vec![o("me", vec![sp("F")])])]),
        ("self through a list", vec![fr("F", "Person", vec![f("name"), o("friends", vec![sp("F")])]), q(vec![o("me", vec![sp("F")])])]),
        ("mutual A <-> B", vec![fr("A", "Person", vec![f("name"), o("friend", vec![sp("B")])]), fr("B", "Person", vec![o("friend", vec![f("name"), sp("A")])]), q(vec![o("me", vec![sp("A")])])]),
        ("three-cycle A -> B -> C -> A", vec![
            fr("A", "Person", vec![o("friend", vec![sp("B")])]),
            fr("B", "Person", vec![f("name"), o("friend", vec![sp("C")])]),
            fr("C", "Person", vec![o("bestFriend", vec![f("name"), sp("A")])]),
            q(vec![o("me", vec![sp("A")])]),
        ]),
        ("through an inline fragment on a union member", vec![
            fr("P", "Pet", vec![Sel::typename(), Sel::Inline { on: Some("Dog".into()), sub: vec![f("name"), o("owner", vec![o("pet", vec![sp("P")])])] }]),
            q(vec![o("pet", vec![sp("P")])]),
        ]),
        ("through a spread on a variant", vec![
            fr("F", "Person", vec![f("name"), o("pet", vec![Sel::typename(), sp("D")])]),
            fr("D", "Dog", vec![o("owner", vec![f("name"), sp("F")])]),
            q(vec![o("me", vec![sp("F")])]),
        ]),
        ("reaches a cycle without being on it", vec![
            fr("T", "Person", vec![f("name"), o("friend", vec![sp("Rec")])]),
            fr("Rec", "Person", vec![f("name"), o("friend", vec![sp("Rec")])]),
            q(vec![o("me", vec![sp("T")])]),
        ]),
        ("a mutual pair first reached from an earlier, non-recursive fragment", vec![
            fr("Entry", "Person", vec![f("name"), o("friend", vec![sp("PersonTree")])]),
            fr("PersonTree", "Person", vec![f("name"), o("friend", vec![sp("CompanyTree")])]),
            fr("CompanyTree", "Person", vec![o("bestFriend", vec![f("name"), sp("PersonTree")])]),
            q(vec![o("me", vec![sp("Entry")])]),
        ]),
        ("two entry fragments before a three-cycle", vec![
            fr("E1", "Person", vec![o("friend", vec![sp("E2")])]),
            fr("E2", "Person", vec![f("name"), o("friends", vec![sp("A")])]),
            fr("A", "Person", vec![o("friend", vec![sp("B")])]),
            fr("B", "Person", vec![f("name"), o("friend", vec![sp("C")])]),
            fr("C", "Person", vec![o("friend", vec![f("name"), sp("A")])]),
            q(vec![o("me", vec![sp("E1")])]),
        ]),
        ("non-recursive chain", vec![
            fr("A", "Person", vec![f("name"), o("friend", vec![sp("B")])]),
            fr("B", "Person", vec![f("name")]),
            q(vec![o("me", vec![sp("A")])]),
        ]),
        ("two cycles sharing a fragment", vec![
            fr("A", "Person", vec![o("friend", vec![sp("B")]), o("bestFriend", vec![sp("C")])]),
            fr("B", "Person", vec![o("friend", vec![f("name"), sp("A")])]),
            fr("C", "Person", vec![o("friends", vec![f("name"), sp("A")])]),
            q(vec![o("me", vec![sp("A")])]),
        ]),
        ("a mutual pair, each spreading the other twice", vec![
            fr("A", "Person", vec![f("name"), o("friend", vec![sp("B")]), o("bestFriend", vec![f("name"), sp("B")])]),
            fr("B", "Person", vec![o("friend", vec![f("name"), sp("A")]), o("bestFriend", vec![sp("A")])]),
            q(vec![o("me", vec![sp("A")])]),
        ]),
        ("self, spread twice", vec![
            fr("F", "Person", vec![f("name"), o("friend", vec![sp("F")]), o("bestFriend", vec![f("name"), sp("F")])]),
            q(vec![o("me", vec![sp("F")])]),
        ]),
        ("interface fragment recursing through an implementor", vec![
            fr("N", "Named", vec![Sel::typename(), f("name"), Sel::Inline { on: Some("Person".into()), sub: vec![o("named", vec![sp("N")])] }]),
            q(vec![o("named", vec![sp("N")])]),
        ]),
    ]
}

pub fn run(outdir: &Path, tier: &str, seed: u64, shards: usize, replay: Option<String>) {
    runner::quiet_panics();
    let mut rng = Rng::new(seed ^ 0xC12);
    let mut work: Vec<(Program, String)> = vec![];
    if let Some(rp) = replay {
        let v: serde_json::Value = serde_json::from_str(&std::fs::read_to_string(rp).unwrap()).unwrap();
        work.push((serde_json::from_value(v["case"]["program"].clone()).unwrap(), "replay".into()));
    } else {
        // (a) two input types: every labelling of the four ordered pairs x every @oneOf flagging
        let pairs = [(0usize, 0usize), (0, 1), (1, 0), (1, 1)];
        let step = if tier == "thorough" { 1 } else { 3 };
        let mut idx = 0usize;
        for code in 0..625usize {
            for flags in 0..4usize {
                idx += 1;
                if idx % step != 0 {
                    continue;
                }
                let mut c = code;
                let mut edges = vec![];
                for (a, b) in pairs {
                    edges.push((a, b, EDGE_KINDS[c % 5]));
                    c /= 5;
                }
                let mut p = input_program(&["A", "B"], &edges, &[flags & 1 == 1, flags & 2 == 2]);
                // every fifth labelling also under Rust normalization with names it changes, and with skip_serializing_none
                if idx % 5 == 0 {
                    let mut p2 = input_program(&SNAKE_NAMES[..2], &edges, &[flags & 1 == 1, flags & 2 == 2]);
                    p2.opts.normalization_rust = true;
                    p2.opts.skip_serializing_none = idx % 10 == 0;
                    work.push((p2, "inputs/2 types exhaustive".into()));
                    p.opts.skip_serializing_none = true;
                }
                work.push((p, "inputs/2 types exhaustive".into()));
            }
        }
        // (b) random graphs on 3..6 types
        let names = ["A", "B", "C", "D", "E", "F"];
        let n = if tier == "thorough" { 6000 } else { 600 };
        for _ in 0..n {
            let k = 3 + rng.below(4);
            let ne = 1 + rng.below(2 * k);
            let edges: Vec<(usize, usize, &str)> = (0..ne).map(|_| (rng.below(k), rng.below(k), EDGE_KINDS[1 + rng.below(4)])).collect();
            let one_of: Vec<bool> = (0..k).map(|_| rng.chance(1, 4)).collect();
            let snake = rng.chance(1, 3);
            let mut p = input_program(if snake { &SNAKE_NAMES[..k] } else { &names[..k] }, &edges, &one_of);
            p.opts.normalization_rust = snake && rng.chance(3, 4);
            p.opts.skip_serializing_none = rng.chance(1, 3);
            work.push((p, format!("inputs/{} types random", k)));
        }
        // (c) fragment patterns x other-variant x normalization
        for (name, defs) in fragment_patterns() {
            for variant in 0..4 {
                let mut defs = defs.clone();
                if variant & 1 == 1 {
                    defs.reverse();
                }
                work.push((
                    Program {
                        schema: frag_schema(),
                        doc: QueryDoc { defs },
                        opts: Opts { operation_name: Some("Q".into()), fragments_other_variant: variant & 2 == 2, normalization_rust: variant == 3, ..Opts::default() },
                        tags: vec![],
                    },
                    format!("fragments/{}", name),
                ));
            }
        }
    }
    let mut cases = vec![];
    let mut dist = std::collections::BTreeMap::<String, usize>::new();
    for (p, tag) in &work {
        let obs = gencase::observe(p, None);
        let boxes = obs.tokens.as_ref().map(|t| t.matches("Box <").count()).unwrap_or(0);
        let group = if tag.starts_with("fragments") { "fragments".to_string() } else { tag.clone() };
        *dist.entry(format!("{}/{}/{}", group, obs.class, if boxes > 0 { "boxed" } else { "no box" })).or_default() += 1;
        cases.push(Case {
            coq: gencase::gcase(p, &obs),
            desc: json!({"program": p, "group": tag, "schema": if tag.starts_with("fragments") { String::new() } else { p.schema.render_sdl() }, "query": p.doc.render(), "observed": obs.class, "boxes": boxes, "detail": obs.detail}),
            key: format!("{}|{}|{:?}", p.schema.render_sdl(), p.doc.render(), (p.opts.fragments_other_variant, p.opts.normalization_rust)),
            nontrivial: boxes > 0,
        });
    }
    let samples: Vec<_> = cases.iter().step_by((cases.len() / 6).max(1)).map(|c| json!({"group": c.desc["group"], "schema": c.desc["schema"], "query": c.desc["query"], "boxes": c.desc["boxes"]})).collect();
    let cs = CaseSet {
        run_module: "RunC12".into(),
        cases,
        checkers: vec!["corr".into(), "prop_finite".into(), "prop_box_transparent".into(), "accepted".into()],
        extra_imports: vec!["TypeExpr".into(), "Schema".into(), "Query".into(), "Attrs".into(), "Codegen".into(), "RunGen".into()],
        preludes: vec![],
    };
    cs.write(outdir, shards, json!({
        "rule": "(a) two input types: all 5^4 labellings of the four ordered pairs with {no edge, T, T!, [T], [T!]!} x 4 @oneOf flaggings (quick: every third; thorough: all 2500); (b) seeded random graphs on 3-6 input types with 1-12 edges of the four kinds and random @oneOf types; (c) 14 fragment recursion patterns (self / mutual / 3-cycle / a fragment spread twice under one root / through lists, non-null fields, inline fragments, variant spreads; reaching but not on a cycle; shared cycles; non-recursive) x definition order x other-variant x normalization. Observation: emitted items (Box placement) parsed from the token stream. Non-trivial = at least one Box emitted.",
        "distribution": dist, "samples": samples,
    }));
    runner::cleanup_scratch();
}
