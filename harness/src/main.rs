#![allow(dead_code)]
mod c05;
mod c06;
mod c07;
mod c08;
mod c10;
mod c11;
mod c19;
mod c20;
mod resp;
mod c01;
mod c01dir;
mod c04;
mod c04dir;
mod c09;
mod c02;
mod consumer;
mod c12;
mod c13;
mod c14;
mod c15;
mod c16;
mod c17;
mod c18;
mod coq;
mod extract;
mod gen;
mod gencase;
mod progs;
mod gql;
mod items;
mod out;
mod rng;
mod runner;

use std::path::PathBuf;

fn arg(args: &[String], name: &str) -> Option<String> {
    args.iter().position(|a| a == name).and_then(|i| args.get(i + 1).cloned())
}

fn main() {
    let args: Vec<String> = std::env::args().collect();
    if args.len() < 2 {
        eprintln!("usage: vh <cmd> ...");
        std::process::exit(2);
    }
    let out = PathBuf::from(arg(&args, "--out").unwrap_or_else(|| "work".into()));
    let tier = arg(&args, "--tier").unwrap_or_else(|| "quick".into());
    let seed: u64 = arg(&args, "--seed").and_then(|s| s.parse().ok()).unwrap_or(1);
    let shards: usize = arg(&args, "--shards").and_then(|s| s.parse().ok()).unwrap_or(16);
    let replay = arg(&args, "--replay");
    match args[1].as_str() {
        "extract" => {
            let repo = PathBuf::from(arg(&args, "--repo").unwrap_or_else(|| "/repo".into()));
            extract::run(&repo, &out);
        }
        "c13" => c13::run(&out, &tier, seed, shards),
        "c10" => c10::run(&out, &tier, seed, shards, replay),
        "c18" => c18::run(&out, &tier, seed, shards, replay),
        "c16" => c16::run(&out, &tier, seed, shards, replay),
        "c15" => c15::run(&out, &tier, seed, shards, replay),
        "gen" => gen::run(&out, &tier, seed, shards, replay),
        "c14" => c14::run(&out, &tier, seed, shards, replay),
        "c05" => c05::run(&out, &tier, seed, shards, replay),
        "c06" => c06::run(&out, &tier, seed, shards, replay),
        "c12" => c12::run(&out, &tier, seed, shards, replay),
        "c17" => c17::run(&out, &tier, seed, shards, replay),
        "worker" => c17::worker(&args[2]),
        "c08" => c08::run(&out, &tier, seed, shards, replay),
        "c08worker" => c08::worker(&args[2], &args[3]),
        "c07" => c07::run(&out, &tier, seed, shards, replay),
        "c19" => c19::run(&out, &tier, seed, shards, replay),
        "c20" => c20::run(&out, &tier, seed, shards, replay),
        "c01" => c01::run(&out, &tier, seed, shards, replay, "C01"),
        "c03" => c01::run(&out, &tier, seed, shards, replay, "C03"),
        "c04" => c04::run(&out, &tier, seed, shards, replay),
        "c09" => c09::run(&out, &tier, seed, shards, replay),
        "c02" => c02::run(&out, &tier, seed, shards, replay),
        "c11" => c11::run(&out, &tier, seed, shards, replay),
        other => {
            eprintln!("unknown command {}", other);
            std::process::exit(2);
        }
    }
}
