#!/bin/bash
cd /verif
for d in seeded/*/; do
  n=$(basename $d); id=${n%%-*}
  out=$(tools/try_seed.sh $id /verif/${d}patch.diff 2>&1)
  rc=$(echo "$out" | grep "check exit" | sed 's/check exit=//')
  v=$(echo "$out" | grep -c "^VIOLATION")
  nf=$(echo "$out" | grep "^VIOLATION" | grep -c "no-failing-input-found")
  echo "$n exit=$rc violations=$v nofailing=$nf"
done
echo finished
