#!/bin/bash
# usage: tools/try_harmless.sh <patch name without .diff> <property ids...>
# Applies a behaviour-preserving rewrite from /verif/harmless to /repo, runs the named quick checks
# (each must stay at exit 0 with no VIOLATION line), restores /repo and the committed evidence.
p=$1; shift
for id in "$@"; do
  out=$(/verif/tools/try_seed.sh $id /verif/harmless/$p.diff 2>&1)
  line=$(echo "$out" | grep -E "^(OK|VIOLATION)" | tr '\n' ';')
  rc=$(echo "$out" | grep "check exit")
  echo "$p $id :: $line $rc"
done
