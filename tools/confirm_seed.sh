#!/bin/sh
# usage: tools/confirm_seed.sh <id> <A|B>
# Independently confirms a seeded change in its scratch worktree:
#  demo passes on the clean tree; with the patch the workspace builds, the 59(+3 doc) tests pass, the demo fails.
id=$1; v=$2
wt=/tmp/seeds/$id/wt; out=/tmp/seeds/$id/out/$v
log=$out/confirm.log
export CARGO_NET_OFFLINE=true RUST_BACKTRACE=0
{
git -C $wt checkout -- . ; git -C $wt clean -fdq -e target
echo "== demo on clean tree"; bash $out/demo/run.sh >/dev/null 2>&1; d0=$?; echo "demo_clean_exit=$d0"
git -C $wt apply $out/patch.diff || echo "APPLY FAILED"
echo "== test suite with patch"
(cd $wt && cargo test --workspace --no-fail-fast --offline 2>&1 | grep -E "^test result|^error" | awk '/^error/{e++} /test result/{p+=$4; f+=$6} END {print "suite_passed="p" suite_failed="f" build_errors="e+0}')
echo "== demo with patch"; bash $out/demo/run.sh >/dev/null 2>&1; d1=$?; echo "demo_patched_exit=$d1"
git -C $wt checkout -- . ; git -C $wt clean -fdq -e target
if [ $d0 -eq 0 ] && [ $d1 -ne 0 ]; then echo "CONFIRMED-DEMO"; else echo "NOT-CONFIRMED"; fi
} > $log 2>&1
tail -6 $log
