#!/usr/bin/env python3
"""Regenerates MANIFEST.json from lib/props.py + tools/claims.json (texts)."""
import json, os, sys
sys.path.insert(0, "/verif/lib")
from props import PROPS
claims = json.load(open("/verif/tools/claims.json"))
checks = []
for pid in sorted(PROPS):
    c = claims[pid]
    checks.append({
        "property_id": pid,
        "quick_cmd": "./check %s --tier quick" % pid,
        "thorough_cmd": "./check %s --tier thorough" % pid,
        "evidence_file": "/verif/evidence/%s.json" % pid,
        "replay_cmd_template": "./check %s --replay {path}" % pid,
        "engine": "rocq",
        "level_claimed": {"category": "proof", "text": c["text"], "design_ref": "DESIGN.md section 4, " + pid},
        "level_note": c.get("note", "") + " Common trusted base: Coq 8.16.1 kernel + vm_compute; translator (syn; declarations/literals only); hand-written Gallina models tied to the code by the per-run correspondence; parsers, quote, rustc/serde semantics as specified in Rust.v/Serde.v and validated on compiled consumers where used. No axioms (Print Assumptions parsed on every run).",
        "technique": c["technique"],
    })
na = json.load(open("/verif/tools/not_applicable.json"))
m = {
 "version": 1,
 "setup_cmd": "./setup.sh",
 "hooks": {"guard": "graphql_client_verif", "enable": "RUSTFLAGS=\"--cfg graphql_client_verif\" (no hook is currently needed; everything is observed through public APIs, emitted tokens, compiled consumers and the CLI binary)",
           "baseline_off_cmd": "cd /repo && cargo test --workspace --no-fail-fast --offline", "source_commits": [], "add_only": True},
 "engines": [{"name": "rocq", "path": "/verif/coq", "serves_properties": sorted(PROPS), "kind_free_text": "Coq 8.16.1 development (models, proofs, property theorems) + Rust harness (translator, correspondence, consumer crates) driven by ./check"}],
 "checks": checks,
 "notes": "See DESIGN.md. Every check regenerates Gen/*.v from /repo, rebuilds the theorem closure, and evaluates the model and the property oracle inside Coq on observations of the implementation built from /repo's working tree.",
 "not_applicable": [e for e in na if e["property_id"] not in PROPS],
}
json.dump(m, open("/verif/MANIFEST.json", "w"), indent=1)
print("claimed:", sorted(PROPS))
