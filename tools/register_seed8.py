#!/usr/bin/env python3
"""usage: tools/register_seed3.py <id> <A|B> <caught|missed|missed-then-caught> "<what it needs to manifest>" "<check output line>"
Copies a confirmed round-8 seeded change from /tmp/seeds8/<id>/out/<v> into /verif/seeded/<id>-<E|F>/."""
import json, os, shutil, subprocess, sys
pid, v, status, needs, outline = sys.argv[1:6]
nv = {"A": "N"}[v]
src = "/tmp/seeds8/%s/out/%s" % (pid, v)
dst = "/verif/seeded/%s-%s" % (pid, nv)
shutil.rmtree(dst, ignore_errors=True)
os.makedirs(dst)
shutil.copy(os.path.join(src, "patch.diff"), dst)
if os.path.isdir(os.path.join(src, "demo")):
    shutil.copytree(os.path.join(src, "demo"), os.path.join(dst, "demo"), ignore=shutil.ignore_patterns("target", "*.lock", "work.*"))
if os.path.exists(os.path.join(src, "README.md")):
    shutil.copy(os.path.join(src, "README.md"), os.path.join(dst, "README.md"))
confirm = open(os.path.join(src, "confirm.log")).read() if os.path.exists(os.path.join(src, "confirm.log")) else ""
base = subprocess.run(["git", "-C", "/repo", "rev-parse", "--short", "HEAD"], capture_output=True, text=True).stdout.strip()
meta = {
    "property": pid, "variant": nv, "round": 8,
    "breaks": open(os.path.join(src, "README.md")).read()[:1500] if os.path.exists(os.path.join(src, "README.md")) else "",
    "needs_to_manifest": needs,
    "author": "independent sub-agent given only the property text and a scratch clone of /repo",
    "confirmed_by_me": {
        "how": "demo on the clean scratch tree, patch applied, full test suite, demo again (confirm8.sh)",
        "log": confirm,
    },
    "patch_base_commit": "applies to /repo HEAD %s" % base,
    "check_result": {"status": status, "command": "tools/try_seed.sh %s /verif/seeded/%s-%s/patch.diff" % (pid, pid, nv), "output": outline},
}
json.dump(meta, open(os.path.join(dst, "meta.json"), "w"), indent=1)
print("registered", dst)
