#!/bin/sh
# usage: tools/confirm_ported.sh <id> <A|B> <ported patch>
# moves the seed's scratch worktree to /repo's HEAD, installs the ported patch and re-confirms it.
id=$1; v=$2; patch=$3
H=$(git -C /repo rev-parse HEAD)
git -C /tmp/seeds/$id/wt checkout -q --detach $H
[ -f /tmp/seeds/$id/out/$v/patch.orig.diff ] || cp /tmp/seeds/$id/out/$v/patch.diff /tmp/seeds/$id/out/$v/patch.orig.diff
cp $patch /tmp/seeds/$id/out/$v/patch.diff
/verif/tools/confirm_seed.sh $id $v
