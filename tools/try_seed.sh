#!/bin/sh
# usage: tools/try_seed.sh <property id> <patch.diff> [tier]
# applies the patch to /repo, runs the property's check, restores /repo.
id=$1; patch=$2; tier=${3:-quick}
cd /verif
git -C /repo apply "$patch" || { echo "patch does not apply"; exit 3; }
./check $id --tier $tier; rc=$?
git -C /repo checkout -- .
# the evidence written while the patch was applied describes a broken tree: restore the committed record
git -C /verif checkout -- evidence/$id.json 2>/dev/null
git -C /repo status --short | head -3
echo "check exit=$rc"
