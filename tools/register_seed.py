#!/usr/bin/env python3
"""usage: tools/register_seed.py <id> <A|B> <caught|missed> "<what it needs to manifest>" "<check output line>"
Copies a confirmed seeded change from /tmp/seeds/<id>/out/<v> into /verif/seeded/<id>-<v>/."""
import json, os, shutil, subprocess, sys
pid, v, status, needs, outline = sys.argv[1:6]
src = "/tmp/seeds/%s/out/%s" % (pid, v)
dst = "/verif/seeded/%s-%s" % (pid, v)
shutil.rmtree(dst, ignore_errors=True)
os.makedirs(dst)
shutil.copy(os.path.join(src, "patch.diff"), dst)
if os.path.isdir(os.path.join(src, "demo")):
    shutil.copytree(os.path.join(src, "demo"), os.path.join(dst, "demo"), ignore=shutil.ignore_patterns("target", "*.lock"))
if os.path.exists(os.path.join(src, "README.md")):
    shutil.copy(os.path.join(src, "README.md"), os.path.join(dst, "README.md"))
confirm = open(os.path.join(src, "confirm.log")).read() if os.path.exists(os.path.join(src, "confirm.log")) else ""
base = subprocess.run(["git", "-C", "/repo", "rev-parse", "--short", "HEAD"], capture_output=True, text=True).stdout.strip()
meta = {
    "property": pid, "variant": v,
    "breaks": open(os.path.join(src, "README.md")).read()[:1500] if os.path.exists(os.path.join(src, "README.md")) else "",
    "needs_to_manifest": needs,
    "author": "independent sub-agent given only the property text and a scratch worktree",
    "confirmed_by_me": {
        "how": "tools/confirm_seed.sh %s %s in the scratch worktree: demo on clean tree, patch applied, full test suite, demo again" % (pid, v),
        "log": confirm,
    },
    "patch_base_commit": "a3e5a0c (snapshot); applies to /repo HEAD %s at registration" % base,
    "check_result": {"status": status, "command": "tools/try_seed.sh %s seeded/%s-%s/patch.diff" % (pid, pid, v), "output": outline},
}
json.dump(meta, open(os.path.join(dst, "meta.json"), "w"), indent=1)
print("registered", dst)
