#!/bin/sh
# usage: tools_mkseed.sh C13  -> creates scratch worktree /tmp/seeds/C13/wt (with a copy of the build cache)
set -e
id=$1
mkdir -p /tmp/seeds/$id/out
git -C /repo worktree add --detach /tmp/seeds/$id/wt HEAD >/dev/null 2>&1
cp -r /repo/target /tmp/seeds/$id/wt/target
echo /tmp/seeds/$id/wt
