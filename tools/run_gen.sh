#!/bin/sh
# development helper: whole-generator correspondence on N random programs
tier=${1:-thorough}; seed=${2:-1}; out=/verif/work/gen_$tier_$seed
rm -rf $out; mkdir -p $out
/verif/harness/target/debug/vh gen --out $out --tier $tier --seed $seed --shards 16
cd $out
for f in cases_*.v; do (coqc -Q /verif/coq/theories GC $f > $f.out 2>&1 &); done
wait
sleep 1
while pgrep -f "coqc -Q /verif/coq/theories GC cases_" >/dev/null; do sleep 2; done
cat cases_*.v.out | tr '\n' ' ' | sed 's/: string \* list N/\n/g' > summary.txt
