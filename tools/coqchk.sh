#!/bin/sh
# Re-checks every compiled Properties/*.vo (and all they depend on) with Coq's independent checker and
# prints the axioms the whole closure relies on.  Takes about a minute; not part of the per-run check.
cd /verif/coq || exit 1
mods=$(ls theories/Properties/*.v | sed 's#theories/Properties/\(.*\)\.v#GC.Properties.\1#' | tr '\n' ' ')
timeout 3000 coqchk -silent -o -Q theories GC $mods
