import json,sys
pid=sys.argv[1]; spec=json.load(open(sys.argv[2]))
p='/verif/lib/props.py'
s=open(p).read().rstrip()[:-1]
s+='    "%s": dict(\n        coq_props=%r,\n        run_modules=%r,\n        harness_cmd=%r,\n        trusted_base=COMMON_TB + %r,\n        assumptions=%r,\n    ),\n}\n' % (pid, spec['coq_props'], spec['run_modules'], spec['harness_cmd'], spec['trusted_base'], spec['assumptions'])
open(p,'w').write(s)
c=json.load(open('/verif/tools/claims.json'))
c[pid]={"text":spec['text'],"technique":spec['technique'],"note":spec['note']}
json.dump(c,open('/verif/tools/claims.json','w'),indent=1)
