(* RunC19.v — executable entry points for the C19 correspondence check. *)
From GC Require Import Base Rust TypeExpr Heck Strs Naming Enums Schema Query Attrs Codegen RunGen Cli.

Record case := mkCase {
  c_args : gen_args;
  c_schema : sdl_doc;
  c_doc : list qdef;
  c_exit_ok : bool;                       (* exit status 0 *)
  c_written : list (list string);         (* files created or changed by the command, relative to the work dir *)
  c_header_ok : bool;                     (* the written file starts with the warning-suppression header line *)
  c_file : gobs;                          (* the written file, parsed (GErr when nothing was written) *)
  c_lib : gobs;                           (* the library called in-process with the corresponding options *)
  c_old_untouched : bool                  (* a pre-existing destination file still has its old contents (or none existed) *)
}.

(* rustfmt may reorder `use` items and rewrite `::serde` as `serde`: compare modulo that *)
Definition strip_root (p : list string) : list string := match p with "" :: r => r | _ => p end.
Definition canon_uses (u : list (list string)) : list (list string) :=
  let keyed := map (fun p => (join_str "::" (strip_root p), strip_root p)) u in
  map snd (fold_right (fun kv acc =>
             (fix ins (l : list (string * list string)) : list (string * list string) :=
                match l with
                | [] => [kv]
                | x :: r => match String.compare (fst kv) (fst x) with Gt => x :: ins r | _ => kv :: l end
                end) acc) [] keyed).
Definition canon_module (m : rmodule) : rmodule :=
  mkModule (m_struct_decl m) (m_name m) (m_vis m) (m_operation_name m) (m_query m) (m_include m)
           (canon_uses (m_uses m)) (m_items m) (m_impl_for m) (m_impl_body m).
Definition canon_obs (o : gobs) : gobs := match o with GOk ms => GOk (map canon_module ms) | _ => o end.

Definition model_gen (c : case) : gobs :=
  gen_model (mkG (c_schema c) (c_doc c) (options_of_args (c_args c)) GErr).

Definition corr (c : case) : bool :=
  match model_gen c with
  | GOk ms => c_exit_ok c && gobs_eqb (canon_obs (GOk ms)) (canon_obs (c_file c)) &&
              match dest_path (c_args c) with Some p => list_eqb lstr_eqb (c_written c) [p] | None => false end
  | _ => negb (c_exit_ok c) && match c_written c with [] => true | _ => false end
  end.

(* the property: exactly the library's output, in <stem>.rs in the right directory; nothing on failure *)
Definition spec_dest (a : gen_args) : list string :=
  let name := match last (map Some (g_query_path a)) None with Some n => n | None => "" end in
  (match g_output_dir a with Some d => d | None => removelast (g_query_path a) end) ++ [(file_stem name ++ ".rs")%string].

Definition prop (c : case) : bool :=
  match c_lib c with
  | GOk _ =>
      c_exit_ok c && c_header_ok c && gobs_eqb (canon_obs (c_lib c)) (canon_obs (c_file c)) &&
      list_eqb lstr_eqb (c_written c) [spec_dest (c_args c)]
  | _ => negb (c_exit_ok c) && (match c_written c with [] => true | _ => false end) && c_old_untouched c
  end.
