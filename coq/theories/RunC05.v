(* RunC05.v — executable entry points for the C05 correspondence check. *)
From GC Require Import Base Rust Json TypeExpr Heck Strs Naming Enums Schema Query Attrs Codegen RunGen Serde RunSerde.
From GC.Gen Require Import LibTypes.

Inductive case :=
| CGen (g : gcase)                                         (* whole-generator case (selection logic, module skeleton) *)
| CText (kind : string) (modules : N) (all_equal : bool)   (* QUERY constants vs the bytes of the query file *)
| CNotFound (ops : list string) (struct_name : string) (msg : option string)   (* derive-mode error text *)
| CBody (variables : json) (query opname : string) (obs : json).   (* to_value(QueryBody{..}) *)

Definition corr (c : case) : bool :=
  match c with
  | CGen g => gen_corr g
  | CBody v q n obs =>
      match ser FUEL lib_items (RNamed "QueryBody")
                (VStruct [("variables", VJson v); ("query", VStr q); ("operation_name", VStr n)]) with
      | Some j => json_equiv j obs
      | None => false
      end
  | _ => true
  end.

(* ---- property oracle on the observation, independent of Codegen.v's expansion *)
Definition op_names (doc : list qdef) : list string :=
  flat_map (fun d => match d with QOp _ (Some n) _ _ => [n] | _ => [] end) doc.
Definition op_vars (doc : list qdef) (n : string) : list string :=
  flat_map (fun d => match d with
                     | QOp _ (Some m) vars _ => if String.eqb m n then map vd_name vars else []
                     | _ => [] end) doc.
Fixpoint first_op_vars (doc : list qdef) (n : string) : list string :=
  match doc with
  | [] => []
  | QOp _ (Some m) vars _ :: r => if String.eqb m n then map vd_name vars else first_op_vars r n
  | _ :: r => first_op_vars r n
  end.
Fixpoint first_op_keys (doc : list qdef) (n : string) : list string :=
  match doc with
  | [] => []
  | QOp _ (Some m) _ sels :: r =>
      if String.eqb m n
      then flat_map (fun x => match x with
                              | SField a f _ => if String.eqb f "__typename" then [] else [match a with Some al => al | None => f end]
                              | _ => [] end) sels
      else first_op_keys r n
  | _ :: r => first_op_keys r n
  end.

(* which operations must be generated, by the property's wording *)
Definition expected_ops (o : opts) (doc : list qdef) : option (list string) :=   (* None = must fail *)
  let names := op_names doc in
  match o_operation_name o with
  | Some n =>
      match find (fun m => String.eqb (norm o m) n) names with
      | Some m => Some [m]
      | None => if o_cli o then Some names else None
      end
  | None => if o_cli o then Some names else None
  end.

Fixpoint subseq (a b : list string) : bool :=
  match a, b with
  | [], _ => true
  | _ :: _, [] => false
  | x :: r, y :: s => if String.eqb x y then subseq r s else subseq a s
  end.

Definition item_wire_keys (items : list ritem) (n : string) : option (list string) :=
  match find_item n items with
  | Some (IStruct _ _ _ fs) => Some (map field_wire (filter (fun f => negb (f_flatten f)) fs))
  | Some (IUnit _ _ _) => Some []
  | _ => None
  end.

Definition names_distinct_normalised (o : opts) (doc : list qdef) : bool :=
  nodup_str (map (norm o) (op_names doc)).

Definition prop_select (c : case) : bool :=
  match c with
  | CGen g =>
      if negb (names_distinct_normalised (g_opts g) (g_doc g)) then true   (* K3: outside the supported subset *)
      else
      match g_obs g, expected_ops (g_opts g) (g_doc g) with
      | GOk ms, Some names =>
          lstr_eqb (map m_operation_name ms) names &&
          forallb (fun m =>
            String.eqb (m_query m) "<same>" &&
            String.eqb (m_name m) (to_snake_case (m_operation_name m)) &&
            String.eqb (m_impl_for m) (norm (g_opts g) (m_operation_name m)) &&
            (* build_query wires the module's own constants *)
            mem_str (m_name m ++ "::QUERY") (map snd (m_impl_body m)) &&
            mem_str (m_name m ++ "::OPERATION_NAME") (map snd (m_impl_body m)) &&
            (* Variables / ResponseData come from the operation OPERATION_NAME names *)
            opt_eqb lstr_eqb (item_wire_keys (m_items m) "Variables") (Some (first_op_vars (g_doc g) (m_operation_name m))) &&
            match item_wire_keys (m_items m) "ResponseData" with
            | Some ks =>
                (* `deny` may omit deprecated fields: then a subsequence, otherwise equal *)
                match strategy (g_opts g) with
                | DDeny => subseq ks (first_op_keys (g_doc g) (m_operation_name m))
                | _ => lstr_eqb ks (first_op_keys (g_doc g) (m_operation_name m))
                end
            | None => true          (* alias / enum-only root: covered by the model correspondence *)
            end) ms
      | GErr, None => true
      | GOk _, None => false                 (* generated code for a struct name that selects nothing *)
      | GErr, Some _ | GPanic, _ | GUnparsable, _ => true   (* other failures are C06's business *)
      end
  | _ => true
  end.

Definition contains (needle hay : string) : bool :=
  (fix go (h : string) (fuel : nat) : bool :=
     match fuel with
     | O => false
     | S f => if String.prefix needle h then true
              else match h with EmptyString => false | String _ r => go r f end
     end) hay (S (String.length hay)).

Definition prop_text (c : case) : bool := match c with CText _ n eq => eq && (0 <? n)%N | _ => true end.
Definition prop_notfound (c : case) : bool :=
  match c with
  | CNotFound ops sn msg =>
      match msg with
      | Some m => forallb (fun n => contains n m) ops && contains sn m
      | None => false
      end
  | _ => true
  end.
Definition prop_body (c : case) : bool :=
  match c with
  | CBody v q n obs =>
      json_equiv obs (JObj [("variables", v); ("query", JStr q); ("operationName", JStr n)])
  | _ => true
  end.
