(* OptionAll.v — two more options, for ALL programs, by the device of StrategyAll.v (the selection
   expansion only appends to its context and never reads it back):
   (1) `fragments_other_variant` adds one catch-all variant `Unknown` (serde `other`) to every
       union / interface selection and changes nothing else;
   (2) `skip_serializing_none` changes, on the rendered response fields, the skip-when-None flag of
       the fields whose type expression is nullable, and nothing else. *)
From GC Require Import Base Rust Json TypeExpr Heck Strs Naming Enums Schema Query Attrs Dfs Codegen StrategyAll.

(* ---------- (1) the other-variant option *)
Definition cstrip (c : ctx) : ctx :=
  mkCtx (c_types c) (c_fields c) (filter (fun e => negb (v_other (snd e))) (c_variants c)) (c_aliases c).

Lemma fold_opt_cstrip {A} (F1 F2 : ctx -> A -> option ctx) l :
  (forall c x, In x l -> F2 (cstrip c) x = option_map cstrip (F1 c x)) ->
  forall c, fold_opt F2 l (cstrip c) = option_map cstrip (fold_opt F1 l c).
Proof.
  induction l as [|x r IH]; intros H c; [reflexivity|]. cbn [fold_opt].
  rewrite (H c x (or_introl eq_refl)). destruct (F1 c x) as [c'|]; cbn [option_map]; [|reflexivity].
  apply IH. intros c0 y Hy. apply H. right. exact Hy.
Qed.

Section Other.
  Variables (s : aschema) (frs : list rfrag) (o : opts) (R : renderer).

  Section Step.
    Variables rec1 recf1 rec2 recf2 : ctx -> list rsel -> nat -> string -> string -> option ctx.
    Hypothesis Hrec : forall c sels sid t p, rec2 (cstrip c) sels sid t p = option_map cstrip (rec1 c sels sid t p).
    Hypothesis Hrecf : forall c sels sid t p, recf2 (cstrip c) sels sid t p = option_map cstrip (recf1 c sels sid t p).

    Lemma variants_cstrip c sels sid tname prefix :
      calc_variantsG s frs R false rec2 (cstrip c) sels sid tname prefix =
      option_map cstrip (calc_variantsG s frs R true rec1 c sels sid tname prefix).
    Proof.
      unfold calc_variantsG.
      destruct (match find_kind_sdl s tname with
                | Some KInterface => Some (implementors s tname) | Some KUnion => find_union s tname | _ => None end) as [vs|];
        [|reflexivity].
      rewrite (fold_opt_cstrip
        (fun c v =>
           let mine := filter (fun x => match variant_selection frs tname x with Some t => String.eqb t v | None => false end) sels in
           match mine with
           | [] => Some (push_variant c sid (mkVariant v None None false))
           | _ =>
               let sname := (prefix ++ "On" ++ v)%string in
               let c1 := push_variant c sid (mkVariant v None (Some (RNamed sname)) false) in
               let '(c2, nid) := push_type c1 sname in
               match mine with
               | [RSpread n] => Some (push_alias c2 nid n (recursive frs n))
               | _ => fold_opt (fun c x =>
                        match x with
                        | RInline on sub => rec1 c sub nid v (prefix ++ "On" ++ camel on)%string
                        | RSpread n => Some (push_field c nid (R None (kw (snake n)) n [QRequired] true None (recursive frs n)))
                        | _ => Some c
                        end) mine c2
               end
           end)).
      - destruct (fold_opt _ vs c) as [c'|]; reflexivity.
      - intros c0 v _. cbn zeta.
        destruct (filter _ sels) as [|m0 mr] eqn:Em; [reflexivity|].
        set (mine := m0 :: mr).
        assert (Hfold : forall c2 nid,
          fold_opt (fun c x => match x with
                     | RInline on sub => rec2 c sub nid v (prefix ++ "On" ++ camel on)%string
                     | RSpread n => Some (push_field c nid (R None (kw (snake n)) n [QRequired] true None (recursive frs n)))
                     | _ => Some c end) mine (cstrip c2) =
          option_map cstrip (fold_opt (fun c x => match x with
                     | RInline on sub => rec1 c sub nid v (prefix ++ "On" ++ camel on)%string
                     | RSpread n => Some (push_field c nid (R None (kw (snake n)) n [QRequired] true None (recursive frs n)))
                     | _ => Some c end) mine c2)).
        { intros c2 nid. apply fold_opt_cstrip. intros c1 x _. destruct x as [a fd sub|on sub|n|]; try reflexivity. apply Hrec. }
        change (push_variant (cstrip c0) sid (mkVariant v None (Some (RNamed (prefix ++ "On" ++ v))) false))
          with (cstrip (push_variant c0 sid (mkVariant v None (Some (RNamed (prefix ++ "On" ++ v))) false))).
        change (push_type (cstrip ?c) ?n) with (cstrip (fst (push_type c n)), snd (push_type c n)).
        destruct (push_type (push_variant c0 sid (mkVariant v None (Some (RNamed (prefix ++ "On" ++ v))) false)) (prefix ++ "On" ++ v)) as [c2 nid] eqn:Ep.
        cbn [fst snd].
        destruct m0 as [a fd sub|on sub|n|]; try exact (Hfold c2 nid).
        destruct mr; [reflexivity|exact (Hfold c2 nid)].
    Qed.

    Lemma fields_cstrip c sels sid tname prefix :
      calc_fieldsG s frs o R rec2 recf2 (cstrip c) sels sid tname prefix =
      option_map cstrip (calc_fieldsG s frs o R rec1 recf1 c sels sid tname prefix).
    Proof.
      unfold calc_fieldsG. apply fold_opt_cstrip. intros c0 x _.
      destruct x as [a fd sub|on sub|n|]; try reflexivity.
      - cbn zeta. destruct (find_kind_sdl s (gname (fd_type fd))) as [[]|]; try reflexivity;
          change (push_field (cstrip c0) ?i ?f) with (cstrip (push_field c0 i f));
          change (push_type (cstrip ?c) ?n) with (cstrip (fst (push_type c n)), snd (push_type c n));
          destruct (push_type _ _) as [c2 nid]; cbn [fst snd]; apply Hrec.
      - destruct (on_object s tname); [apply Hrecf|reflexivity].
      - destruct (_ || _); reflexivity.
    Qed.
  End Step.

  Lemma calcG_cstrip : forall fuel,
    (forall c sels sid t p, calcG s frs o R false fuel (cstrip c) sels sid t p =
                            option_map cstrip (calcG s frs o R true fuel c sels sid t p)) /\
    (forall c sels sid t p, calcfG s frs o R false fuel (cstrip c) sels sid t p =
                            option_map cstrip (calcfG s frs o R true fuel c sels sid t p)).
  Proof.
    induction fuel as [|f [IH1 IH2]]; [split; reflexivity|]. split; intros c sels sid t p.
    - cbn [calcG]. unfold calc_bodyG.
      assert (Hv := variants_cstrip (calcG s frs o R true f) (calcG s frs o R false f) IH1 c sels sid t p).
      assert (Hf := fun c1 => fields_cstrip (calcG s frs o R true f) (calcfG s frs o R true f)
                                (calcG s frs o R false f) (calcfG s frs o R false f) IH1 IH2 c1 sels sid t p).
      destruct sels as [|x r]; [|destruct x as [a fd sub|on sub|n|]; try destruct r as [|y r']];
        try reflexivity;
        try (rewrite Hv; destruct (calc_variantsG s frs R true (calcG s frs o R true f) c _ sid t p) as [c1|];
             cbn [option_map]; [apply Hf|reflexivity]).
    - cbn [calcfG]. apply (fields_cstrip _ _ _ _ IH1 IH2).
  Qed.
End Other.

Definition with_other (o : opts) (b : bool) : opts :=
  mkOpts (o_cli o) (o_operation_name o) (o_struct_name o) (o_variables_derives o) (o_response_derives o) (o_deprecation o)
         (o_norm_rust o) (o_custom_scalars_module o) (o_extern_enums o) b (o_skip_none o)
         (o_serde_path o) (o_visibility o) (o_query_file o).

(* without the option = with the option, the catch-all variants removed — nothing else differs *)
Theorem other_variant_only_adds_unknown s frs o fuel c sels sid t p :
  calc s frs (with_other o false) fuel (cstrip c) sels sid t p =
  option_map cstrip (calc s frs (with_other o true) fuel c sels sid t p).
Proof.
  rewrite !calcG_is_calc. cbn [with_other o_other_variant].
  replace (calcG s frs (with_other o false) (render_field (with_other o false)) false fuel (cstrip c) sels sid t p)
    with (calcG s frs (with_other o true) (render_field (with_other o true)) false fuel (cstrip c) sels sid t p)
    by (destruct o as [a1 a2 a3 a4 a5 a6 a7 a8 a9 a10 a11 a12 a13 a14]; reflexivity).
  exact (proj1 (calcG_cstrip s frs (with_other o true) (render_field (with_other o true)) fuel) c sels sid t p).
Qed.

(* ---------- (2) skip_serializing_none *)
Definition with_skip (o : opts) (b : bool) : opts :=
  mkOpts (o_cli o) (o_operation_name o) (o_struct_name o) (o_variables_derives o) (o_response_derives o) (o_deprecation o)
         (o_norm_rust o) (o_custom_scalars_module o) (o_extern_enums o) (o_other_variant o) b
         (o_serde_path o) (o_visibility o) (o_query_file o).

Definition clear_skip_field (f : rfield) : rfield :=
  mkField (f_ident f) (f_ty f) (f_rename f) (f_flatten f) false (f_deprecated f) (f_deser_with f) (f_default f).
Definition clear_skip (x : option rfield) : option rfield := option_map clear_skip_field x.

Lemma render_skip_off_of_on o a b c d e f h :
  render_field (with_skip o false) a b c d e f h = clear_skip (render_field (with_skip o true) a b c d e f h).
Proof.
  unfold render_field, strategy. cbn [with_skip o_deprecation o_skip_none andb].
  destruct f as [[m|]|]; destruct (o_deprecation o) as [[]|]; reflexivity.
Qed.

(* response side: the expansion with the option off is the expansion with the option on, flags cleared *)
Theorem skip_none_only_sets_the_flag s frs o fuel c sels sid t p :
  calc s frs (with_skip o false) fuel (cmap clear_skip c) sels sid t p =
  option_map (cmap clear_skip) (calc s frs (with_skip o true) fuel c sels sid t p).
Proof.
  rewrite !calcG_is_calc. cbn [with_skip o_other_variant].
  replace (calcG s frs (with_skip o false) (render_field (with_skip o false)) (o_other_variant o) fuel (cmap clear_skip c) sels sid t p)
    with (calcG s frs (with_skip o true) (render_field (with_skip o false)) (o_other_variant o) fuel (cmap clear_skip c) sels sid t p)
    by (destruct o as [a1 a2 a3 a4 a5 a6 a7 a8 a9 a10 a11 a12 a13 a14]; reflexivity).
  exact (proj1 (calcG_cmap s frs (with_skip o true) (render_field (with_skip o true)) (render_field (with_skip o false))
                           (o_other_variant o) clear_skip (render_skip_off_of_on o) fuel) c sels sid t p).
Qed.

(* variables side: input objects and Variables — same members, same types, same wire keys; only the flag *)
Definition clear_skip_item (i : ritem) : ritem :=
  match i with
  | IStruct n d c fs => IStruct n d c (map clear_skip_field fs)
  | _ => i
  end.

Theorem input_item_skip s o inp :
  input_item s (with_skip o false) inp = clear_skip_item (input_item s (with_skip o true) inp).
Proof.
  unfold input_item. destruct o as [a1 a2 a3 a4 a5 a6 a7 a8 a9 a10 a11 a12 a13 a14].
  cbn [with_skip o_skip_none o_norm_rust andb]. destruct (ai_one_of inp); [reflexivity|].
  cbn [clear_skip_item]. rewrite map_map. reflexivity.
Qed.

Theorem variables_item_skip o op :
  variables_item (with_skip o false) op = clear_skip_item (variables_item (with_skip o true) op).
Proof.
  unfold variables_item. destruct o as [a1 a2 a3 a4 a5 a6 a7 a8 a9 a10 a11 a12 a13 a14].
  cbn [with_skip o_skip_none andb]. destruct (ro_vars op) as [|v r]; [reflexivity|].
  cbn [clear_skip_item]. rewrite map_map. reflexivity.
Qed.
