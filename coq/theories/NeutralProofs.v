(* NeutralProofs.v — C09: the wire names the generator emits do not depend on the Rust-side options. *)
From GC Require Import Base Rust Json TypeExpr Heck Naming NamingProofs Enums EnumsProofs Schema Query Attrs
  Codegen Serde.

(* a response field is written / read under its GraphQL response key whatever the options are *)
Theorem response_field_wire o g rust ft quals fl depr boxed f :
  render_field o (Some g) rust ft quals fl depr boxed = Some f -> field_wire f = g.
Proof.
  unfold render_field. intros H.
  assert (Hw : forall t sk d h df, field_wire (mkField rust t (rename_annotation g rust) fl sk d h df) = g).
  { intros. unfold field_wire, rename_annotation. cbn [f_rename f_ident].
    destruct (String.eqb_spec g rust) as [->|]; reflexivity. }
  destruct depr as [msg|]; destruct (strategy o); try discriminate; inversion H; apply Hw.
Qed.

(* ... and two option sets give the same wire key for the same selection *)
Corollary response_field_wire_neutral o1 o2 g r1 r2 ft1 ft2 q fl d b f1 f2 :
  render_field o1 (Some g) r1 ft1 q fl d b = Some f1 ->
  render_field o2 (Some g) r2 ft2 q fl d b = Some f2 -> field_wire f1 = field_wire f2.
Proof. intros H1 H2. rewrite (response_field_wire _ _ _ _ _ _ _ _ _ H1), (response_field_wire _ _ _ _ _ _ _ _ _ H2). reflexivity. Qed.

(* a flattened fragment member has no wire key of its own under any options *)
Theorem fragment_member_flattened o rust ft boxed f :
  render_field o None rust ft [QRequired] true None boxed = Some f -> f_flatten f = true /\ f_rename f = None.
Proof. unfold render_field. destruct (strategy o); intros H; inversion H; split; reflexivity. Qed.

(* what a field accepts depends on the options only through the type NAME: same qualifiers, same shape *)
Theorem response_field_shape o1 o2 g r1 r2 ft q fl d b f1 f2 :
  render_field o1 (Some g) r1 ft q fl d b = Some f1 ->
  render_field o2 (Some g) r2 ft q fl d b = Some f2 ->
  f_ty f1 = f_ty f2 /\ f_deser_with f1 = f_deser_with f2 /\ f_default f1 = f_default f2 /\ f_flatten f1 = f_flatten f2.
Proof.
  unfold render_field. intros H1 H2.
  destruct d as [msg|]; destruct (strategy o1); destruct (strategy o2); try discriminate;
    inversion H1; inversion H2; cbn; repeat split; reflexivity.
Qed.

(* variables and input-object members: the wire key is the GraphQL name for ANY case conversion,
   in particular for the ones the two normalizations use *)
Theorem member_wire_any_case tbl (conv : string -> string) name : wire_key (field_names tbl conv name) = name.
Proof. exact (field_wire_key tbl conv name). Qed.
Theorem oneof_wire_any_case tbl (conv : string -> string) name : wire_key (oneof_names tbl conv name) = name.
Proof. exact (oneof_wire_key tbl conv name). Qed.

(* the variants of the __typename-tagged enum are the GraphQL type names verbatim: nothing in the
   options enters *)
Lemma variant_wire_plain v p : variant_wire (mkVariant v None p false) = v.
Proof. reflexivity. Qed.
