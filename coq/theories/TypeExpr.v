(* TypeExpr.v — GraphQL type expressions, qualifier lists, and the model of
   codegen.rs:205 decorate_type, schema.rs:461 resolve_field_type and
   json_conversion.rs:334 from_json_type_inner.  MODEL ONLY (no proofs). *)
From GC Require Import Base Rust.

Inductive gtype := GNamed (n : string) | GList (t : gtype) | GNonNull (t : gtype).
Inductive qual := QRequired | QList.

Definition qual_eqb (a b : qual) : bool :=
  match a, b with QRequired, QRequired | QList, QList => true | _, _ => false end.

(* resolve_field_type: walk the SDL type outer-to-inner, pushing one qualifier per wrapper *)
Fixpoint quals_sdl (t : gtype) : list qual :=
  match t with GNamed _ => [] | GList u => QList :: quals_sdl u | GNonNull u => QRequired :: quals_sdl u end.
Fixpoint gname (t : gtype) : string :=
  match t with GNamed n => n | GList u => gname u | GNonNull u => gname u end.

(* introspection TypeRef: kind / name / ofType *)
Inductive jkind := KNonNull | KList | KOther.
Inductive typeref := TRef (kind : option jkind) (name : option string) (of_type : option typeref).

(* what a spec-compliant introspection result contains for a type expression *)
Fixpoint typeref_of (t : gtype) : typeref :=
  match t with
  | GNamed n => TRef (Some KOther) (Some n) None
  | GList u => TRef (Some KList) None (Some (typeref_of u))
  | GNonNull u => TRef (Some KNonNull) None (Some (typeref_of u))
  end.

(* from_json_type_inner: None = panic "Non-convertible type in JSON schema" *)
Fixpoint quals_json (r : typeref) : option (list qual * string) :=
  match r with
  | TRef (Some KNonNull) _ (Some inner) =>
      match quals_json inner with Some (q, n) => Some (QRequired :: q, n) | None => None end
  | TRef (Some KList) _ (Some inner) =>
      match quals_json inner with Some (q, n) => Some (QList :: q, n) | None => None end
  | TRef (Some _) (Some n) None => Some ([], n)
  | _ => None
  end.

(* decorate_type: iterate the qualifiers reversed (inner to outer) carrying `non_null`;
   None = panic "double required annotation" *)
Fixpoint dec_loop (qs_rev : list qual) (acc : rtype) (nn : bool) : option (rtype * bool) :=
  match qs_rev with
  | [] => Some (acc, nn)
  | QList :: r => if nn then dec_loop r (RVec acc) false else dec_loop r (RVec (ROption acc)) false
  | QRequired :: r => if nn then None else dec_loop r acc true
  end.
Definition decorate (n : string) (qs : list qual) : option rtype :=
  match dec_loop (rev qs) (RNamed n) false with
  | None => None
  | Some (t, nn) => Some (if nn then t else ROption t)
  end.

(* The rule of the property, written independently of the code: non-null removes one
   Option, a list becomes Vec, at every nesting level. *)
Fixpoint core (t : gtype) : rtype :=
  match t with
  | GNamed n => RNamed n
  | GList u => RVec (match u with GNonNull v => core v | _ => ROption (core u) end)
  | GNonNull u => core u
  end.
Definition spec_rust (t : gtype) : rtype := match t with GNonNull u => core u | _ => ROption (core t) end.

(* well-formed = no `!!` (the GraphQL grammar cannot produce it) *)
Fixpoint wf_gtype (t : gtype) : bool :=
  match t with
  | GNamed _ => true
  | GList u => wf_gtype u
  | GNonNull u => match u with GNonNull _ => false | _ => wf_gtype u end
  end.

(* is_optional / is_indirected of StoredInputFieldType *)
Definition quals_optional (qs : list qual) : bool :=
  match qs with QRequired :: _ => false | _ => true end.
Definition quals_indirected (qs : list qual) : bool := existsb (qual_eqb QList) qs.

(* built-in scalar meaning: what the alias block must say *)
Definition builtin_alias_spec : list (string * string) :=
  [("Boolean", "bool"); ("Float", "f64"); ("Int", "i64"); ("ID", "String")].
