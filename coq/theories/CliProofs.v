(* CliProofs.v — C19 / C20. *)
From GC Require Import Base Rust Heck Strs Attrs Codegen Cli.

(* ---------- file-system map *)
Fixpoint fs_get (fs : fsys) (p : list string) : option string :=
  match fs with [] => None | (q, d) :: r => if path_eqb q p then Some d else fs_get r p end.

Lemma path_eqb_refl p : path_eqb p p = true.
Proof. unfold path_eqb, lstr_eqb. induction p as [|x r IH]; cbn; [reflexivity|]. rewrite String.eqb_refl. exact IH. Qed.

Lemma path_eqb_eq p q : path_eqb p q = true -> p = q.
Proof.
  unfold path_eqb, lstr_eqb. revert q. induction p as [|x r IH]; intros [|y s]; cbn; try discriminate; [reflexivity|].
  intros H. apply andb_true_iff in H. destruct H as [H1 H2]. apply String.eqb_eq in H1. rewrite H1, (IH s H2). reflexivity.
Qed.

Lemma fs_get_put_same fs p c : fs_get (fs_put fs p c) p = Some c.
Proof.
  induction fs as [|[q d] r IH]; cbn [fs_put fs_get].
  - rewrite path_eqb_refl. reflexivity.
  - destruct (path_eqb q p) eqn:E; cbn [fs_get]; [rewrite path_eqb_refl; reflexivity|]. rewrite E. exact IH.
Qed.

Lemma fs_get_put_other fs p c q : path_eqb q p = false -> path_eqb p q = false -> fs_get (fs_put fs p c) q = fs_get fs q.
Proof.
  intros H H'. induction fs as [|[q0 d] r IH]; cbn [fs_put fs_get].
  - rewrite H'. reflexivity.
  - destruct (path_eqb q0 p) eqn:E; cbn [fs_get].
    + apply path_eqb_eq in E. subst q0. rewrite H'. reflexivity.
    + destruct (path_eqb q0 q); [reflexivity|exact IH].
Qed.

(* ---------- generate *)
Section Generate.
  Variables (header : string) (format : string -> string).

  Theorem failure_writes_nothing a lib fs :
    (forall code, lib <> Ok code) -> cli_generate header a lib format fs = (1, fs).
  Proof. intros H. unfold cli_generate. destruct lib as [code| |]; [destruct (H code eq_refl)|reflexivity|reflexivity]. Qed.

  Theorem success_writes_library_output a code fs p :
    dest_path a = Some p -> g_no_formatting a = true ->
    let r := cli_generate header a (Ok code) format fs in
    fst r = 0 /\ fs_get (snd r) p = Some (header ++ "
" ++ code)%string /\
    forall q, path_eqb q p = false -> path_eqb p q = false -> fs_get (snd r) q = fs_get fs q.
  Proof.
    intros Hp Hf. unfold cli_generate. rewrite Hf, Hp. cbn [fst snd]. split; [reflexivity|]. split.
    - apply fs_get_put_same.
    - intros q H H'. apply fs_get_put_other; assumption.
  Qed.

  Theorem formatted_output_goes_through_rustfmt a code fs p :
    dest_path a = Some p -> g_no_formatting a = false ->
    fs_get (snd (cli_generate header a (Ok code) format fs)) p = Some (format (header ++ "
" ++ code)%string).
  Proof. intros Hp Hf. unfold cli_generate. rewrite Hf, Hp. cbn [snd]. apply fs_get_put_same. Qed.
End Generate.

Theorem destination a name : last_component (g_query_path a) = Some name ->
  dest_path a = Some (match g_output_dir a with
                      | Some dir => dir ++ [(file_stem name ++ ".rs")%string]
                      | None => removelast (g_query_path a) ++ [(file_stem name ++ ".rs")%string]
                      end).
Proof. intros H. unfold dest_path. rewrite H. reflexivity. Qed.

(* every flag has the effect of the library option of the same meaning *)
Theorem flags_map a :
  let o := options_of_args a in
  o_cli o = true /\ o_operation_name o = g_selected a /\
  o_variables_derives o = g_var_derives a /\ o_response_derives o = g_resp_derives a /\
  o_custom_scalars_module o = g_scalars_module a /\ o_other_variant o = g_other_variant a /\
  o_extern_enums o = (match g_extern_enums a with Some l => l | None => [] end) /\
  o_visibility o = Some (visibility_of (g_visibility a)) /\
  o_deprecation o = (match g_deprecation a with Some s => parse_strategy_cli s | None => None end) /\
  o_norm_rust o = false /\ o_skip_none o = false /\ o_serde_path o = None.
Proof. cbn. repeat split. Qed.

Example visibility_values :
  visibility_of None = VPub /\ visibility_of (Some "pub") = VPub /\ visibility_of (Some "private") = VInherited /\
  visibility_of (Some "crate") = VRestricted "crate".
Proof. vm_compute. repeat split. Qed.

Example stems : map with_rs ["query.graphql"; "my.query.graphql"; "noext"; ".hidden"; "a.b.c.gql"]
  = ["query.rs"; "my.query.rs"; "noext.rs"; ".hidden.rs"; "a.b.c.rs"].
Proof. vm_compute. reflexivity. Qed.

(* ---------- introspect-schema: effects *)
Theorem introspect_failure_preserves output srv pretty fs :
  (forall b, srv <> R2xxJson b) -> cli_introspect output srv pretty fs = (1, fs, None).
Proof. intros H. unfold cli_introspect. destruct srv; try reflexivity. destruct (H body eq_refl). Qed.

Theorem introspect_success output body pretty fs :
  match output with
  | Some p => fst (fst (cli_introspect output (R2xxJson body) pretty fs)) = 0 /\
              fs_get (snd (fst (cli_introspect output (R2xxJson body) pretty fs))) p = Some (pretty body)
  | None => cli_introspect None (R2xxJson body) pretty fs = (0, fs, Some (pretty body))
  end.
Proof. destruct output as [p|]; cbn; [split; [reflexivity|apply fs_get_put_same]|reflexivity]. Qed.

(* ---------- header parsing *)
Definition all_ws (l : list N) : bool := forallb is_ws l.
Definition no_ws (l : list N) : bool := forallb (fun c => negb (is_ws c)) l.
Definition no_colon (l : list N) : bool := forallb (fun c => negb (c =? 58)%N) l.

Lemma ws_not_colon c : is_ws c = true -> (c =? 58)%N = false.
Proof.
  intros H. destruct (N.eqb_spec c 58) as [->|]; [|reflexivity]. vm_compute in H. discriminate.
Qed.

Lemma split_colon_found l : forall v acc, no_colon l = true ->
  split_colon (l ++ 58%N :: v) acc = Some (rev acc ++ l, v).
Proof.
  induction l as [|c r IH]; intros v acc H; cbn [app split_colon].
  - rewrite app_nil_r. reflexivity.
  - cbn [no_colon forallb] in H. apply andb_true_iff in H. destruct H as [Hc Hr].
    apply negb_true_iff in Hc. rewrite Hc. rewrite (IH v (c :: acc) Hr). cbn [rev]. rewrite <- app_assoc. reflexivity.
Qed.

Lemma split_colon_none l : forall acc, no_colon l = true -> split_colon l acc = None.
Proof.
  induction l as [|c r IH]; intros acc H; [reflexivity|]. cbn [split_colon].
  cbn [no_colon forallb] in H. apply andb_true_iff in H. destruct H as [Hc Hr].
  apply negb_true_iff in Hc. rewrite Hc. exact (IH _ Hr).
Qed.

Lemma drop_ws_app p l : all_ws p = true -> drop_ws_n (p ++ l) = drop_ws_n l.
Proof.
  induction p as [|c r IH]; intros H; [reflexivity|]. cbn [app drop_ws_n].
  cbn [all_ws forallb] in H. apply andb_true_iff in H. destruct H as [Hc Hr]. rewrite Hc. exact (IH Hr).
Qed.

Lemma drop_ws_head c l : is_ws c = false -> drop_ws_n (c :: l) = c :: l.
Proof. intros H. cbn [drop_ws_n]. rewrite H. reflexivity. Qed.

Lemma all_ws_rev p : all_ws p = true -> all_ws (rev p) = true.
Proof.
  unfold all_ws. rewrite !forallb_forall. intros H x Hx. apply H. apply in_rev. exact Hx.
Qed.

(* trimming padding around a core whose first and last characters are not white space *)
Lemma rev_core (a : N) mid z : rev (a :: mid ++ [z]) = z :: rev (a :: mid).
Proof. rewrite app_comm_cons, rev_app_distr. reflexivity. Qed.

Lemma trim_core p1 p2 a mid z : all_ws p1 = true -> all_ws p2 = true -> is_ws a = false -> is_ws z = false ->
  trim_n (p1 ++ (a :: mid ++ [z]) ++ p2) = a :: mid ++ [z].
Proof.
  intros H1 H2 Ha Hz. unfold trim_n. rewrite (drop_ws_app p1 _ H1).
  assert (E1 : drop_ws_n ((a :: mid ++ [z]) ++ p2) = (a :: mid ++ [z]) ++ p2).
  { cbn [app]. apply drop_ws_head. exact Ha. }
  rewrite E1. rewrite rev_app_distr. rewrite (drop_ws_app (rev p2) _ (all_ws_rev p2 H2)).
  rewrite rev_core. rewrite (drop_ws_head z _ Hz).
  change (rev (z :: rev (a :: mid))) with (rev (rev (a :: mid)) ++ [z]).
  rewrite rev_involutive. reflexivity.
Qed.

Lemma trim_single p1 p2 a : all_ws p1 = true -> all_ws p2 = true -> is_ws a = false ->
  trim_n (p1 ++ [a] ++ p2) = [a].
Proof.
  intros H1 H2 Ha. unfold trim_n. rewrite (drop_ws_app p1 _ H1). cbn [app].
  rewrite (drop_ws_head a _ Ha). change (a :: p2) with ([a] ++ p2).
  rewrite rev_app_distr. rewrite (drop_ws_app (rev p2) _ (all_ws_rev p2 H2)). cbn [rev app].
  rewrite (drop_ws_head a _ Ha). reflexivity.
Qed.

Lemma no_colon_app a b : no_colon (a ++ b) = no_colon a && no_colon b.
Proof. unfold no_colon. apply forallb_app. Qed.

Lemma all_ws_no_colon p : all_ws p = true -> no_colon p = true.
Proof.
  unfold all_ws, no_colon. rewrite !forallb_forall. intros H x Hx. apply negb_true_iff. apply ws_not_colon. exact (H x Hx).
Qed.

(* the accepting clause: any padding, a name without colon or white space, anything as value *)
Theorem header_accepted p1 p2 name v :
  all_ws p1 = true -> all_ws p2 = true -> name <> [] -> no_ws name = true -> no_colon name = true ->
  parse_header (p1 ++ name ++ p2 ++ 58%N :: v) = Some (name, trim_n v).
Proof.
  intros H1 H2 Hne Hw Hc. unfold parse_header.
  replace (p1 ++ name ++ p2 ++ 58%N :: v) with ((p1 ++ name ++ p2) ++ 58%N :: v) by (rewrite <- !app_assoc; reflexivity).
  rewrite split_colon_found.
  2:{ rewrite !no_colon_app, Hc, (all_ws_no_colon p1 H1), (all_ws_no_colon p2 H2). reflexivity. }
  cbn [rev app].
  assert (Ht : trim_n (p1 ++ name ++ p2) = name).
  { destruct name as [|a r]; [congruence|].
    cbn [no_ws forallb] in Hw. apply andb_true_iff in Hw. destruct Hw as [Ha Hr]. apply negb_true_iff in Ha.
    destruct (exists_last (l := a :: r)) as [init [z E]]; [discriminate|].
    destruct init as [|a' mid].
    - cbn in E. inversion E; subst. apply (trim_single p1 p2 z H1 H2 Ha).
    - cbn [app] in E. injection E as Ea Er. subst a' r.
      assert (Hz : is_ws z = false).
      { unfold no_ws in Hr. rewrite forallb_forall in Hr. apply negb_true_iff. apply Hr.
        apply in_or_app. right. left. reflexivity. }
      exact (trim_core p1 p2 a mid z H1 H2 Ha Hz). }
  rewrite Ht. destruct name as [|a r]; [congruence|].
  assert (He : existsb is_ws (a :: r) = false).
  { unfold no_ws in Hw. clear -Hw. induction (a :: r) as [|x l IH]; [reflexivity|].
    cbn [forallb existsb] in *. apply andb_true_iff in Hw. destruct Hw as [Hx Hl]. apply negb_true_iff in Hx.
    rewrite Hx. exact (IH Hl). }
  rewrite He. reflexivity.
Qed.

(* the refusing clauses *)
Theorem header_without_colon_refused input : no_colon input = true -> parse_header input = None.
Proof. intros H. unfold parse_header. rewrite (split_colon_none input [] H). reflexivity. Qed.

Theorem header_empty_name_refused p v : all_ws p = true -> parse_header (p ++ 58%N :: v) = None.
Proof.
  intros H. unfold parse_header. rewrite (split_colon_found p v [] (all_ws_no_colon p H)). cbn [rev app].
  assert (E : trim_n p = []).
  { unfold trim_n. replace p with (p ++ []) by apply app_nil_r. rewrite (drop_ws_app p [] H). reflexivity. }
  rewrite E. reflexivity.
Qed.

Theorem header_space_in_name_refused a w b v :
  no_ws a = true -> no_ws b = true -> a <> [] -> b <> [] -> is_ws w = true -> no_colon (a ++ w :: b) = true ->
  parse_header (a ++ w :: b ++ 58%N :: v) = None.
Proof.
  intros Ha Hb Hna Hnb Hw Hc. unfold parse_header.
  replace (a ++ w :: b ++ 58%N :: v) with ((a ++ w :: b) ++ 58%N :: v) by (rewrite <- app_assoc; reflexivity).
  rewrite (split_colon_found (a ++ w :: b) v [] Hc). cbn [rev app].
  (* the trimmed name keeps the inner white space *)
  destruct a as [|a0 ar]; [congruence|]. destruct (exists_last (l := b)) as [bi [bz Eb]]; [exact Hnb|].
  assert (Ha0 : is_ws a0 = false).
  { cbn [no_ws forallb] in Ha. apply andb_true_iff in Ha. apply negb_true_iff. exact (proj1 Ha). }
  assert (Hbz : is_ws bz = false).
  { unfold no_ws in Hb. rewrite forallb_forall in Hb. apply negb_true_iff. apply Hb. rewrite Eb. apply in_or_app. right. left. reflexivity. }
  assert (Ht : trim_n ((a0 :: ar) ++ w :: b) = (a0 :: ar) ++ w :: b).
  { rewrite Eb. pose proof (trim_core [] [] a0 (ar ++ w :: bi) bz eq_refl eq_refl Ha0 Hbz) as T.
    cbn [app] in T. rewrite app_nil_r in T. rewrite <- app_assoc in T. cbn [app] in T. exact T. }
  rewrite Ht. cbn [app].
  assert (He : existsb is_ws (a0 :: ar ++ w :: b) = true).
  { apply existsb_exists. exists w. split; [right; apply in_or_app; right; left; reflexivity|exact Hw]. }
  rewrite He. reflexivity.
Qed.
