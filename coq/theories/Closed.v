(* Closed.v — C02, the part of "the generated code type-checks" that is logic: every type a module
   mentions is defined exactly once in it, is a Rust primitive the generator uses, or is imported
   (`type X = super::X`, an externally defined enum reached through `use super::*`).
   The checker is executable (evaluated on the generator model per case) and sound w.r.t. the
   declarative statement. *)
From GC Require Import Base Rust Json TypeExpr Schema Query Attrs Codegen Serde.

Definition rust_prims : list string := ["String"; "i64"; "i32"; "f64"; "bool"; "()"; "serde_json::Value"].

Fixpoint leaf_name (t : rtype) : string :=
  match t with RNamed n => n | ROption u | RVec u | RBox u | RMap u => leaf_name u end.

(* the type names an item mentions *)
Definition mentions (i : ritem) : list string :=
  match i with
  | IStruct _ _ _ fs => map (fun f => leaf_name (f_ty f)) fs
  | ITagEnum _ _ _ _ vs | IExtEnum _ _ _ vs | IUntagged _ _ vs =>
      flat_map (fun v => match v_payload v with Some t => [leaf_name t] | None => [] end) vs
  | IAlias _ t => [leaf_name t]
  | _ => []
  end.

Section Closed.
  Variable items : list ritem.
  (* names that come from outside the module: externally defined enums *)
  Variable imported : list string.

  Definition defined (n : string) : bool := mem_str n (map item_name items).
  Definition resolves (n : string) : bool := mem_str n rust_prims || defined n || mem_str n imported.

  Definition items_closed : bool :=
    nodup_str (map item_name items) && forallb (fun i => forallb resolves (mentions i)) items.

  (* declarative statement *)
  Definition Closed : Prop :=
    NoDup (map item_name items) /\
    forall i n, In i items -> In n (mentions i) ->
      In n rust_prims \/ (exists d, In d items /\ item_name d = n) \/ In n imported.

  Theorem items_closed_sound : items_closed = true -> Closed.
  Proof.
    unfold items_closed, Closed. intros H. apply andb_true_iff in H. destruct H as [Hnd Hall].
    split; [apply nodup_str_NoDup; exact Hnd|].
    intros i n Hi Hn. rewrite forallb_forall in Hall. specialize (Hall i Hi).
    rewrite forallb_forall in Hall. specialize (Hall n Hn). unfold resolves in Hall.
    apply orb_true_iff in Hall. destruct Hall as [Hall|Himp].
    - apply orb_true_iff in Hall. destruct Hall as [Hp|Hd].
      + left. apply mem_str_In. exact Hp.
      + right. left. unfold defined in Hd. apply mem_str_In in Hd. apply in_map_iff in Hd.
        destruct Hd as [d [E Hin]]. exists d. split; assumption.
    - right. right. apply mem_str_In. exact Himp.
  Qed.

  Theorem items_closed_complete : Closed -> items_closed = true.
  Proof.
    unfold items_closed, Closed. intros [Hnd Hall]. apply andb_true_iff. split; [apply nodup_str_NoDup; exact Hnd|].
    apply forallb_forall. intros i Hi. apply forallb_forall. intros n Hn.
    destruct (Hall i n Hi Hn) as [Hp|[[d [Hd E]]|Himp]]; unfold resolves.
    - apply mem_str_In in Hp. rewrite Hp. reflexivity.
    - assert (defined n = true) as ->; [|apply orb_true_r || (rewrite orb_true_r; reflexivity)].
      unfold defined. apply mem_str_In. apply in_map_iff. exists d. split; assumption.
    - apply mem_str_In in Himp. rewrite Himp. apply orb_true_r.
  Qed.

  (* identifiers inside one item are pairwise distinct (E0124 / E0428 otherwise) *)
  Definition idents_distinct : bool :=
    forallb (fun i => match i with
                      | IStruct _ _ _ fs => nodup_str (map f_ident fs)
                      | ITagEnum _ _ _ _ vs | IExtEnum _ _ _ vs | IUntagged _ _ vs => nodup_str (map v_ident vs)
                      | IStrEnum _ _ vs _ _ _ _ => nodup_str vs
                      | _ => true end) items.
End Closed.

(* ---------- one self-contained module per operation *)
Lemma map_result_names {A B} (f : A -> result B) (g : A -> string) (h : B -> string) l ys :
  (forall x y, f x = Ok y -> h y = g x) -> map_result f l = Ok ys -> map h ys = map g l.
Proof.
  intros Hf. revert ys. induction l as [|x r IH]; intros ys H; cbn [map_result] in H.
  - inversion H. reflexivity.
  - destruct (f x) as [y| |] eqn:Ex; try discriminate. cbn [bind] in H.
    destruct (map_result f r) as [ys'| |] eqn:Er; try discriminate. cbn [bind] in H. inversion H; subst ys.
    cbn [map]. rewrite (Hf x y Ex), (IH ys' eq_refl). reflexivity.
Qed.

Lemma module_of_name s q o text n m : module_of s q o text n = Ok m -> m_operation_name m = n.
Proof.
  unfold module_of. destruct (select_operation o (rq_ops q) (norm o n)) as [op|]; [|discriminate].
  destruct (operation_items s (rq_frags q) o op) as [items|]; [|discriminate].
  destruct (match all_used s (rq_frags q) op with Some u => double_required s u | None => false end); [discriminate|].
  intros H. inversion H. reflexivity.
Qed.

(* CLI mode without a selected operation: exactly one module per operation of the document, in
   document order *)
Theorem one_module_per_operation s doc o text q ms :
  resolve s doc = Ok q -> o_operation_name o = None -> o_cli o = true ->
  generate s doc o text = Ok ms -> map m_operation_name ms = map ro_name (rq_ops q).
Proof.
  intros Hq Hn Hc. unfold generate. rewrite Hq. cbn [bind]. rewrite Hn, Hc.
  apply (map_result_names (fun op => module_of s q o text (ro_name op)) ro_name m_operation_name).
  intros op m H. exact (module_of_name _ _ _ _ _ _ H).
Qed.

(* every module carries the alias block, its own Variables and its own ResponseData root *)
Theorem module_self_contained s frs o op items :
  operation_items s frs o op = Some items ->
  incl (builtin_alias_items) items /\ In (variables_item o op) items /\
  exists resp, expand_root s frs o "ResponseData" (ro_sel op) (ro_root op) (camel (ro_name op)) = Some resp /\ incl resp items.
Proof.
  unfold operation_items. destruct (all_used s frs op) as [u|]; [|discriminate].
  destruct (fragment_items s frs o u) as [frags|]; [|discriminate].
  destruct (expand_root s frs o "ResponseData" (ro_sel op) (ro_root op) (camel (ro_name op))) as [resp|]; [|discriminate].
  intros H. injection H as H.
  assert (E : items = builtin_alias_items ++ scalar_items s o u ++ enum_items s o u ++ input_items s o u ++
                      [variables_item o op] ++ frags ++ resp) by (rewrite <- H; reflexivity).
  clear H. rewrite E. generalize builtin_alias_items as a. intros a.
  generalize (scalar_items s o u) as b, (enum_items s o u) as c, (input_items s o u) as d. intros b c d.
  split; [|split].
  - intros x Hx. apply in_or_app. left. exact Hx.
  - do 4 (apply in_or_app; right). apply in_or_app. left. left. reflexivity.
  - exists resp. split; [reflexivity|]. intros x Hx. do 6 (apply in_or_app; right). exact Hx.
Qed.
