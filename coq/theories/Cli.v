(* Cli.v — models of graphql_client_cli: generate.rs (flags -> options, destination path, effects)
   and introspection_schema.rs (header parsing, request selection, effects).  MODEL ONLY. *)
From GC Require Import Base Rust Heck Strs Attrs Codegen.

(* ================================ generate ================================ *)
Record gen_args := mkArgs {
  g_query_path : list string;              (* path components; the last one is the file name *)
  g_selected : option string;
  g_var_derives : option string;
  g_resp_derives : option string;
  g_deprecation : option string;           (* raw flag value *)
  g_no_formatting : bool;
  g_visibility : option string;
  g_output_dir : option (list string);
  g_scalars_module : option string;
  g_other_variant : bool;
  g_extern_enums : option (list string)
}.

(* DeprecationStrategy::from_str: trim, exact lower-case words; anything else leaves the default *)
Definition parse_strategy_cli (s : string) : option dstrategy :=
  let t := trim s in
  if String.eqb t "allow" then Some DAllow else if String.eqb t "deny" then Some DDeny
  else if String.eqb t "warn" then Some DWarn else None.

(* generate.rs:48-60, after the repair of `private` *)
Definition visibility_of (v : option string) : vis :=
  match v with
  | None => VPub
  | Some s =>
      let l := Attrs.lower s in
      if String.eqb l "pub" then VPub
      else if String.eqb l "private" || String.eqb l "inherited" then VInherited
      else VRestricted s
  end.

Definition options_of_args (a : gen_args) : opts :=
  mkOpts true (g_selected a) None (g_var_derives a) (g_resp_derives a)
         (match g_deprecation a with Some s => parse_strategy_cli s | None => None end)
         false (g_scalars_module a)
         (match g_extern_enums a with Some l => l | None => [] end)
         (g_other_variant a) false None (Some (visibility_of (g_visibility a))) None.

(* Path::with_extension("rs") on a file name: the part after the LAST dot is replaced, unless
   the only dot is the leading one (then there is no extension) *)
Fixpoint last_dot (cs : list ascii) (i : nat) (best : option nat) : option nat :=
  match cs with
  | [] => best
  | c :: r => last_dot r (S i) (if Ascii.eqb c "."%char then Some i else best)
  end.
Definition file_stem (name : string) : string :=
  match last_dot (chars name) 0 None with
  | None | Some 0 => name
  | Some i => unchars (firstn i (chars name))
  end.
Definition with_rs (name : string) : string := (file_stem name ++ ".rs")%string.

Definition last_component (p : list string) : option string := last (map Some p) None.

(* output_dir.join(file_name).with_extension("rs")  |  query_path.with_extension("rs") *)
Definition dest_path (a : gen_args) : option (list string) :=
  match last_component (g_query_path a) with
  | None => None
  | Some name =>
      Some (match g_output_dir a with
            | Some dir => dir ++ [with_rs name]
            | None => removelast (g_query_path a) ++ [with_rs name]
            end)
  end.

(* effects: a file system as a finite map path -> contents; `lib` is the library's answer *)
Definition fsys := list (list string * string).
Definition path_eqb (a b : list string) : bool := lstr_eqb a b.
Fixpoint fs_put (fs : fsys) (p : list string) (c : string) : fsys :=
  match fs with
  | [] => [(p, c)]
  | (q, d) :: r => if path_eqb q p then (p, c) :: r else (q, d) :: fs_put r p c
  end.

Definition cli_generate (header : string) (a : gen_args) (lib : result string) (format : string -> string) (fs : fsys)
  : nat * fsys :=
  match lib with
  | Ok code =>
      let text := (header ++ "
" ++ code)%string in
      let text := if g_no_formatting a then text else format text in
      match dest_path a with
      | Some p => (0, fs_put fs p text)
      | None => (1, fs)
      end
  | _ => (1, fs)
  end.

(* ================================ introspect-schema ================================ *)
(* strings as code points; White_Space as str::trim / split_whitespace see it *)
Definition is_ws (c : N) : bool :=
  ((9 <=? c) && (c <=? 13) || (c =? 32) || (c =? 133) || (c =? 160) || (c =? 5760) ||
   ((8192 <=? c) && (c <=? 8202)) || (c =? 8232) || (c =? 8233) || (c =? 8239) || (c =? 8287) || (c =? 12288))%N.

Fixpoint drop_ws_n (l : list N) : list N :=
  match l with c :: r => if is_ws c then drop_ws_n r else l | [] => [] end.
Definition trim_n (l : list N) : list N := rev (drop_ws_n (rev (drop_ws_n l))).

Fixpoint split_colon (l pre : list N) : option (list N * list N) :=
  match l with
  | [] => None
  | c :: r => if (c =? 58)%N then Some (rev pre, r) else split_colon r (c :: pre)
  end.

(* Header::from_str *)
Definition parse_header (input : list N) : option (list N * list N) :=
  match split_colon input [] with
  | None => None                                         (* a colon is required *)
  | Some (n, v) =>
      let name := trim_n n in
      let value := trim_n v in
      match name with
      | [] => None                                       (* field name is required *)
      | _ => if existsb is_ws name then None             (* no whitespace in the field name *)
             else Some (name, value)
      end
  end.

(* which of the four introspection documents is sent (index into CliFacts.introspection_docs) *)
Definition chosen_document (is_one_of specify_by_url : bool) : nat :=
  match is_one_of, specify_by_url with
  | false, false => 0 | true, false => 1 | false, true => 2 | true, true => 3
  end.

Inductive reply :=
| R2xxJson (body : string)      (* 2xx with a JSON body *)
| R2xxGarbage
| RStatus (code : nat)          (* non-2xx, any body *)
| RRefused
| RClosed.

(* effects of the command (after the repair: the output file is created only once the reply is parsed) *)
Definition cli_introspect (output : option (list string)) (srv : reply) (pretty : string -> string) (fs : fsys)
  : nat * fsys * option string (* stdout *) :=
  match srv with
  | R2xxJson body =>
      match output with
      | Some p => (0, fs_put fs p (pretty body), None)
      | None => (0, fs, Some (pretty body))
      end
  | _ => (1, fs, None)
  end.
