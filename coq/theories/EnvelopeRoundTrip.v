(* EnvelopeRoundTrip.v — C15, the "preserves all of it" clause:
     deserialize (serialize r) = r   for every Response / Error value,
   over the declarations TRANSLATED from graphql_client/src/lib.rs (Gen/LibTypes.v).

   A value of the envelope is described by the boolean predicates wt_* below (they say which
   rvalue trees are values of the Rust types Response<Data>, Error, Location, PathFragment,
   HashMap<String, serde_json::Value>): integers are i32, a HashMap is its key-sorted entry
   list (the model's canonical form of an unordered map), `Data` is any JSON that is not null
   (the property's quantifier: "data types that never serialize to null"). *)
From GC Require Import Base Rust Json Enums Serde SerdeLemmas RunSerde Envelope EnvelopeProofs.
From GC.Gen Require Import LibTypes.
From Coq Require Import OrderedTypeEx.

Notation SR f := (ser f lib_items).

(* ---------- round trip at a type: serialises, to something that is not null, and reads back *)
Definition RT (f : nat) (t : rtype) (v : rvalue) : Prop :=
  exists j, SR f t v = Some j /\ is_null j = false /\ D f t j = Some v.
(* ... where null is allowed (Option) *)
Definition RT0 (f : nat) (t : rtype) (v : rvalue) : Prop :=
  exists j, SR f t v = Some j /\ D f t j = Some v.

Lemma rt_option f u p v :
  (forall x, p x = true -> RT f u x) -> wt_opt p v = true -> RT0 (S f) (ROption u) v.
Proof.
  intros H Hv. destruct v; try discriminate; cbn [wt_opt] in Hv.
  - exists JNull. split; reflexivity.
  - destruct (H v Hv) as [j [Hs [Hn Hd]]]. exists j. split; [exact Hs|].
    rewrite deser_option_step, Hn, Hd. reflexivity.
Qed.

Lemma rt_vec f u p v :
  (forall x, p x = true -> RT0 f u x) -> wt_seq p v = true -> RT (S f) (RVec u) v.
Proof.
  intros H Hv. destruct v; try discriminate; cbn [wt_seq] in Hv.
  assert (G : exists js, map_opt (SR f u) l = Some js /\ map_opt (D f u) js = Some l).
  { induction l as [|x r IH]; [exists []; split; reflexivity|].
    cbn [forallb] in Hv. apply andb_true_iff in Hv. destruct Hv as [Hx Hr].
    destruct (H x Hx) as [j [Hs Hd]]. destruct (IH Hr) as [js [Hss Hdd]].
    exists (j :: js). cbn [map_opt]. rewrite Hs, Hss, Hd, Hdd. split; reflexivity. }
  destruct G as [js [Hs Hd]]. exists (JArr js). split; [|split].
  - cbn [ser]. rewrite Hs. reflexivity.
  - reflexivity.
  - rewrite deser_vec_step, Hd. reflexivity.
Qed.

(* ---------- HashMap<String, serde_json::Value> *)
Lemma insert_at_end {A} k (v : A) acc :
  forallb (fun e => gt_key (fst e) (k, v)) acc = true -> insert_kv k v acc = acc ++ [(k, v)].
Proof.
  induction acc as [|[k' v'] r IH]; intros H; [reflexivity|].
  cbn [forallb] in H. apply andb_true_iff in H. destruct H as [H1 H2].
  cbn [insert_kv]. unfold gt_key in H1. cbn [fst] in H1.
  destruct (String.compare k k'); try discriminate.
  cbn [app]. f_equal. exact (IH H2).
Qed.

Lemma fold_insert_increasing (Dx : rtype -> json -> option rvalue) u (m : list (string * rvalue)) :
  increasing m = true ->
  (forall e, In e m -> exists j, snd e = VJson j) ->
  (forall j, Dx u j = Some (VJson j)) ->
  forall acc,
    forallb (fun a => forallb (gt_key (fst a)) m) acc = true ->
    fold_left (fun acc e => match acc, Dx u (snd e) with
                            | Some a, Some v => Some (insert_kv (fst e) v a) | _, _ => None end)
              (map (fun e => (fst e, match snd e with VJson j => j | _ => JNull end)) m) (Some acc)
    = Some (acc ++ m).
Proof.
  intros Hinc Hj HD. induction m as [|[k v] r IH]; intros acc Hacc.
  - cbn [map fold_left]. rewrite app_nil_r. reflexivity.
  - cbn [increasing] in Hinc. apply andb_true_iff in Hinc. destruct Hinc as [Hk Hr].
    cbn [map fold_left fst snd]. destruct (Hj (k, v) (or_introl eq_refl)) as [j Ev]. cbn [snd] in Ev. subst v.
    rewrite HD. rewrite insert_at_end.
    + rewrite IH.
      * rewrite <- app_assoc. reflexivity.
      * exact Hr.
      * intros e He. apply Hj. right. exact He.
      * rewrite forallb_app. apply andb_true_iff. split.
        -- apply forallb_forall. intros a Ha.
           assert (X := proj1 (forallb_forall _ _) Hacc a Ha). cbn [forallb] in X.
           apply andb_true_iff in X. exact (proj2 X).
        -- cbn [forallb fst]. rewrite Hk. reflexivity.
    + apply forallb_forall. intros a Ha.
      assert (X := proj1 (forallb_forall _ _) Hacc a Ha). cbn [forallb] in X.
      apply andb_true_iff in X. destruct X as [X _]. unfold gt_key in *. cbn [fst] in *. exact X.
Qed.

Lemma rt_map f v : wt_map v = true -> RT (S (S f)) (RMap (RNamed "serde_json::Value")) v.
Proof.
  intros Hv. destruct v; try discriminate. cbn [wt_map] in Hv. apply andb_true_iff in Hv. destruct Hv as [Hinc Hj].
  assert (Hj' : forall e, In e m -> exists j, snd e = VJson j).
  { intros e He. assert (X := proj1 (forallb_forall _ _) Hj e He). cbn beta in X.
    destruct (snd e); try discriminate. eexists; reflexivity. }
  exists (JObj (map (fun e => (fst e, match snd e with VJson j => j | _ => JNull end)) m)). split; [|split].
  - cbn [ser]. rewrite (map_opt_all _ (fun e => (fst e, match snd e with VJson j => j | _ => JNull end))); [reflexivity|].
    intros e He. destruct (Hj' e He) as [j Ej]. rewrite Ej. reflexivity.
  - reflexivity.
  - change (D (S (S f)) (RMap (RNamed "serde_json::Value")) (JObj ?m'))
      with (deser_map (D (S f)) (RNamed "serde_json::Value") m').
    unfold deser_map. rewrite (fold_insert_increasing (D (S f)) _ m Hinc Hj'); [reflexivity| |reflexivity].
    intros j. reflexivity.
Qed.

(* ---------- one-step unfolding of the serialiser at a struct *)
Lemma ser_struct_step f n nm d c fields vals :
  prim_ser n (VStruct vals) = None -> find_item n lib_items = Some (IStruct nm d c fields) ->
  SR (S f) (RNamed n) (VStruct vals) = option_map JObj (ser_fields (SR f) vals fields).
Proof. intros Hp Hf. cbn [ser]. rewrite Hp, Hf. reflexivity. Qed.

Lemma eqb_true a b : String.eqb a b = true -> a = b.
Proof. apply String.eqb_eq. Qed.

Arguments in_i32 : simpl never.

Ltac split_andb :=
  repeat match goal with H : _ && _ = true |- _ => apply andb_true_iff in H; destruct H end.
Ltac eqb_subst :=
  repeat match goal with H : String.eqb _ _ = true |- _ => apply eqb_true in H; subst end.

Lemma rt_i32 f v : wt_i32 v = true -> RT (S f) (RNamed "i32") v.
Proof.
  destruct v; try discriminate. cbn [wt_i32]. intros H. exists (JInt z). split; [reflexivity|]. split; [reflexivity|].
  apply i32_accepts. exact H.
Qed.

Lemma rt_string f v : wt_str v = true -> RT (S f) (RNamed "String") v.
Proof. destruct v; try discriminate. intros _. exists (JStr s). repeat split. Qed.

(* ---------- Location *)
Lemma rt_loc f v : wt_loc v = true -> RT (S (S f)) (RNamed "Location") v.
Proof.
  intros H. destruct v as [| | | | | | |vals| | | |]; try discriminate.
  destruct vals as [|[k1 a] [|[k2 b] [|? ?]]]; try discriminate.
  cbn [wt_loc] in H. split_andb. eqb_subst.
  destruct a as [| | |l| | | | | | | |]; try discriminate.
  destruct b as [| | |c| | | | | | | |]; try discriminate.
  cbn [wt_i32] in *.
  destruct (find_struct _ _ translated_location) as [nm [d [cc Hf]]].
  exists (JObj [("line", JInt l); ("column", JInt c)]). split; [|split].
  - rewrite (ser_struct_step (S f) "Location" nm d cc location_fields _ eq_refl Hf). reflexivity.
  - reflexivity.
  - rewrite (deser_struct_step (S f) "Location" nm d cc location_fields _ eq_refl Hf).
    unfold deser_struct. cbn -[deser in_i32].
    rewrite (i32_accepts f l), (i32_accepts f c) by assumption. reflexivity.
Qed.

(* ---------- PathFragment (untagged, Key before Index) *)
Lemma rt_frag f v : wt_frag v = true -> RT (S (S f)) (RNamed "PathFragment") v.
Proof.
  intros H. destruct v as [| | | | | | | |i p| | |]; try discriminate.
  destruct p as [x|]; try discriminate.
  destruct x as [| | |z| |s| | | | | |]; try discriminate; cbn [wt_frag] in H; split_andb; eqb_subst.
  - exists (JInt z). split; [reflexivity|]. split; [reflexivity|].
    cbn [deser]. unfold prim_deser at 1. cbn -[in_i32]. 
    match goal with H : in_i32 z = true |- _ => rewrite H end. reflexivity.
  - exists (JStr s). split; [reflexivity|]. split; reflexivity.
Qed.

Lemma rt_weaken f t v : RT f t v -> RT0 f t v.
Proof. intros [j [H1 [_ H2]]]. exists j. split; assumption. Qed.

Lemma rt_opt_vec f u p v :
  (forall x, p x = true -> RT f u x) -> wt_opt (wt_seq p) v = true -> RT0 (S (S f)) (ROption (RVec u)) v.
Proof.
  intros H. apply rt_option. intros x Hx. apply (rt_vec f u p); [|exact Hx].
  intros y Hy. apply rt_weaken. exact (H y Hy).
Qed.

Lemma rt_opt_map f v : wt_opt wt_map v = true -> RT0 (S (S (S f))) (ROption (RMap (RNamed "serde_json::Value"))) v.
Proof. apply rt_option. intros x Hx. exact (rt_map f x Hx). Qed.

(* ---------- Error *)
Lemma rt_error f v : wt_error v = true -> RT (S (S (S (S (S f))))) (RNamed "Error") v.
Proof.
  intros H. destruct v as [| | | | | | |vals| | | |]; try discriminate.
  destruct vals as [|[k1 a] [|[k2 b] [|[k3 c] [|[k4 d] [|? ?]]]]]; try discriminate.
  cbn [wt_error] in H. split_andb. eqb_subst.
  destruct (rt_string (S (S (S f))) a) as [j1 [S1 [_ D1]]]; [assumption|].
  destruct (rt_opt_vec (S (S f)) (RNamed "Location") wt_loc b (rt_loc f)) as [j2 [S2 D2]]; [assumption|].
  destruct (rt_opt_vec (S (S f)) (RNamed "PathFragment") wt_frag c (rt_frag f)) as [j3 [S3 D3]]; [assumption|].
  destruct (rt_opt_map (S f) d) as [j4 [S4 D4]]; [assumption|].
  destruct (find_struct _ _ translated_error) as [nm [dd [cc Hf]]].
  exists (JObj [("message", j1); ("locations", j2); ("path", j3); ("extensions", j4)]). split; [|split].
  - rewrite (ser_struct_step _ "Error" nm dd cc error_fields _ eq_refl Hf).
    cbn -[ser]. rewrite S1, S2, S3, S4. reflexivity.
  - reflexivity.
  - rewrite (deser_struct_step _ "Error" nm dd cc error_fields _ eq_refl Hf).
    unfold deser_struct. cbn -[deser]. rewrite D1. cbn -[deser]. rewrite D2. cbn -[deser].
    rewrite D3. cbn -[deser]. rewrite D4. reflexivity.
Qed.

(* ---------- Response<Data>, Data opaque and never null *)
Lemma rt_data f v : wt_data v = true -> RT (S f) (RNamed "Data") v.
Proof.
  destruct v; try discriminate. cbn [wt_data]. intros H. apply negb_true_iff in H.
  exists j. split; [reflexivity|]. split; [exact H|reflexivity].
Qed.

Lemma rt_response f v : wt_response v = true -> RT (8 + f) (RNamed "Response") v.
Proof.
  intros H. destruct v as [| | | | | | |vals| | | |]; try discriminate.
  destruct vals as [|[k1 a] [|[k2 b] [|[k3 c] [|? ?]]]]; try discriminate.
  cbn [wt_response] in H. split_andb. eqb_subst.
  change (8 + f) with (S (S (S (S (S (S (S (S f)))))))).
  destruct (rt_option (S (S (S (S (S (S f)))))) (RNamed "Data") wt_data a (rt_data _)) as [j1 [S1 D1]]; [assumption|].
  destruct (rt_opt_vec (S (S (S (S (S f))))) (RNamed "Error") wt_error b (rt_error f)) as [j2 [S2 D2]]; [assumption|].
  destruct (rt_opt_map (S (S (S (S f)))) c) as [j3 [S3 D3]]; [assumption|].
  destruct (find_struct _ _ translated_response) as [nm [dd [cc Hf]]].
  exists (JObj [("data", j1); ("errors", j2); ("extensions", j3)]). split; [|split].
  - rewrite (ser_struct_step _ "Response" nm dd cc response_fields _ eq_refl Hf).
    cbn -[ser]. rewrite S1, S2, S3. reflexivity.
  - reflexivity.
  - rewrite (deser_struct_step _ "Response" nm dd cc response_fields _ eq_refl Hf).
    unfold deser_struct. cbn -[deser]. rewrite D1. cbn -[deser]. rewrite D2. cbn -[deser].
    rewrite D3. reflexivity.
Qed.


(* ====================================================================================== *)
(* The converse: whatever the deserialiser returns at an envelope type is a value of that
   type (the wt predicates), for EVERY input JSON (object or positional array, duplicate keys, unknown
   members ...) and every fuel.  So the round trip covers every value a body can produce. *)

(* ---------- inversion of the field-claiming walk *)
Lemma claim_inv dv own : forall m seen rest seen' rest',
  claim dv own m seen rest = Some (seen', rest') ->
  forall i x, assoc i seen' = Some x ->
    assoc i seen = Some x \/ exists fd v, In fd own /\ f_ident fd = i /\ dv fd v = Some x.
Proof.
  induction m as [|[k v] r IH]; intros seen rest seen' rest' H i x Hx.
  - cbn [claim] in H. inversion H; subst. left. exact Hx.
  - cbn [claim] in H. destruct (find_field k own) as [fd|] eqn:Ef.
    + destruct (assoc (f_ident fd) seen); [discriminate|].
      destruct (dv fd v) as [y|] eqn:Ed; [|discriminate].
      destruct (IH _ _ _ _ H i x Hx) as [Hs|Hs]; [|right; exact Hs].
      cbn [assoc] in Hs. destruct (String.eqb_spec i (f_ident fd)) as [E|E]; [|left; exact Hs].
      inversion Hs; subst. right. exists fd, v. split; [exact (proj1 (find_field_some _ _ _ Ef))|]. split; [reflexivity|exact Ed].
    + destruct (IH _ _ _ _ H i x Hx) as [Hs|Hs]; [left; exact Hs|right; exact Hs].
Qed.

Lemma map_opt_Forall2 {A B} (g : A -> option B) l ys :
  map_opt g l = Some ys -> Forall2 (fun x y => g x = Some y) l ys.
Proof.
  revert ys. induction l as [|x r IH]; intros ys H; cbn [map_opt] in H.
  - inversion H. constructor.
  - destruct (g x) as [y|] eqn:E; [|discriminate]. destruct (map_opt g r) as [ys'|]; [|discriminate].
    inversion H; subst. constructor; [exact E|exact (IH _ eq_refl)].
Qed.

Lemma Forall2_cons_inv {A B} (R : A -> B -> Prop) a l ys :
  Forall2 R (a :: l) ys -> exists y ys', ys = y :: ys' /\ R a y /\ Forall2 R l ys'.
Proof. intros H. inversion H; subst. eauto. Qed.
Lemma Forall2_nil_inv {A B} (R : A -> B -> Prop) ys : Forall2 R [] ys -> ys = [].
Proof. intros H. inversion H. reflexivity. Qed.
Lemma Forall2_impl {A B} (R R' : A -> B -> Prop) l ys :
  (forall a b, In a l -> R a b -> R' a b) -> Forall2 R l ys -> Forall2 R' l ys.
Proof.
  intros HR H. induction H as [|a b l ys Hab H IH]; constructor.
  - apply HR; [left; reflexivity|exact Hab].
  - apply IH. intros a' b' Hin. apply HR. right. exact Hin.
Qed.

Section StructInv.
  Variables (Dx Dh : rtype -> json -> option rvalue) (env : list ritem).
  Variable fields : list rfield.
  Hypothesis Hplain : forallb (fun fd => negb (f_flatten fd)) fields = true.
  Hypothesis Hi : NoDup (map f_ident fields).

  (* where the value of a member comes from: some JSON read at the member's type, or serde's
     missing-field rule *)
  Definition member_from (fd : rfield) (e : string * rvalue) : Prop :=
    fst e = f_ident fd /\
    ((exists v, deser_field Dx Dh fd v = Some (snd e)) \/ field_value [] fd = Some (snd e)).

  Lemma struct_inv m r :
    deser_struct Dx Dh env fields m = Some r ->
    exists vs, r = VStruct vs /\ Forall2 member_from fields vs.
  Proof.
    unfold deser_struct. rewrite (filter_no_flatten fields Hplain).
    destruct (claim (deser_field Dx Dh) fields m [] []) as [[seen rest]|] eqn:Ec; [|discriminate].
    rewrite (serve_no_flatten Dx env seen fields rest Hplain).
    destruct (map_opt _ fields) as [vs|] eqn:Em; [|discriminate].
    cbn [option_map]. intros H. inversion H; subst. exists vs. split; [reflexivity|].
    apply map_opt_Forall2 in Em. revert Em. apply Forall2_impl.
    intros fd e Hfd He. cbn beta in He.
    destruct (field_value seen fd) as [x|] eqn:Ev; [|discriminate]. cbn [option_map] in He. inversion He; subst e.
    split; [reflexivity|]. cbn [snd].
    unfold field_value in Ev. destruct (assoc (f_ident fd) seen) as [y|] eqn:Ea.
    - inversion Ev; subst y.
      destruct (claim_inv _ _ _ _ _ _ _ Ec _ _ Ea) as [Hn|[fd' [v [Hin [Hid Hd]]]]]; [discriminate|].
      assert (fd' = fd) by (apply (nodup_map_inj f_ident fields); auto). subst fd'.
      left. exists v. exact Hd.
    - right. unfold field_value. cbn [assoc]. exact Ev.
  Qed.

  Lemma positional_inv : forall fs l vs,
    deser_positional Dx Dh fs l = Some vs ->
    Forall2 (fun fd e => fst e = f_ident fd /\ ((exists v, deser_field Dx Dh fd v = Some (snd e)) \/ field_value [] fd = Some (snd e)))
            fs (combine (map f_ident fs) vs).
  Proof.
    induction fs as [|fd r IH]; intros l vs H; destruct l as [|x xr]; cbn [deser_positional] in H; try discriminate.
    - inversion H. constructor.
    - destruct (deser_field Dx Dh fd x) as [v|] eqn:E; [|discriminate].
      destruct (deser_positional Dx Dh r xr) as [vs'|] eqn:E2; [|discriminate].
      inversion H; subst. cbn [map combine]. constructor.
      + split; [reflexivity|]. left. exists x. exact E.
      + exact (IH _ _ E2).
  Qed.
End StructInv.

Lemma named_struct_inv f n nm d c fields j r :
  (forall j, prim_deser n j = None) -> find_item n lib_items = Some (IStruct nm d c fields) ->
  forallb (fun fd => negb (f_flatten fd)) fields = true -> NoDup (map f_ident fields) ->
  D (S f) (RNamed n) j = Some r ->
  exists vs, r = VStruct vs /\ Forall2 (member_from (D f) (deser henv f henv)) fields vs.
Proof.
  intros Hp Hf Hplain Hi H. cbn [deser] in H. rewrite Hp, Hf in H.
  destruct j as [| | | | |l|m]; try discriminate.
  - assert (Hx : existsb f_flatten fields = false).
    { clear -Hplain. induction fields as [|fd r IH]; [reflexivity|]. cbn [forallb existsb] in *.
      apply andb_true_iff in Hplain. destruct Hplain as [H1 H2]. apply negb_true_iff in H1. rewrite H1. exact (IH H2). }
    rewrite Hx in H. destruct (deser_positional _ _ fields l) as [vs|] eqn:E; [|discriminate].
    cbn [option_map] in H. inversion H; subst. eexists. split; [reflexivity|].
    exact (positional_inv _ _ _ _ _ E).
  - exact (struct_inv _ _ lib_items fields Hplain Hi m r H).
Qed.

(* ---------- the container types *)
Lemma inv_option f u p :
  (forall j x, D f u j = Some x -> p x = true) ->
  forall j x, D (S f) (ROption u) j = Some x -> wt_opt p x = true.
Proof.
  intros H j x Hx. rewrite deser_option_step in Hx. destruct (is_null j).
  - inversion Hx. reflexivity.
  - destruct (D f u j) as [y|] eqn:E; [|discriminate]. inversion Hx. cbn [wt_opt]. exact (H j y E).
Qed.

Lemma inv_vec f u p :
  (forall j x, D f u j = Some x -> p x = true) ->
  forall j x, D (S f) (RVec u) j = Some x -> wt_seq p x = true.
Proof.
  intros H j x Hx. destruct j as [| | | | |l|]; try discriminate. rewrite deser_vec_step in Hx.
  destruct (map_opt (D f u) l) as [ys|] eqn:E; [|discriminate]. inversion Hx; subst. cbn [wt_seq].
  apply map_opt_Forall2 in E. clear Hx. induction E as [|a y l' ys' Hay E' IH]; [reflexivity|].
  cbn [forallb]. rewrite (H a y Hay), IH. reflexivity.
Qed.

(* ---------- HashMap: inserting keeps the entry list strictly increasing *)
Lemma gt_trans a b c : String.compare a b = Gt -> String.compare b c = Gt -> String.compare a c = Gt.
Proof.
  intros H1 H2.
  assert (L1 : String_as_OT.lt b a).
  { apply String_as_OT.cmp_lt. unfold String_as_OT.cmp. rewrite String.compare_antisym, H1. reflexivity. }
  assert (L2 : String_as_OT.lt c b).
  { apply String_as_OT.cmp_lt. unfold String_as_OT.cmp. rewrite String.compare_antisym, H2. reflexivity. }
  assert (L3 := String_as_OT.lt_trans _ _ _ L2 L1). apply String_as_OT.cmp_lt in L3. unfold String_as_OT.cmp in L3.
  rewrite String.compare_antisym, L3. reflexivity.
Qed.

Lemma insert_keeps_gt {A} k0 k (v : A) l :
  String.compare k k0 = Gt -> forallb (gt_key k0) l = true -> forallb (gt_key k0) (insert_kv k v l) = true.
Proof.
  intros Hk. induction l as [|[k' v'] r IH]; intros H.
  - cbn [insert_kv forallb]. unfold gt_key. cbn [fst]. rewrite Hk. reflexivity.
  - cbn [forallb] in H. apply andb_true_iff in H. destruct H as [H1 H2]. cbn [insert_kv].
    destruct (String.compare k k') eqn:E; cbn [forallb].
    + rewrite H2. unfold gt_key. cbn [fst]. rewrite Hk. reflexivity.
    + rewrite H1, H2. unfold gt_key at 1. cbn [fst]. rewrite Hk. reflexivity.
    + rewrite H1, (IH H2). reflexivity.
Qed.

Lemma insert_increasing {A} k (v : A) l : increasing l = true -> increasing (insert_kv k v l) = true.
Proof.
  induction l as [|[k' v'] r IH]; intros H; [reflexivity|].
  cbn [increasing] in H. apply andb_true_iff in H. destruct H as [H1 H2]. cbn [insert_kv].
  destruct (String.compare k k') eqn:E.
  - apply String.compare_eq_iff in E. subst k'. cbn [increasing]. rewrite H1, H2. reflexivity.
  - assert (G : String.compare k' k = Gt) by (rewrite String.compare_antisym, E; reflexivity).
    cbn [increasing forallb]. rewrite H1, H2. unfold gt_key at 1. cbn [fst]. rewrite G. cbn [andb].
    rewrite andb_true_r. apply forallb_forall. intros e He.
    assert (X := proj1 (forallb_forall _ _) H1 e He). unfold gt_key in *.
    destruct (String.compare (fst e) k') eqn:E2; try discriminate. rewrite (gt_trans _ _ _ E2 G). reflexivity.
  - cbn [increasing]. rewrite (IH H2), (insert_keeps_gt k' k v r E H1). reflexivity.
Qed.

Lemma insert_all {A} (p : string * A -> bool) k v l :
  p (k, v) = true -> forallb p l = true -> forallb p (insert_kv k v l) = true.
Proof.
  intros Hp. induction l as [|[k' v'] r IH]; intros H; cbn [insert_kv forallb]; [rewrite Hp; reflexivity|].
  cbn [forallb] in H. apply andb_true_iff in H. destruct H as [H1 H2].
  destruct (String.compare k k'); cbn [forallb].
  - rewrite Hp, H2. reflexivity.
  - rewrite Hp, H1, H2. reflexivity.
  - rewrite H1, (IH H2). reflexivity.
Qed.

Lemma deser_map_wt (Dx : rtype -> json -> option rvalue) u m r :
  (forall j x, Dx u j = Some x -> is_vjson x = true) ->
  deser_map Dx u m = Some r -> wt_map r = true.
Proof.
  intros HD. unfold deser_map.
  assert (G : forall acc res,
    increasing acc = true -> forallb (fun e => is_vjson (snd e)) acc = true ->
    fold_left (fun acc e => match acc, Dx u (snd e) with
                            | Some a, Some v => Some (insert_kv (fst e) v a) | _, _ => None end) m (Some acc) = Some res ->
    increasing res = true /\ forallb (fun e => is_vjson (snd e)) res = true).
  { induction m as [|[k v] rest IH]; intros acc res H1 H2 H; cbn [fold_left fst snd] in H.
    - inversion H; subst. split; assumption.
    - destruct (Dx u v) as [x|] eqn:E.
      + apply (IH _ _ (insert_increasing k x acc H1)); [|exact H].
        apply insert_all; [exact (HD v x E)|exact H2].
      + exfalso. clear -H. induction rest as [|e rest IH]; [discriminate|]. cbn [fold_left] in H. exact (IH H). }
  destruct (fold_left _ m (Some [])) as [res|] eqn:E; [|discriminate].
  cbn [option_map]. intros H. inversion H; subst. cbn [wt_map].
  destruct (G [] res eq_refl eq_refl E) as [G1 G2]. rewrite G1, G2. reflexivity.
Qed.

Lemma inv_map f j x : D f (RMap (RNamed "serde_json::Value")) j = Some x -> wt_map x = true.
Proof.
  destruct f as [|f]; [discriminate|]. destruct j as [| | | | | |m]; try discriminate.
  change (D (S f) (RMap (RNamed "serde_json::Value")) (JObj m))
    with (deser_map (D f) (RNamed "serde_json::Value") m).
  apply deser_map_wt. intros j y. destruct f as [|f]; [discriminate|].
  intros H. inversion H. reflexivity.
Qed.

(* ---------- the leaves *)
Lemma inv_i32 f j x : D f (RNamed "i32") j = Some x -> wt_i32 x = true.
Proof.
  destruct f as [|f]; [discriminate|]. cbn [deser]. unfold prim_deser. cbn -[in_i32].
  destruct j; try discriminate. destruct (in_i32 z) eqn:E; [|discriminate].
  intros H. inversion H. exact E.
Qed.

Lemma inv_string f j x : D f (RNamed "String") j = Some x -> wt_str x = true.
Proof.
  destruct f as [|f]; [discriminate|]. cbn [deser]. unfold prim_deser. cbn.
  destruct j; try discriminate. intros H. inversion H. reflexivity.
Qed.

Lemma inv_data f j x : D (S f) (ROption (RNamed "Data")) j = Some x -> wt_opt wt_data x = true.
Proof.
  rewrite deser_option_step. destruct (is_null j) eqn:En; intros H; [inversion H; reflexivity|].
  destruct f as [|f]; [discriminate|].
  change (D (S f) (RNamed "Data") j) with (Some (VJson j)) in H. inversion H. cbn [wt_opt wt_data]. rewrite En. reflexivity.
Qed.

(* ---------- Location, PathFragment, Error, Response *)
Ltac struct_members H :=
  repeat match type of H with
         | Forall2 _ (_ :: _) _ =>
             let e := fresh "e" in let t := fresh "t" in let E := fresh "E" in let Q := fresh "Q" in
             apply Forall2_cons_inv in H; destruct H as [e [t [-> [[E Q] H]]]];
             destruct e as [? ?]; cbn [fst snd] in E, Q; subst
         | Forall2 _ [] _ => apply Forall2_nil_inv in H; subst
         end.

Lemma inv_loc f j x : D f (RNamed "Location") j = Some x -> wt_loc x = true.
Proof.
  destruct f as [|f]; [discriminate|]. intros H.
  destruct (find_struct _ _ translated_location) as [nm [d [cc Hf]]].
  destruct (named_struct_inv f "Location" nm d cc location_fields j x (fun _ => eq_refl) Hf eq_refl) as [vs [-> Hm]];
    [nodup_concrete|exact H|].
  unfold location_fields in Hm. struct_members Hm.
  cbn [wt_loc f_ident]. cbn [String.eqb Ascii.eqb Bool.eqb andb].
  destruct Q as [[v Hv]|Hv]; [|discriminate]. destruct Q0 as [[v0 Hv0]|Hv0]; [|discriminate].
  unfold deser_field in Hv, Hv0; cbn [f_deser_with f_ty] in Hv, Hv0.
  rewrite (inv_i32 _ _ _ Hv), (inv_i32 _ _ _ Hv0). reflexivity.
Qed.

Lemma inv_frag f j x : D f (RNamed "PathFragment") j = Some x -> wt_frag x = true.
Proof.
  destruct f as [|f]; [discriminate|]. cbn [deser]. unfold prim_deser at 1. cbn -[deser].
  destruct (D f (RNamed "String") j) as [y|] eqn:E1; cbn [option_map].
  - intros H. inversion H. assert (W := inv_string _ _ _ E1). destruct y; try discriminate. reflexivity.
  - destruct (D f (RNamed "i32") j) as [y|] eqn:E2; cbn [option_map]; [|discriminate].
    intros H. inversion H. assert (W := inv_i32 _ _ _ E2). destruct y; try discriminate. cbn [wt_frag wt_i32] in *.
    rewrite W. reflexivity.
Qed.

Lemma inv_opt u p :
  (forall f j x, D f u j = Some x -> p x = true) ->
  forall f j x, D f (ROption u) j = Some x -> wt_opt p x = true.
Proof. intros H [|f] j x Hx; [discriminate|]. exact (inv_option f u p (H f) j x Hx). Qed.

Lemma inv_seq u p :
  (forall f j x, D f u j = Some x -> p x = true) ->
  forall f j x, D f (RVec u) j = Some x -> wt_seq p x = true.
Proof. intros H [|f] j x Hx; [discriminate|]. exact (inv_vec f u p (H f) j x Hx). Qed.

Ltac member_cases :=
  repeat match goal with
         | Q : (exists v, deser_field _ _ _ v = Some _) \/ field_value [] _ = Some _ |- _ =>
             destruct Q as [[? Q]|Q];
             [unfold deser_field in Q; cbn [f_deser_with f_ty] in Q
             |unfold field_value in Q; cbn in Q; try discriminate; inversion Q; subst; clear Q]
         end.

Lemma inv_error f j x : D f (RNamed "Error") j = Some x -> wt_error x = true.
Proof.
  destruct f as [|f]; [discriminate|]. intros H.
  destruct (find_struct _ _ translated_error) as [nm [d [cc Hf]]].
  destruct (named_struct_inv f "Error" nm d cc error_fields j x (fun _ => eq_refl) Hf eq_refl) as [vs [-> Hm]];
    [nodup_concrete|exact H|].
  unfold error_fields in Hm. struct_members Hm.
  cbn [wt_error f_ident]. cbn [String.eqb Ascii.eqb Bool.eqb andb].
  member_cases;
    repeat match goal with
           | Q : D _ (RNamed "String") _ = Some _ |- _ => rewrite (inv_string _ _ _ Q); clear Q
           | Q : D _ (ROption (RVec (RNamed "Location"))) _ = Some _ |- _ =>
               rewrite (inv_opt _ _ (inv_seq _ _ inv_loc) _ _ _ Q); clear Q
           | Q : D _ (ROption (RVec (RNamed "PathFragment"))) _ = Some _ |- _ =>
               rewrite (inv_opt _ _ (inv_seq _ _ inv_frag) _ _ _ Q); clear Q
           | Q : D _ (ROption (RMap (RNamed "serde_json::Value"))) _ = Some _ |- _ =>
               rewrite (inv_opt _ _ inv_map _ _ _ Q); clear Q
           end; reflexivity.
Qed.

Lemma inv_opt_data f j x : D f (ROption (RNamed "Data")) j = Some x -> wt_opt wt_data x = true.
Proof. destruct f as [|f]; [discriminate|]. apply inv_data. Qed.

Lemma inv_response f j x : D f (RNamed "Response") j = Some x -> wt_response x = true.
Proof.
  destruct f as [|f]; [discriminate|]. intros H.
  destruct (find_struct _ _ translated_response) as [nm [d [cc Hf]]].
  destruct (named_struct_inv f "Response" nm d cc response_fields j x (fun _ => eq_refl) Hf eq_refl) as [vs [-> Hm]];
    [nodup_concrete|exact H|].
  unfold response_fields in Hm. struct_members Hm.
  cbn [wt_response f_ident]. cbn [String.eqb Ascii.eqb Bool.eqb andb].
  member_cases;
    repeat match goal with
           | Q : D _ (ROption (RNamed "Data")) _ = Some _ |- _ => rewrite (inv_opt_data _ _ _ Q); clear Q
           | Q : D _ (ROption (RVec (RNamed "Error"))) _ = Some _ |- _ =>
               rewrite (inv_opt _ _ (inv_seq _ _ inv_error) _ _ _ Q); clear Q
           | Q : D _ (ROption (RMap (RNamed "serde_json::Value"))) _ = Some _ |- _ =>
               rewrite (inv_opt _ _ inv_map _ _ _ Q); clear Q
           end; reflexivity.
Qed.

(* ---------- the statements used by Properties/C15.v *)
Theorem response_round_trip v : wt_response v = true ->
  exists j, ser FUEL lib_items (RNamed "Response") v = Some j /\
            deser henv FUEL lib_items (RNamed "Response") j = Some v.
Proof.
  intros H. change FUEL with (8 + 392). destruct (rt_response 392 v H) as [j [H1 [_ H2]]].
  exists j. split; assumption.
Qed.

Theorem error_round_trip v : wt_error v = true ->
  exists j, ser FUEL lib_items (RNamed "Error") v = Some j /\
            deser henv FUEL lib_items (RNamed "Error") j = Some v.
Proof.
  intros H. change FUEL with (5 + 395). destruct (rt_error 395 v H) as [j [H1 [_ H2]]].
  exists j. split; assumption.
Qed.

(* non-vacuity: a value with every optional member present *)
Example wt_response_example :
  wt_response (VStruct [("data", VSome (VJson (JObj [("a", JInt 1)])));
     ("errors", VSome (VSeq [VStruct [("message", VStr "m");
        ("locations", VSome (VSeq [VStruct [("line", VInt 1); ("column", VInt 2)]]));
        ("path", VSome (VSeq [VVariant "Key" (Some (VStr "a")); VVariant "Index" (Some (VInt 3))]));
        ("extensions", VSome (VMap [("a", VJson JNull); ("b", VJson (JArr [JInt 1]))]))]]));
     ("extensions", VNone)]) = true.
Proof. vm_compute. reflexivity. Qed.

(* every value the deserialiser returns is in the domain of the round trip: so the body a
   server sent, once accepted, survives serialisation and re-reading unchanged *)
Theorem response_values_wt j r :
  deser henv FUEL lib_items (RNamed "Response") j = Some r -> wt_response r = true.
Proof. apply inv_response. Qed.

Theorem error_values_wt j r :
  deser henv FUEL lib_items (RNamed "Error") j = Some r -> wt_error r = true.
Proof. apply inv_error. Qed.

Theorem accepted_body_preserved b r :
  deser henv FUEL lib_items (RNamed "Response") b = Some r ->
  exists j, ser FUEL lib_items (RNamed "Response") r = Some j /\
            deser henv FUEL lib_items (RNamed "Response") j = Some r.
Proof. intros H. apply response_round_trip. exact (response_values_wt b r H). Qed.
