(* RunC17.v — executable entry points for the C17 correspondence check. *)
From GC Require Import Base Rust TypeExpr Heck Strs Naming Enums Schema Query Attrs Dfs Codegen RunGen.

Inductive case :=
| CProg (g : gcase)                          (* the worker process finished; model vs observed outcome *)
| COutcome (kind : string) (outcome : string).   (* how each worker process ended: ok / err / panic / signal / timeout / abort *)

Definition corr (c : case) : bool := match c with CProg g => gen_class g | _ => true end.

(* the property: a result, an error, or a Rust panic with a message — never a signal, an abort
   or a hang *)
Definition prop_clean (c : case) : bool :=
  match c with
  | COutcome _ o => String.eqb o "ok" || String.eqb o "err" || String.eqb o "panic"
  | _ => true
  end.
