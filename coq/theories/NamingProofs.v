(* NamingProofs.v — proofs about Naming.v (C11). *)
From GC Require Import Base Heck Naming.

Lemma div2_lt n : 1 < n -> 0 < Nat.div2 n /\ Nat.div2 n < n.
Proof.
  intros H. split.
  - destruct n as [|[|n]]; cbn; lia.
  - apply Nat.lt_div2. lia.
Qed.

Lemma bs_loop_lt f tbl w : forall base size, base + size <= List.length tbl -> 0 < size ->
  bs_loop f tbl w base size < List.length tbl.
Proof.
  induction f as [|f IH]; intros base size Hb Hs; cbn [bs_loop]; [lia|].
  destruct (Nat.leb_spec size 1) as [H1|H1]; [lia|].
  destruct (div2_lt size H1) as [Hh0 Hh].
  destruct (match String.compare _ _ with Gt => true | _ => false end); apply IH; lia.
Qed.

(* soundness of the search for ANY table (sorted or not): a hit is a table entry equal to w *)
Lemma bsearch_sound tbl w i : bsearch tbl w = Some i -> nth i tbl "" = w /\ In w tbl.
Proof.
  unfold bsearch. destruct tbl as [|x r]; [discriminate|].
  set (b := bs_loop _ _ _ _ _).
  assert (Hb : b < List.length (x :: r)).
  { unfold b. apply bs_loop_lt; cbn [List.length]; lia. }
  destruct (String.eqb_spec (nth b (x :: r) "") w) as [E|E]; [|discriminate].
  intros H; inversion H; subst i. split; [exact E|].
  rewrite <- E. apply nth_In. exact Hb.
Qed.

Lemma keyword_replace_hit tbl w i : bsearch tbl w = Some i -> keyword_replace tbl w = (w ++ "_")%string.
Proof. intros H. unfold keyword_replace. rewrite H. destruct (bsearch_sound _ _ _ H) as [-> _]. reflexivity. Qed.

Lemma keyword_replace_miss tbl w : bsearch tbl w = None -> keyword_replace tbl w = w.
Proof. intros H. unfold keyword_replace. rewrite H. reflexivity. Qed.

Lemma append_underscore_neq w : (w ++ "_")%string <> w.
Proof.
  induction w as [|c w IH]; cbn; [discriminate|]. intros H. inversion H. auto.
Qed.

(* completeness is a FINITE statement about the table: every entry is found *)
Definition table_complete (tbl : list string) : bool :=
  forallb (fun w => match bsearch tbl w with Some _ => true | None => false end) tbl.

Theorem keyword_replace_iff tbl : table_complete tbl = true ->
  forall w, keyword_replace tbl w = (w ++ "_")%string <-> In w tbl.
Proof.
  intros Hc w. split.
  - intros H. destruct (bsearch tbl w) as [i|] eqn:E.
    + exact (proj2 (bsearch_sound _ _ _ E)).
    + rewrite (keyword_replace_miss _ _ E) in H. symmetry in H. destruct (append_underscore_neq _ H).
  - intros Hin. unfold table_complete in Hc. rewrite forallb_forall in Hc. specialize (Hc w Hin).
    destruct (bsearch tbl w) as [i|] eqn:E; [|discriminate]. exact (keyword_replace_hit _ _ _ E).
Qed.

Theorem keyword_replace_other tbl w : ~ In w tbl -> keyword_replace tbl w = w.
Proof.
  intros H. destruct (bsearch tbl w) as [i|] eqn:E.
  - destruct (H (proj2 (bsearch_sound _ _ _ E))).
  - exact (keyword_replace_miss _ _ E).
Qed.

(* the escaped identifier is never itself a keyword, provided no table entry ends in "_"
   after another entry (finite check) *)
Definition escape_closed (tbl : list string) : bool :=
  forallb (fun w => negb (mem_str ((w ++ "_")%string) tbl)) tbl.

Theorem keyword_replace_not_keyword tbl : table_complete tbl = true -> escape_closed tbl = true ->
  forall w, ~ In (keyword_replace tbl w) tbl.
Proof.
  intros Hc He w Hin. destruct (bsearch tbl w) as [i|] eqn:E.
  - rewrite (keyword_replace_hit _ _ _ E) in Hin.
    pose proof (proj2 (bsearch_sound _ _ _ E)) as Hw.
    unfold escape_closed in He. rewrite forallb_forall in He. specialize (He w Hw).
    apply negb_true_iff in He. apply mem_str_In in Hin. congruence.
  - rewrite (keyword_replace_miss _ _ E) in Hin.
    unfold table_complete in Hc. rewrite forallb_forall in Hc. specialize (Hc _ Hin). rewrite E in Hc. discriminate.
Qed.

(* wire key of a struct-field-like position is the GraphQL name, for ANY case conversion *)
Theorem field_wire_key tbl snake name : wire_key (field_names tbl snake name) = name.
Proof.
  unfold wire_key, field_names, rename_annotation; cbn.
  destruct (String.eqb_spec name (keyword_replace tbl (snake name))) as [E|E]; cbn; congruence.
Qed.

(* @oneOf member: same shape of computation as a field, with camel instead of snake *)
Theorem oneof_wire_key tbl camel name : wire_key (oneof_names tbl camel name) = name.
Proof.
  unfold wire_key, oneof_names, rename_annotation; cbn.
  destruct (String.eqb_spec name (keyword_replace tbl (camel name))) as [E|E]; cbn; congruence.
Qed.

(* the pre-fix computation is refuted exactly on names that are their own camel form and keywords *)
Theorem oneof_prefix_refuted tbl camel name : table_complete tbl = true ->
  camel name = name -> In name tbl ->
  wire_key (oneof_names_prefix tbl camel name) = (name ++ "_")%string.
Proof.
  intros Hc Hcm Hin.
  unfold wire_key, oneof_names_prefix, rename_annotation; cbn. rewrite Hcm, String.eqb_refl. cbn.
  apply keyword_replace_iff; assumption.
Qed.

(* enum variants: the identifier is never a table keyword, whatever the normalization *)
Theorem enum_variant_not_keyword tbl norm camel v :
  table_complete tbl = true -> escape_closed tbl = true ->
  ~ In (enum_variant_ident tbl norm camel v) tbl.
Proof. intros Hc He. unfold enum_variant_ident. apply keyword_replace_not_keyword; assumption. Qed.
