(* RunC10.v — executable entry points for the C10 correspondence check. *)
From GC Require Import Base Rust Json Heck Naming Strs Enums.
From GC.Gen Require Import Keywords.

Inductive robs :=
| RVariant (dbg : string) (ser : json)     (* Debug text of the variant, re-serialised JSON *)
| ROther (ser : json)                      (* Debug text started with `Other(` *)
| RErr                                     (* rejected *)
| RSplit                                   (* from_str and from_value disagree *)
| RNoCompile.

Inductive case :=
| CRun (values : list string) (norm : bool) (input : json) (obs : robs)
| CItem (name : string) (values : list string) (norm : bool)
        (resp_derives var_derives : option string) (obs : option ritem).

Definition tbl := rust_keywords.
Definition camel := to_upper_camel_case.

Definition model_run (values : list string) (norm : bool) (input : json) : robs :=
  let it := enum_item tbl norm camel [] "E" values in
  if negb (enum_idents_ok (map (enum_variant_ident tbl norm camel) values)) then RNoCompile
  else match item_deser it input with
       | None => RErr
       | Some (EVariant i) => match item_ser it (EVariant i) with Some j => RVariant i j | None => RErr end
       | Some (EOther s) => match item_ser it (EOther s) with Some j => ROther j | None => RErr end
       end.

Definition robs_eqb (a b : robs) : bool :=
  match a, b with
  | RVariant d j, RVariant d' j' => String.eqb d d' && json_eqb j j'
  | ROther j, ROther j' => json_eqb j j'
  | RErr, RErr | RSplit, RSplit | RNoCompile, RNoCompile => true
  | _, _ => false
  end.

Definition corr (c : case) : bool :=
  match c with
  | CRun vs n i o => robs_eqb (model_run vs n i) o
  | CItem name vs n rd vd o =>
      let d := enum_derives (all_response_derives rd) (all_variable_derives vd) in
      opt_eqb ritem_eqb (Some (enum_item tbl n camel d name vs)) o
  end.

(* the property, stated on the observation alone *)
Definition prop (c : case) : bool :=
  match c with
  | CRun vs n (JStr s) o =>
      match o with
      | RVariant _ j => mem_str s vs && json_eqb j (JStr s)       (* a schema value: own variant, back to its name *)
      | ROther j => negb (mem_str s vs) && json_eqb j (JStr s)    (* any other string: Other(s), back to s *)
      | _ => false
      end
  | CRun vs n _ o => match o with RErr => true | _ => false end    (* non-strings are rejected *)
  | CItem _ _ _ _ _ _ => true
  end.

(* distinct schema values get distinct variants: checked per enum on the item *)
Definition prop_item (c : case) : bool :=
  match c with
  | CItem _ vs _ _ _ (Some (IStrEnum _ _ variants sa so da dd)) =>
      so && dd &&
      lstr_eqb (map snd sa) vs && lstr_eqb (map fst da) vs &&       (* wire strings are the schema names, in order *)
      lstr_eqb (map fst sa) (map snd da) &&                          (* both impls agree on the variant *)
      lstr_eqb (map fst sa ++ ["Other(String)"]) variants
  | CItem _ _ _ _ _ _ => false
  | _ => true
  end.

(* known class K4/K3: identifiers of two values collide, or one is `Other` *)
Definition in_ident_collision (c : case) : bool :=
  match c with
  | CRun vs n _ _ | CItem _ vs n _ _ _ => negb (enum_idents_ok (map (enum_variant_ident tbl n camel) vs))
  end.
Definition known_ident_collision (c : case) : bool := negb (in_ident_collision c).
