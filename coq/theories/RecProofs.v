(* RecProofs.v — C12 / C17: the two recursion tests are complete and terminate. *)
From GC Require Import Base Rust TypeExpr Heck Strs Naming Enums Schema Query Attrs Dfs Codegen.

(* ---------- generic consequence of Dfs.v: a node on a cycle is reported, with the fuel the
   generator's model uses *)
Section Generic.
  Variable succs : string -> list string.
  Variable nodes : list string.
  Hypothesis Hin : forall a b, In b (succs a) -> In b nodes.

  Lemma on_cycle_detected n : In n nodes -> path succs n n ->
    exists v, dfs succs (S (List.length nodes)) n [] n = Some (true, v).
  Proof.
    intros Hn Hp.
    destruct (dfs succs (S (List.length nodes)) n [] n) as [[[|] v]|] eqn:E.
    - eauto.
    - exfalso. exact (dfs_complete succs _ _ _ E Hp).
    - exfalso. refine (dfs_terminates succs nodes Hin n (S (List.length nodes)) [] n Hn _ _ E).
      + intros [].
      + pose proof (unvisited_le_nodes nodes []). lia.
  Qed.

  Lemma never_out_of_fuel n : In n nodes -> dfs succs (S (List.length nodes)) n [] n <> None.
  Proof.
    intros Hn. apply (dfs_terminates succs nodes Hin n); [exact Hn|intros []|].
    pose proof (unvisited_le_nodes nodes []). lia.
  Qed.

  (* rotating a cycle: the target of the first edge of a cycle lies on a cycle too *)
  Lemma path_trans a b c : path succs a b -> path succs b c -> path succs a c.
  Proof. induction 1 as [a b E|a b c' E P IH]; intros Q; [eapply pathS; eauto|eapply pathS; [exact E|exact (IH Q)]]. Qed.

  Lemma cycle_rotate n b : edge succs n b -> (b = n \/ path succs b n) -> path succs b b.
  Proof.
    intros E [->|P]; [apply path1; exact E|]. eapply path_trans; [exact P|apply path1; exact E].
  Qed.

  Lemma path_first a c : path succs a c -> exists b, edge succs a b /\ (b = c \/ path succs b c).
  Proof. destruct 1 as [a b E|a b c E P]; eauto. Qed.

  (* the sub-graph of edges whose target the test does NOT flag has no cycle *)
  Variable flagged : string -> bool.
  Hypothesis flagged_complete : forall b, In b nodes -> path succs b b -> flagged b = true.

  Definition unflagged_succs (a : string) : list string := filter (fun b => negb (flagged b)) (succs a).

  Lemma unflagged_sub a b : path unflagged_succs a b -> path succs a b.
  Proof.
    induction 1 as [a b E|a b c E P IH].
    - apply path1. unfold edge, unflagged_succs in E. apply filter_In in E. exact (proj1 E).
    - eapply pathS; [|exact IH]. unfold edge, unflagged_succs in E. apply filter_In in E. exact (proj1 E).
  Qed.

  Theorem no_unflagged_cycle n : ~ path unflagged_succs n n.
  Proof.
    intros P. destruct (path_first _ _ (unflagged_sub _ _ P)) as [b0 _].
    (* take the first edge of the unflagged cycle itself *)
    inversion P as [a b E|a b c E Q]; subst.
    - unfold edge, unflagged_succs in E. apply filter_In in E. destruct E as [E Hf].
      assert (F : flagged n = true) by (apply flagged_complete; [exact (Hin _ _ E)|apply path1; exact E]).
      rewrite F in Hf. discriminate.
    - unfold edge, unflagged_succs in E. apply filter_In in E. destruct E as [E Hf].
      assert (F : flagged b = true).
      { apply flagged_complete; [exact (Hin _ _ E)|].
        apply (cycle_rotate n b E). right. exact (unflagged_sub _ _ Q). }
      rewrite F in Hf. discriminate.
  Qed.
End Generic.

(* ---------- inputs *)
Lemma kind_input_in s n : find_kind_sdl s n = Some KInput -> In n (map ai_name (a_inputs s)).
Proof.
  unfold find_kind_sdl.
  destruct (mem_str n (skipn 5 (a_scalars s))); [discriminate|].
  destruct (existsb (fun i => String.eqb (ai_name i) n) (a_inputs s)) eqn:E.
  - intros _. apply existsb_exists in E. destruct E as [i [Hi He]]. apply String.eqb_eq in He. subst n.
    apply in_map. exact Hi.
  - destruct (existsb _ (a_unions s)); [discriminate|].
    destruct (existsb _ (a_interfaces s)); [discriminate|].
    destruct (existsb _ (a_objects s)); [discriminate|].
    destruct (existsb _ (a_enums s)); [discriminate|].
    destruct (mem_str n (firstn 5 (a_scalars s))); discriminate.
Qed.

Lemma input_succs_in s a b : In b (input_succs s a) -> In b (map ai_name (a_inputs s)).
Proof.
  unfold input_succs. destruct (find_input s a) as [inp|]; [|intros []].
  intros H. apply in_flat_map in H. destruct H as [fld [_ H]].
  destruct (quals_indirected (quals_sdl (snd fld))); [destruct H|].
  destruct (find_kind_sdl s (gname (snd fld))) as [[| | | | |]|] eqn:E; try (destruct H; fail).
  destruct H as [<-|[]]. apply kind_input_in. exact E.
Qed.

Lemma nodes_len s : List.length (map ai_name (a_inputs s)) = List.length (a_inputs s).
Proof. apply map_length. Qed.

Theorem input_cycle_is_flagged s b :
  In b (map ai_name (a_inputs s)) -> path (input_succs s) b b -> input_is_recursive s b = true.
Proof.
  intros Hb Hp. unfold input_is_recursive. rewrite <- (nodes_len s).
  destruct (on_cycle_detected (input_succs s) _ (input_succs_in s) b Hb Hp) as [v Hv]. rewrite Hv. reflexivity.
Qed.

Theorem input_test_terminates s n :
  In n (map ai_name (a_inputs s)) -> dfs (input_succs s) (S (List.length (a_inputs s))) n [] n <> None.
Proof. intros Hn. rewrite <- (nodes_len s). apply (never_out_of_fuel (input_succs s) _ (input_succs_in s)). exact Hn. Qed.

(* finite size: the members that are neither in a list nor boxed form no cycle *)
Theorem inputs_finite_size s n :
  ~ path (unflagged_succs (input_succs s) (input_is_recursive s)) n n.
Proof.
  apply (no_unflagged_cycle (input_succs s) (map ai_name (a_inputs s)) (input_succs_in s)).
  intros b Hb Hp. exact (input_cycle_is_flagged s b Hb Hp).
Qed.

(* ---------- fragments *)
Fixpoint spreads_defined (frs : list rfrag) (x : rsel) : bool :=
  match x with
  | RSpread n => match find_frag frs n with Some _ => true | None => false end
  | RField _ _ sub | RInline _ sub => forallb (spreads_defined frs) sub
  | RTypename => true
  end.

(* every spread names a defined fragment (what `resolve` guarantees: C06_spread_rule) *)
Definition frags_closed (frs : list rfrag) : Prop :=
  forall a b, In b (frag_succs frs a) -> In b (map rf_name frs).

Theorem fragment_cycle_is_flagged frs b : frags_closed frs ->
  In b (map rf_name frs) -> path (frag_succs frs) b b -> fragment_is_recursive frs b = true.
Proof.
  intros Hc Hb Hp. unfold fragment_is_recursive.
  replace (List.length frs) with (List.length (map rf_name frs)) by apply map_length.
  destruct (on_cycle_detected (frag_succs frs) _ Hc b Hb Hp) as [v Hv]. rewrite Hv. reflexivity.
Qed.

Theorem fragment_test_terminates frs n : frags_closed frs -> In n (map rf_name frs) ->
  dfs (frag_succs frs) (S (List.length frs)) n [] n <> None.
Proof.
  intros Hc Hn. replace (List.length frs) with (List.length (map rf_name frs)) by apply map_length.
  apply (never_out_of_fuel (frag_succs frs) _ Hc). exact Hn.
Qed.

Theorem fragments_finite_size frs n : frags_closed frs ->
  ~ path (unflagged_succs (frag_succs frs) (fragment_is_recursive frs)) n n.
Proof.
  intros Hc. apply (no_unflagged_cycle (frag_succs frs) (map rf_name frs) Hc).
  intros b Hb Hp. exact (fragment_cycle_is_flagged frs b Hc Hb Hp).
Qed.
