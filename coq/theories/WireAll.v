(* WireAll.v — C11 / C05 for ALL programs: seen through the keys serde reads and writes, the expansion of any
   selection is the expansion a generator would produce that never looks at the Rust identifier: keyword
   escaping and case conversion never reach the wire, at any position of any program. *)
From GC Require Import Base Rust Json TypeExpr Heck Strs Naming NamingProofs Enums Schema Query Attrs Dfs Codegen StrategyAll.

(* the key serde uses for a (non-flattened) struct member *)
Definition member_key (f : rfield) : string := match f_rename f with Some g => g | None => f_ident f end.

(* a member as serde sees it: named by its wire key, no rename left; flattened members have no key *)
Definition wire_view (x : option rfield) : option rfield :=
  match x with
  | Some f => if f_flatten f then Some f
              else Some (mkField (member_key f) (f_ty f) None false (f_skip_none f) (f_deprecated f) (f_deser_with f) (f_default f))
  | None => None
  end.

(* the renderer of the wire view: when a GraphQL name is given, the Rust identifier is not an input *)
Definition wire_render (o : opts) : renderer :=
  fun a b ft quals fl d bx =>
    if fl then render_field o a b ft quals fl d bx
    else render_field o None (match a with Some n => n | None => b end) ft quals false d bx.

Lemma wire_render_is_view o a b ft quals fl d bx :
  wire_render o a b ft quals fl d bx = wire_view (render_field o a b ft quals fl d bx).
Proof.
  unfold wire_render, wire_view, render_field, member_key.
  destruct fl.
  - destruct d as [m|]; destruct (strategy o); reflexivity.
  - destruct a as [n|]; cbn [f_flatten f_rename f_ident f_ty f_skip_none f_deprecated f_deser_with f_default].
    + unfold rename_annotation. destruct (String.eqb_spec n b) as [->|Hne];
        destruct d as [m|]; destruct (strategy o); reflexivity.
    + destruct d as [m|]; destruct (strategy o); reflexivity.
Qed.

Theorem wire_view_of_expansion s frs o fuel c sels sid t p :
  calcG s frs o (wire_render o) (o_other_variant o) fuel (cmap wire_view c) sels sid t p =
  option_map (cmap wire_view) (calc s frs o fuel c sels sid t p).
Proof.
  rewrite calcG_is_calc.
  exact (proj1 (calcG_cmap s frs o (render_field o) (wire_render o) (o_other_variant o) wire_view
                           (wire_render_is_view o) fuel) c sels sid t p).
Qed.

(* ... and that renderer is blind to the identifier at every selected field, whose key is the response key *)
Theorem wire_render_ignores_identifier o n b b' ft quals d bx :
  wire_render o (Some n) b ft quals false d bx = wire_render o (Some n) b' ft quals false d bx.
Proof. reflexivity. Qed.

Theorem wire_render_key o n b ft quals d bx f :
  wire_render o (Some n) b ft quals false d bx = Some f -> member_key f = n /\ f_rename f = None.
Proof.
  unfold wire_render, render_field, member_key. destruct d as [m|]; destruct (strategy o); intros E; inversion E; split; reflexivity.
Qed.

(* the real renderer: the key serde uses is the response key whatever identifier was chosen *)
Theorem render_field_wire_key o n b ft quals d bx f :
  render_field o (Some n) b ft quals false d bx = Some f -> member_key f = n.
Proof.
  unfold render_field, member_key, rename_annotation. destruct (String.eqb_spec n b) as [->|Hne];
    destruct d as [m|]; destruct (strategy o); intros E; inversion E; reflexivity.
Qed.
