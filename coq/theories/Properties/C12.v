(* Properties/C12.v — Recursive input types and fragments get finite-size Rust types.
   Box is placed on a member exactly when the recursion test (the visited-set DFS of Dfs.v, as the
   code runs it) reports its target; the theorems are about that test on arbitrary graphs. *)
From GC Require Import Base Rust TypeExpr Heck Strs Naming Enums Schema Query Attrs Dfs Codegen RecProofs.

(* inputs: every member that is not inside a list and whose target lies on a cycle of such
   members is boxed (the test reports the target) — for EVERY schema, any number of types *)
Theorem C12_input_cycles_are_boxed : forall s b,
  In b (map ai_name (a_inputs s)) -> path (input_succs s) b b -> input_is_recursive s b = true.
Proof. exact input_cycle_is_flagged. Qed.

(* hence: the members that are neither in a list nor boxed form no cycle — finite size *)
Theorem C12_inputs_finite_size : forall s n,
  ~ path (unflagged_succs (input_succs s) (input_is_recursive s)) n n.
Proof. exact inputs_finite_size. Qed.

(* where the Box goes: on input-typed members (struct fields and @oneOf variants alike) *)
Theorem C12_box_placement : forall s o ty extra,
  find_kind_sdl s (gname ty) = Some KInput -> input_is_recursive s (gname ty) = true ->
  exists t, input_field_type s o ty extra = RBox t.
Proof.
  intros s o ty extra Hk Hr. unfold input_field_type. rewrite Hk, Hr. eauto.
Qed.

(* fragments: a spread whose target fragment lies on a spread cycle (of any length, through
   fields, lists, inline fragments) is boxed *)
Theorem C12_fragment_cycles_are_boxed : forall frs b, frags_closed frs ->
  In b (map rf_name frs) -> path (frag_succs frs) b b -> fragment_is_recursive frs b = true.
Proof. exact fragment_cycle_is_flagged. Qed.

Theorem C12_fragments_finite_size : forall frs n, frags_closed frs ->
  ~ path (unflagged_succs (frag_succs frs) (fragment_is_recursive frs)) n n.
Proof. exact fragments_finite_size. Qed.

(* the DFS is sound as well: what it reports really is a cycle (no spurious claims about graphs) *)
Theorem C12_test_sound : forall succs fuel n v, dfs succs fuel n [] n = Some (true, v) -> path succs n n.
Proof. intros succs fuel n v H. exact (dfs_sound succs fuel n [] n v H). Qed.

(* non-vacuity: a three-type input cycle with one list edge *)
Example C12_example :
  let s := mkSchema ["ID"; "String"; "Int"; "Float"; "Boolean"] [] [] [] []
             [mkInp "A" [("b", GNamed "B")] false; mkInp "B" [("c", GNonNull (GNamed "C")); ("l", GList (GNamed "A"))] false;
              mkInp "C" [("a", GNamed "A")] true] None None None in
  map (input_is_recursive s) ["A"; "B"; "C"] = [true; true; true].
Proof. vm_compute. reflexivity. Qed.

Print Assumptions C12_input_cycles_are_boxed.
Print Assumptions C12_inputs_finite_size.
Print Assumptions C12_box_placement.
Print Assumptions C12_fragment_cycles_are_boxed.
Print Assumptions C12_fragments_finite_size.
Print Assumptions C12_test_sound.
