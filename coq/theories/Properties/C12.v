(* Properties/C12.v — Recursive input types and fragments get finite-size Rust types.
   Box is placed on a member exactly when the recursion test (the visited-set DFS of Dfs.v, as the
   code runs it) reports its target; the theorems are about that test on arbitrary graphs. *)
From GC Require Import Base Rust TypeExpr Heck Strs Naming Enums Schema Query Attrs Dfs Codegen Serde RecProofs BoxProofs.

(* inputs: every member that is not inside a list and whose target lies on a cycle of such
   members is boxed (the test reports the target) — for EVERY schema, any number of types *)
Theorem C12_input_cycles_are_boxed : forall s b,
  In b (map ai_name (a_inputs s)) -> path (input_succs s) b b -> input_is_recursive s b = true.
Proof. exact input_cycle_is_flagged. Qed.

(* hence: the members that are neither in a list nor boxed form no cycle — finite size *)
Theorem C12_inputs_finite_size : forall s n,
  ~ path (unflagged_succs (input_succs s) (input_is_recursive s)) n n.
Proof. exact inputs_finite_size. Qed.

(* where the Box goes: on input-typed members (struct fields and @oneOf variants alike) *)
Theorem C12_box_placement : forall s o ty extra,
  find_kind_sdl s (gname ty) = Some KInput -> input_is_recursive s (gname ty) = true ->
  exists t, input_field_type s o ty extra = RBox t.
Proof.
  intros s o ty extra Hk Hr. unfold input_field_type. rewrite Hk, Hr. eauto.
Qed.

(* fragments: a spread whose target fragment lies on a spread cycle (of any length, through
   fields, lists, inline fragments) is boxed *)
Theorem C12_fragment_cycles_are_boxed : forall frs b, frags_closed frs ->
  In b (map rf_name frs) -> path (frag_succs frs) b b -> fragment_is_recursive frs b = true.
Proof. exact fragment_cycle_is_flagged. Qed.

Theorem C12_fragments_finite_size : forall frs n, frags_closed frs ->
  ~ path (unflagged_succs (frag_succs frs) (fragment_is_recursive frs)) n n.
Proof. exact fragments_finite_size. Qed.

(* ---------- the indirection is invisible in JSON *)
(* the serde specification reads and writes Box<T> exactly as T *)
Theorem C12_box_transparent_for_serde : forall henv f env u,
  (forall j, deser henv (S f) env (RBox u) j = deser henv f env u j) /\
  (forall v, ser (S f) env (RBox u) v = ser f env u v).
Proof. intros henv f env u. split; intros x; reflexivity. Qed.

(* recursion changes the type of an input member by a Box wrapper and by nothing else: the type is
   the decorated type of the schema's type expression (leaf renamed), bare or boxed *)
Theorem C12_recursion_only_adds_a_box : forall s o ty (extra : bool),
  wf_gtype (if extra then GNonNull ty else ty) = true ->
  let t0 := spec_rust (RespProofs.rename (if extra then GNonNull ty else ty) (norm_field_type o (gname ty))) in
  input_field_type s o ty extra = t0 \/ input_field_type s o ty extra = RBox t0.
Proof. exact input_member_type. Qed.

(* every member of an input struct, in any schema: wire key = schema name, no flatten / default /
   helper, and skipped-when-None exactly when the option is on and the type, Box stripped, is an Option *)
Theorem C12_member_attributes_ignore_boxing : forall s o inp, ai_one_of inp = false ->
  forallb (fun ty => wf_gtype ty) (map snd (ai_fields inp)) = true ->
  match input_item s o inp with
  | IStruct _ _ _ fs =>
      Forall2 (fun fld f =>
                 field_wire f = fst fld /\ f_flatten f = false /\ f_default f = false /\ f_deser_with f = None /\
                 f_skip_none f = (o_skip_none o && is_option_type (f_ty f)))
              (ai_fields inp) fs
  | _ => False
  end.
Proof. exact input_struct_members. Qed.

(* the DFS is sound as well: what it reports really is a cycle (no spurious claims about graphs) *)
Theorem C12_test_sound : forall succs fuel n v, dfs succs fuel n [] n = Some (true, v) -> path succs n n.
Proof. intros succs fuel n v H. exact (dfs_sound succs fuel n [] n v H). Qed.

(* non-vacuity: a three-type input cycle with one list edge *)
Example C12_example :
  let s := mkSchema ["ID"; "String"; "Int"; "Float"; "Boolean"] [] [] [] []
             [mkInp "A" [("b", GNamed "B")] false; mkInp "B" [("c", GNonNull (GNamed "C")); ("l", GList (GNamed "A"))] false;
              mkInp "C" [("a", GNamed "A")] true] None None None in
  map (input_is_recursive s) ["A"; "B"; "C"] = [true; true; true].
Proof. vm_compute. reflexivity. Qed.

Print Assumptions C12_input_cycles_are_boxed.
Print Assumptions C12_inputs_finite_size.
Print Assumptions C12_box_placement.
Print Assumptions C12_fragment_cycles_are_boxed.
Print Assumptions C12_fragments_finite_size.
Print Assumptions C12_test_sound.
Print Assumptions C12_box_transparent_for_serde.
Print Assumptions C12_recursion_only_adds_a_box.
Print Assumptions C12_member_attributes_ignore_boxing.
