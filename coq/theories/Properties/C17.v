(* Properties/C17.v — Code generation terminates cleanly on every input, cyclic ones included.
   Every recursive walk of the generator is modelled with the recursion the code has: the
   structural walks (resolve_sel, spreads, abstract_fields, conditions_ok, render) are accepted
   by the guard checker as they stand; the graph walks carry the code's visited sets and a fuel
   the theorems below show to be sufficient for EVERY input. *)
From GC Require Import Base Rust TypeExpr Heck Strs Naming Enums Schema Query Attrs Dfs Codegen RecProofs TermProofs.

(* schema.rs contains_type_without_indirection *)
Theorem C17_input_recursion_test_terminates : forall s n,
  In n (map ai_name (a_inputs s)) -> dfs (input_succs s) (S (List.length (a_inputs s))) n [] n <> None.
Proof. exact input_test_terminates. Qed.

(* query/selection.rs contains_fragment (after the repair) *)
Theorem C17_fragment_recursion_test_terminates : forall frs n, frags_closed frs -> In n (map rf_name frs) ->
  dfs (frag_succs frs) (S (List.length frs)) n [] n <> None.
Proof. exact fragment_test_terminates. Qed.

(* validation.rs selection_set_contains_type_name (after the repair): any spread cycle, on any
   kind of type, of any length *)
Theorem C17_typename_search_terminates : forall frs parent l,
  contains_typename (S (List.length frs)) frs parent [] l <> None.
Proof. exact has_typename_never_out_of_fuel. Qed.

(* query/selection.rs collect_used_types *)
Theorem C17_used_type_collection_terminates : forall frs sels,
  collect frs (collect_fuel frs sels) (mkUsed [] []) sels <> None.
Proof. exact collect_never_out_of_fuel. Qed.

(* schema.rs used_input_ids_recursive *)
Theorem C17_used_inputs_terminates : forall s fuel types cur,
  unvisited (map ai_name (a_inputs s)) types <= fuel -> used_inputs s (S fuel) types cur <> None.
Proof. exact used_inputs_terminates. Qed.

(* codegen/selection.rs calculate_selection: recursion depth <= nesting depth of the selection *)
Theorem C17_selection_expansion_terminates : forall s frs o fuel c sels sid tname prefix,
  sels_depth sels < fuel -> calc s frs o fuel c sels sid tname prefix <> None.
Proof. exact calc_terminates. Qed.

(* the whole: the items of an operation are always produced; the generator's model yields a
   result, an error, or a panic the code itself raises *)
Theorem C17_operation_items_total : forall s frs o op, operation_items s frs o op <> None.
Proof. exact operation_items_total. Qed.
Theorem C17_never_out_of_fuel : forall s q o text n, module_of s q o text n <> Panic "model out of fuel".
Proof. exact module_of_never_out_of_fuel. Qed.

(* regression theorem for the repaired defect: the original search (no visited list) is refuted
   by `fragment A on Named { ...A }` for every amount of fuel — on the implementation this was a
   stack overflow *)
Theorem C17_typename_search_prefix_refuted : forall fuel,
  contains_typename_prefix fuel [mkRFrag "A" "Named" [RSpread "A"]] "Named" [RSpread "A"] = None.
Proof. exact typename_search_prefix_refuted. Qed.

Print Assumptions C17_input_recursion_test_terminates.
Print Assumptions C17_fragment_recursion_test_terminates.
Print Assumptions C17_typename_search_terminates.
Print Assumptions C17_used_type_collection_terminates.
Print Assumptions C17_used_inputs_terminates.
Print Assumptions C17_selection_expansion_terminates.
Print Assumptions C17_operation_items_total.
Print Assumptions C17_never_out_of_fuel.
Print Assumptions C17_typename_search_prefix_refuted.
