(* Properties/C15.v — Response / Error envelope accepts and preserves every spec-shaped body.
   `Response`, `Error`, `Location`, `PathFragment` are the declarations TRANSLATED from
   graphql_client/src/lib.rs on this run (Gen/LibTypes.v); `Data` is opaque JSON. *)
From GC Require Import Base Rust Json Enums Serde SerdeLemmas RunSerde Envelope EnvelopeProofs EnvelopeRoundTrip.
From GC.Gen Require Import LibTypes.

(* every body of the envelope grammar — `data` present / null / absent, `errors` absent or a
   list of entries with `message` and optional `locations`, `path` (names and i32 indices
   mixed), `extensions` (any object), unknown members anywhere — is accepted *)
Theorem C15_accepts_every_spec_body : forall b, body_ok b = true ->
  exists r, deser henv FUEL lib_items (RNamed "Response") b = Some r.
Proof. exact response_accepts_FUEL. Qed.

(* Display is total on every spec-shaped error and prints path:line:column: message, the path
   joined with "/", <query> when absent, first location, 0:0 when absent *)
Theorem C15_display : forall e, error_ok e = true ->
  exists v, deser henv FUEL lib_items (RNamed "Error") e = Some v /\ display_error v = display_spec e.
Proof. intros e H. change FUEL with (6 + 394). exact (error_display 394 e H). Qed.

(* "preserves all of it": deserialize (serialize r) = r for EVERY Response value and EVERY
   Error value.  Envelope.wt_response / wt_error say which trees are values of the Rust types
   (i32 members, HashMap = key-sorted entries, Data = any JSON but null). *)
Theorem C15_round_trip_response : forall r, wt_response r = true ->
  exists j, ser FUEL lib_items (RNamed "Response") r = Some j /\
            deser henv FUEL lib_items (RNamed "Response") j = Some r.
Proof. exact response_round_trip. Qed.

Theorem C15_round_trip_error : forall e, wt_error e = true ->
  exists j, ser FUEL lib_items (RNamed "Error") e = Some j /\
            deser henv FUEL lib_items (RNamed "Error") j = Some e.
Proof. exact error_round_trip. Qed.

(* the domain of the round trip is not an artefact: whatever the deserialiser returns — for
   any input at all, object or positional array, unknown or repeated members — lies in it *)
Theorem C15_every_deserialised_value_is_a_value : forall b r,
  deser henv FUEL lib_items (RNamed "Response") b = Some r -> wt_response r = true.
Proof. exact response_values_wt. Qed.

(* ... hence a body, once accepted, survives re-serialisation and re-reading unchanged *)
Theorem C15_accepted_body_preserved : forall b r,
  deser henv FUEL lib_items (RNamed "Response") b = Some r ->
  exists j, ser FUEL lib_items (RNamed "Response") r = Some j /\
            deser henv FUEL lib_items (RNamed "Response") j = Some r.
Proof. exact accepted_body_preserved. Qed.

(* regression theorem for the repaired defect (trim_end_matches('/') ate the key's own slash) *)
Theorem C15_display_prefix_refuted :
  display_path_prefix [VVariant "Key" (Some (VStr "a/"))] = "a" /\
  display_path [VVariant "Key" (Some (VStr "a/"))] = "a/".
Proof. exact display_prefix_refuted. Qed.

(* the declarations the proofs are about are the ones in the source tree now *)
Theorem C15_translated_declarations :
  fields_of "Location" = Some location_fields /\ fields_of "Error" = Some error_fields /\
  fields_of "Response" = Some response_fields.
Proof. exact (conj translated_location (conj translated_error translated_response)). Qed.

(* non-vacuity *)
Example C15_body_example :
  body_ok (JObj [("data", JNull); ("errors", JArr [JObj [("message", JStr "m"); ("path", JArr [JStr "a"; JInt 1]);
           ("locations", JArr [JObj [("line", JInt 1); ("column", JInt 2)]]); ("extensions", JObj [("code", JStr "X")])]]);
           ("unknown", JBool true)]) = true.
Proof. vm_compute. reflexivity. Qed.

Example C15_value_example :
  wt_response (VStruct [("data", VSome (VJson (JObj [("a", JInt 1)])));
     ("errors", VSome (VSeq [VStruct [("message", VStr "m");
        ("locations", VSome (VSeq [VStruct [("line", VInt 1); ("column", VInt 2)]]));
        ("path", VSome (VSeq [VVariant "Key" (Some (VStr "a")); VVariant "Index" (Some (VInt 3))]));
        ("extensions", VSome (VMap [("a", VJson JNull); ("b", VJson (JArr [JInt 1]))]))]]));
     ("extensions", VNone)]) = true.
Proof. exact wt_response_example. Qed.

Check C15_accepts_every_spec_body : forall b, body_ok b = true ->
  exists r, deser henv FUEL lib_items (RNamed "Response") b = Some r.
Print Assumptions C15_accepts_every_spec_body.
Check C15_round_trip_response : forall r, wt_response r = true ->
  exists j, ser FUEL lib_items (RNamed "Response") r = Some j /\
            deser henv FUEL lib_items (RNamed "Response") j = Some r.
Print Assumptions C15_round_trip_response.
Print Assumptions C15_round_trip_error.
Print Assumptions C15_every_deserialised_value_is_a_value.
Print Assumptions C15_accepted_body_preserved.
Print Assumptions C15_display.
Print Assumptions C15_display_prefix_refuted.
Print Assumptions C15_translated_declarations.
