(* Properties/C07.v — SDL and introspection JSON of the same schema generate identical code. *)
From GC Require Import Base Rust TypeExpr Schema SchemaJson SchemaProofs Query Codegen.

(* every well-formed SDL document: the JSON builder applied to its introspection rendering
   (built-in scalars listed or not) yields the abstract schema the SDL builder yields — kinds,
   field types with their exact nesting, implementors, union members, enum values, input fields,
   @oneOf, explicit and default roots, `extend type` additions, deprecations *)
Theorem C07_same_schema : forall d b, wf_sdl d = true -> schema_of_json (render d b) = schema_of_sdl d.
Proof. exact json_equals_sdl. Qed.

(* hence identical generated code, for every document, option set and query text *)
Theorem C07_same_code : forall d b doc o text, wf_sdl d = true ->
  match schema_of_json (render d b), schema_of_sdl d with
  | Ok s1, Ok s2 => generate s1 doc o text = generate s2 doc o text
  | Panic _, Panic _ => True
  | _, _ => False
  end.
Proof.
  intros d b doc o text H. rewrite (json_equals_sdl d b H).
  destruct (schema_of_sdl d) as [s| |] eqn:E; [reflexivity| |exact I].
  unfold schema_of_sdl in E. destruct (negb (names_resolve d)); discriminate.
Qed.

(* the pieces *)
Theorem C07_type_expressions : forall t, gtype_of_typeref (TypeExpr.typeref_of t) = Some t.
Proof. exact typeref_roundtrip. Qed.
Theorem C07_fields_and_deprecations : forall f, fd_of_jfield (jfield_of_fd f) = Some f.
Proof. exact fd_roundtrip. Qed.

(* non-vacuity *)
Example C07_example :
  wf_sdl (mkSdl [DScalar "Date"; DEnum "Color" ["RED"; "GREEN"];
                 DObject "Dog" ["Named"] [mkFD "name" (GNonNull (GNamed "String")) (Some None)];
                 DInterface "Named" [mkFD "name" (GNamed "String") None];
                 DExtend "Dog" [] [mkFD "age" (GList (GNamed "Int")) (Some (Some "old"))];
                 DUnion "Pet" ["Dog"]; DInput "I" [("a", GNamed "I")] true;
                 DObject "Query" [] [mkFD "dog" (GNamed "Dog") None]] None) = true.
Proof. vm_compute. reflexivity. Qed.

Print Assumptions C07_same_schema.
Print Assumptions C07_same_code.
Print Assumptions C07_type_expressions.
Print Assumptions C07_fields_and_deprecations.
