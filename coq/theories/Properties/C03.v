(* Properties/C03.v — generated response types reject what the schema forbids.
   The layers are proved for all inputs; the composition over a selection tree is evaluated per case
   (RunResp.prop_c03): `partial`. *)
From GC Require Import Base Rust Json TypeExpr TypeExprProofs Schema Query Enums Serde SerdeLemmas Conform RespProofs Compose Exact Codegen StrategyAll OptionAll.

(* the emitted field type accepts EXACTLY the conforming values (so everything else is rejected) *)
Theorem C03_field_type_exact : forall henv env n leaf F0,
  (forall F j, F0 <= F -> is_null j = false -> is_some (deser henv F env (RNamed n) j) = leaf j) ->
  (forall F, deser henv F env (RNamed n) JNull = None) ->
  forall t, wf_gtype t = true ->
  exists r, decorate n (quals_sdl t) = Some r /\
    forall F j, F0 + wraps t + 1 <= F -> is_some (deser henv F env r j) = ctype leaf true t j.
Proof. exact field_type_accepts. Qed.

(* null at a non-null position, at any depth of `!` *)
Theorem C03_null_at_nonnull : forall leaf t j, is_null j = true -> ctype leaf true (GNonNull t) j = false.
Proof. exact null_at_nonnull_rejected. Qed.

(* a non-list where a list is required *)
Theorem C03_non_list_at_list : forall leaf b t j,
  is_null j = false -> (forall l, j <> JArr l) -> ctype leaf b (GList t) j = false.
Proof. exact non_list_at_list_rejected. Qed.

(* a value of the wrong scalar kind *)
Theorem C03_int_wrong_kind : forall henv env, find_item "Int" env = Some (IAlias "Int" (RNamed "i64")) ->
  forall F j, (forall z, j <> JInt z) -> deser henv (S (S F)) env (RNamed "Int") j = None.
Proof. exact int_wrong_kind. Qed.
Theorem C03_float_exact : forall henv env, find_item "Float" env = Some (IAlias "Float" (RNamed "f64")) ->
  forall F j, deser henv (S (S F)) env (RNamed "Float") j = match j with JInt _ | JFrac _ => Some (VFloat j) | _ => None end.
Proof. exact float_leaf. Qed.
Theorem C03_bool_exact : forall henv env, find_item "Boolean" env = Some (IAlias "Boolean" (RNamed "bool")) ->
  forall F j, deser henv (S (S F)) env (RNamed "Boolean") j = match j with JBool b => Some (VBool b) | _ => None end.
Proof. exact bool_leaf. Qed.
Theorem C03_string_exact : forall henv env F j,
  deser henv (S F) env (RNamed "String") j = match j with JStr s => Some (VStr s) | _ => None end.
Proof. exact string_leaf. Qed.
Theorem C03_enum_needs_string : forall henv env n d vs sa so da F j,
  find_item n env = Some (IStrEnum n d vs sa so da true) -> prim_deser n j = None ->
  is_some (deser henv (S F) env (RNamed n) j) = match j with JStr _ => true | _ => false end.
Proof. exact enum_leaf. Qed.

(* a member that fails, or a required member that is missing, fails the whole struct *)
Theorem C03_bad_member : forall D Dh env fields,
  forallb (fun fd => negb (f_flatten fd)) fields = true ->
  NoDup (map field_wire fields) ->
  forall m fd v, NoDup (map fst m) -> In fd fields -> In (field_wire fd, v) m ->
  deser_field D Dh fd v = None -> deser_struct D Dh env fields m = None.
Proof. exact struct_rejects_bad_member. Qed.
Theorem C03_missing_member : forall D Dh env fields,
  forallb (fun fd => negb (f_flatten fd)) fields = true ->
  NoDup (map field_wire fields) -> NoDup (map f_ident fields) ->
  forall m fd, NoDup (map fst m) ->
  (forall k v f, In (k, v) m -> find_field k fields = Some f -> exists x, deser_field D Dh f v = Some x) ->
  In fd fields -> obj_get (field_wire fd) m = None ->
  field_value [] fd = None -> deser_struct D Dh env fields m = None.
Proof. exact struct_rejects_missing. Qed.

(* __typename: known -> its own variant; unknown -> the catch-all if there is one, else an error;
   absent / repeated / not a string -> an error *)
Theorem C03_known_typename : forall D tag variants m s v r,
  tag_of tag m = Some s -> find (fun x => String.eqb (variant_wire x) s) variants = Some v ->
  deser_tagged D tag variants m = Some r -> exists p, r = VVariant (v_ident v) p.
Proof. exact tagged_selects_own. Qed.
Theorem C03_unknown_typename : forall D tag variants m s,
  tag_of tag m = Some s -> find (fun x => String.eqb (variant_wire x) s) variants = None ->
  deser_tagged D tag variants m =
    match find v_other variants with
    | Some o => match v_payload o with
                | None => Some (VVariant (v_ident o) None)
                | Some pt => option_map (fun x => VVariant (v_ident o) (Some x))
                                        (D pt (JObj (filter (fun e => negb (String.eqb (fst e) tag)) m)))
                end
    | None => None
    end.
Proof. exact tagged_unknown. Qed.
Theorem C03_no_typename : forall D tag variants m, tag_of tag m = None -> deser_tagged D tag variants m = None.
Proof. exact tagged_without_tag. Qed.

(* COMPOSITION BY CERTIFICATE (same checker as C01, other direction): for any items the checker
   accepts, a payload that the deserializer accepts satisfies the enforced part of conformance
   (`wobj`) at every depth; equivalently every payload violating it is rejected.  `wobj` demands:
   null only at nullable positions (custom scalars excepted: the consumer's type), arrays exactly
   at list positions, the right JSON kind for Int / Float / String / Boolean / ID / enums, required
   keys present, an object (or the positional array form of a plain struct) at object positions,
   and a `__typename` naming a possible type unless the catch-all variant exists. *)
Theorem C03_checker_exact : forall s frags henv env other,
  (other = false -> forall n a b c tag vs, find_item n env = Some (ITagEnum a b c tag vs) -> forall v, In v vs -> v_other v = false) ->
  forall fuel name t sels B, sel_need s frags henv env fuel name t sels = Some B ->
    (forall F, deser henv F env (RNamed name) JNull = None) /\
    (forall F m fw, UK (JObj m) -> is_some (deser henv F env (RNamed name) (JObj m)) = true -> wpos s frags other fw t sels m = true) /\
    (forall F j, is_some (deser henv F env (RNamed name) j) = true ->
       match j with JObj _ => True | JArr _ => find_kind_sdl s t = Some KObject | _ => False end).
Proof. exact sel_exact. Qed.

Theorem C03_certified_rejects_partial : forall s henv env doc op other B,
  certify s henv env doc op = Some B ->
  (other = false -> env_no_other env = true) ->
  forall F data fw, UK data -> enforced s doc op other fw data = false ->
  deser henv F env (RNamed "ResponseData") data = None.
Proof. exact certified_rejects. Qed.

(* the single-point corruptions violate the enforced part, whatever the leaf *)
Theorem C03_enforced_null_at_nonnull : forall leaf t, wtype leaf false true (GNonNull t) JNull = false.
Proof. exact wtype_null_nonnull. Qed.
Theorem C03_enforced_non_list : forall leaf c b t j,
  is_null j = false -> (forall l, j <> JArr l) -> wtype leaf c b (GList t) j = false.
Proof. exact wtype_non_list. Qed.

Print Assumptions C03_checker_exact.
Print Assumptions C03_certified_rejects_partial.
Print Assumptions C03_enforced_null_at_nonnull.
Print Assumptions C03_enforced_non_list.
Print Assumptions C03_field_type_exact.
Print Assumptions C03_null_at_nonnull.
Print Assumptions C03_non_list_at_list.
Print Assumptions C03_int_wrong_kind.
Print Assumptions C03_float_exact.
Print Assumptions C03_bool_exact.
Print Assumptions C03_string_exact.
Print Assumptions C03_enum_needs_string.
Print Assumptions C03_bad_member.
Print Assumptions C03_missing_member.
Print Assumptions C03_known_typename.
Print Assumptions C03_unknown_typename.
Print Assumptions C03_no_typename.

(* ---------- the other-variant option, for ALL programs (OptionAll.v): the expansion of any selection
   without `fragments_other_variant` is the expansion with it, minus the catch-all variants (`Unknown`,
   serde `other`) — so with the option off there is no catch-all anywhere (an unknown `__typename` has no
   variant to land in), and with it on nothing but that variant is added.  `cstrip` removes the variants
   flagged `other` from a context and leaves everything else alone. *)
Theorem C03_other_variant_only_adds_unknown : forall s frs o fuel c sels sid t p,
  calc s frs (with_other o false) fuel (cstrip c) sels sid t p =
  option_map cstrip (calc s frs (with_other o true) fuel c sels sid t p).
Proof. exact other_variant_only_adds_unknown. Qed.
Print Assumptions C03_other_variant_only_adds_unknown.
