(* Properties/C03.v — generated response types reject what the schema forbids.
   The layers are proved for all inputs; the composition over a selection tree is evaluated per case
   (RunResp.prop_c03): `partial`. *)
From GC Require Import Base Rust Json TypeExpr TypeExprProofs Enums Serde SerdeLemmas Conform RespProofs.

(* the emitted field type accepts EXACTLY the conforming values (so everything else is rejected) *)
Theorem C03_field_type_exact : forall henv env n leaf F0,
  (forall F j, F0 <= F -> is_null j = false -> is_some (deser henv F env (RNamed n) j) = leaf j) ->
  (forall F, deser henv F env (RNamed n) JNull = None) ->
  forall t, wf_gtype t = true ->
  exists r, decorate n (quals_sdl t) = Some r /\
    forall F j, F0 + wraps t + 1 <= F -> is_some (deser henv F env r j) = ctype leaf true t j.
Proof. exact field_type_accepts. Qed.

(* null at a non-null position, at any depth of `!` *)
Theorem C03_null_at_nonnull : forall leaf t j, is_null j = true -> ctype leaf true (GNonNull t) j = false.
Proof. exact null_at_nonnull_rejected. Qed.

(* a non-list where a list is required *)
Theorem C03_non_list_at_list : forall leaf b t j,
  is_null j = false -> (forall l, j <> JArr l) -> ctype leaf b (GList t) j = false.
Proof. exact non_list_at_list_rejected. Qed.

(* a value of the wrong scalar kind *)
Theorem C03_int_wrong_kind : forall henv env, find_item "Int" env = Some (IAlias "Int" (RNamed "i64")) ->
  forall F j, (forall z, j <> JInt z) -> deser henv (S (S F)) env (RNamed "Int") j = None.
Proof. exact int_wrong_kind. Qed.
Theorem C03_float_exact : forall henv env, find_item "Float" env = Some (IAlias "Float" (RNamed "f64")) ->
  forall F j, deser henv (S (S F)) env (RNamed "Float") j = match j with JInt _ | JFrac _ => Some (VFloat j) | _ => None end.
Proof. exact float_leaf. Qed.
Theorem C03_bool_exact : forall henv env, find_item "Boolean" env = Some (IAlias "Boolean" (RNamed "bool")) ->
  forall F j, deser henv (S (S F)) env (RNamed "Boolean") j = match j with JBool b => Some (VBool b) | _ => None end.
Proof. exact bool_leaf. Qed.
Theorem C03_string_exact : forall henv env F j,
  deser henv (S F) env (RNamed "String") j = match j with JStr s => Some (VStr s) | _ => None end.
Proof. exact string_leaf. Qed.
Theorem C03_enum_needs_string : forall henv env n d vs sa so da F j,
  find_item n env = Some (IStrEnum n d vs sa so da true) -> prim_deser n j = None ->
  is_some (deser henv (S F) env (RNamed n) j) = match j with JStr _ => true | _ => false end.
Proof. exact enum_leaf. Qed.

(* a member that fails, or a required member that is missing, fails the whole struct *)
Theorem C03_bad_member : forall D Dh env fields,
  forallb (fun fd => negb (f_flatten fd)) fields = true ->
  NoDup (map field_wire fields) ->
  forall m fd v, NoDup (map fst m) -> In fd fields -> In (field_wire fd, v) m ->
  deser_field D Dh fd v = None -> deser_struct D Dh env fields m = None.
Proof. exact struct_rejects_bad_member. Qed.
Theorem C03_missing_member : forall D Dh env fields,
  forallb (fun fd => negb (f_flatten fd)) fields = true ->
  NoDup (map field_wire fields) -> NoDup (map f_ident fields) ->
  forall m fd, NoDup (map fst m) ->
  (forall k v f, In (k, v) m -> find_field k fields = Some f -> exists x, deser_field D Dh f v = Some x) ->
  In fd fields -> obj_get (field_wire fd) m = None ->
  field_value [] fd = None -> deser_struct D Dh env fields m = None.
Proof. exact struct_rejects_missing. Qed.

(* __typename: known -> its own variant; unknown -> the catch-all if there is one, else an error;
   absent / repeated / not a string -> an error *)
Theorem C03_known_typename : forall D tag variants m s v r,
  tag_of tag m = Some s -> find (fun x => String.eqb (variant_wire x) s) variants = Some v ->
  deser_tagged D tag variants m = Some r -> exists p, r = VVariant (v_ident v) p.
Proof. exact tagged_selects_own. Qed.
Theorem C03_unknown_typename : forall D tag variants m s,
  tag_of tag m = Some s -> find (fun x => String.eqb (variant_wire x) s) variants = None ->
  deser_tagged D tag variants m =
    match find v_other variants with
    | Some o => match v_payload o with
                | None => Some (VVariant (v_ident o) None)
                | Some pt => option_map (fun x => VVariant (v_ident o) (Some x))
                                        (D pt (JObj (filter (fun e => negb (String.eqb (fst e) tag)) m)))
                end
    | None => None
    end.
Proof. exact tagged_unknown. Qed.
Theorem C03_no_typename : forall D tag variants m, tag_of tag m = None -> deser_tagged D tag variants m = None.
Proof. exact tagged_without_tag. Qed.

Print Assumptions C03_field_type_exact.
Print Assumptions C03_null_at_nonnull.
Print Assumptions C03_non_list_at_list.
Print Assumptions C03_int_wrong_kind.
Print Assumptions C03_float_exact.
Print Assumptions C03_bool_exact.
Print Assumptions C03_string_exact.
Print Assumptions C03_enum_needs_string.
Print Assumptions C03_bad_member.
Print Assumptions C03_missing_member.
Print Assumptions C03_known_typename.
Print Assumptions C03_unknown_typename.
Print Assumptions C03_no_typename.
