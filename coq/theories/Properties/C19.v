(* Properties/C19.v — `graphql-client generate` writes exactly the library's output to the right file. *)
From GC Require Import Base Rust Heck Strs Attrs Codegen Cli CliProofs.
From GC.Gen Require Import CliFacts.

(* every flag has the effect of the library option of the same meaning *)
Theorem C19_flags_are_library_options : forall a,
  let o := options_of_args a in
  o_cli o = true /\ o_operation_name o = g_selected a /\
  o_variables_derives o = g_var_derives a /\ o_response_derives o = g_resp_derives a /\
  o_custom_scalars_module o = g_scalars_module a /\ o_other_variant o = g_other_variant a /\
  o_extern_enums o = (match g_extern_enums a with Some l => l | None => [] end) /\
  o_visibility o = Some (visibility_of (g_visibility a)) /\
  o_deprecation o = (match g_deprecation a with Some s => parse_strategy_cli s | None => None end) /\
  o_norm_rust o = false /\ o_skip_none o = false /\ o_serde_path o = None.
Proof. exact flags_map. Qed.

(* the destination: <query file stem>.rs in the output directory, or beside the query file *)
Theorem C19_destination : forall a name, last_component (g_query_path a) = Some name ->
  dest_path a = Some (match g_output_dir a with
                      | Some dir => dir ++ [(file_stem name ++ ".rs")%string]
                      | None => removelast (g_query_path a) ++ [(file_stem name ++ ".rs")%string]
                      end).
Proof. exact destination. Qed.

(* on success the file holds the TRANSLATED header, a newline, and the library's output; every
   other file is as before *)
Theorem C19_success : forall format a code fs p, dest_path a = Some p -> g_no_formatting a = true ->
  let r := cli_generate warning_suppression a (Ok code) format fs in
  fst r = 0 /\ fs_get (snd r) p = Some (warning_suppression ++ "
" ++ code)%string /\
  forall q, path_eqb q p = false -> path_eqb p q = false -> fs_get (snd r) q = fs_get fs q.
Proof. intros format. exact (success_writes_library_output warning_suppression format). Qed.

Theorem C19_formatted : forall format a code fs p, dest_path a = Some p -> g_no_formatting a = false ->
  fs_get (snd (cli_generate warning_suppression a (Ok code) format fs)) p =
  Some (format (warning_suppression ++ "
" ++ code)%string).
Proof. intros format. exact (formatted_output_goes_through_rustfmt warning_suppression format). Qed.

(* on any generation error: non-zero exit and no file is written or changed *)
Theorem C19_failure_writes_nothing : forall format a lib fs,
  (forall code, lib <> Ok code) -> cli_generate warning_suppression a lib format fs = (1, fs).
Proof. intros format. exact (failure_writes_nothing warning_suppression format). Qed.

Theorem C19_header_translated : warning_suppression = "#![allow(clippy::all, warnings)]".
Proof. vm_compute. reflexivity. Qed.

Print Assumptions C19_flags_are_library_options.
Print Assumptions C19_destination.
Print Assumptions C19_success.
Print Assumptions C19_formatted.
Print Assumptions C19_failure_writes_nothing.
Print Assumptions C19_header_translated.
