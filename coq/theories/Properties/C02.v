(* Properties/C02.v — supported inputs are accepted and the generated code type-checks.
   What is logic is proved: the closedness checker evaluated on the generator model per case is
   sound and complete for "every type the module mentions is defined exactly once, a primitive, or
   imported"; a multi-operation document yields one module per operation, in order, each carrying
   the alias block, its own Variables and its own ResponseData; emitted field types exist for every
   well-formed type expression.  That rustc accepts the emitted items (derive expansion, trait
   bounds, name resolution inside proc-macro output) is observed per case in three delivery forms:
   `partial`. *)
From GC Require Import Base Rust Json TypeExpr TypeExprProofs Schema Query Attrs Codegen Serde TermProofs Closed.

Theorem C02_closed_checker_sound : forall items imported, items_closed items imported = true -> Closed items imported.
Proof. exact items_closed_sound. Qed.
Theorem C02_closed_checker_complete : forall items imported, Closed items imported -> items_closed items imported = true.
Proof. exact items_closed_complete. Qed.

Theorem C02_one_module_per_operation : forall s doc o text q ms,
  resolve s doc = Ok q -> o_operation_name o = None -> o_cli o = true ->
  generate s doc o text = Ok ms -> map m_operation_name ms = map ro_name (rq_ops q).
Proof. exact one_module_per_operation. Qed.

Theorem C02_module_self_contained : forall s frs o op items,
  operation_items s frs o op = Some items ->
  incl builtin_alias_items items /\ In (variables_item o op) items /\
  exists resp, expand_root s frs o "ResponseData" (ro_sel op) (ro_root op) (camel (ro_name op)) = Some resp /\ incl resp items.
Proof. exact module_self_contained. Qed.

(* the type of every field / variable exists for every type expression the GraphQL grammar can write *)
Theorem C02_field_type_exists : forall t, wf_gtype t = true -> decorate (gname t) (quals_sdl t) <> None.
Proof. exact decorate_total. Qed.

(* the expansion of a selection never gives up (no panic from the model running out of fuel) *)
Theorem C02_expansion_total : forall s frs o n sels t p, expand_root s frs o n sels t p <> None.
Proof. exact expand_root_total. Qed.

Print Assumptions C02_closed_checker_sound.
Print Assumptions C02_closed_checker_complete.
Print Assumptions C02_one_module_per_operation.
Print Assumptions C02_module_self_contained.
Print Assumptions C02_field_type_exists.
Print Assumptions C02_expansion_total.
