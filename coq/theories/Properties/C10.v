(* Properties/C10.v — Generated enums are open-world string bijections.
   Stated for the enum item the model of codegen/enums.rs emits, for every value list, every
   normalization, ANY case-conversion function and ANY keyword table. *)
From GC Require Import Base Rust Json Heck Naming Enums EnumsProofs.

Section C10.
  Variables (tbl : list string) (norm : bool) (camel : string -> string) (derives : list string)
            (name : string) (values : list string).
  Notation ident := (enum_variant_ident tbl norm camel).
  Notation it := (enum_item tbl norm camel derives name values).
  (* hypotheses = "the enum compiles": value names distinct (GraphQL requires it) and their
     Rust identifiers distinct (otherwise rustc rejects the enum: known class K3/K4) *)
  Hypothesis Hvals : NoDup values.
  Hypothesis Hids : NoDup (map ident values).

  Theorem C10_value_to_own_variant : forall n v, nth_error values n = Some v ->
    item_deser it (JStr v) = Some (EVariant (ident v)).
  Proof. exact (deser_value tbl norm camel derives name values Hvals). Qed.

  Theorem C10_variant_to_own_name : forall n v, nth_error values n = Some v ->
    item_ser it (EVariant (ident v)) = Some (JStr v).
  Proof. exact (ser_variant tbl norm camel derives name values Hids). Qed.

  Theorem C10_other_strings : forall s, ~ In s values -> item_deser it (JStr s) = Some (EOther s).
  Proof. exact (deser_other tbl norm camel derives name values). Qed.

  Theorem C10_roundtrip_all_strings : forall s,
    exists v, item_deser it (JStr s) = Some v /\ item_ser it v = Some (JStr s).
  Proof. exact (roundtrip tbl norm camel derives name values Hvals Hids). Qed.

  Theorem C10_only_strings : forall j, (forall s, j <> JStr s) -> item_deser it j = None.
  Proof. exact (non_string_rejected tbl norm camel derives name values). Qed.

  Theorem C10_values_distinct_variants : forall a b va vb,
    In a values -> In b values ->
    item_deser it (JStr a) = Some va -> item_deser it (JStr b) = Some vb -> va = vb -> a = b.
  Proof. exact (deser_injective_on_values tbl norm camel derives name values Hvals Hids). Qed.
End C10.

(* non-vacuity: a concrete enum with keywords and mixed case meets the hypotheses *)
From GC.Gen Require Import Keywords.
Example C10_hypotheses_satisfiable :
  let vs := ["RED"; "type"; "self"; "mixedCase"; "snake_value"] in
  nodup_str vs = true /\
  nodup_str (map (enum_variant_ident rust_keywords true to_upper_camel_case) vs) = true /\
  nodup_str (map (enum_variant_ident rust_keywords false to_upper_camel_case) vs) = true.
Proof. vm_compute. auto. Qed.

Check C10_roundtrip_all_strings : forall tbl norm camel derives name values,
  NoDup values -> NoDup (map (enum_variant_ident tbl norm camel) values) ->
  forall s, exists v, item_deser (enum_item tbl norm camel derives name values) (JStr s) = Some v /\
                      item_ser (enum_item tbl norm camel derives name values) v = Some (JStr s).
Print Assumptions C10_value_to_own_variant.
Print Assumptions C10_variant_to_own_name.
Print Assumptions C10_other_strings.
Print Assumptions C10_roundtrip_all_strings.
Print Assumptions C10_only_strings.
Print Assumptions C10_values_distinct_variants.
