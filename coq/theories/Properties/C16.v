(* Properties/C16.v — ID fields accept strings and integers, canonically, wherever ID appears.
   `IntOrString` is the declaration TRANSLATED from graphql_client/src/serde_with.rs. *)
From GC Require Import Base Rust Json Enums Serde TypeExpr RunSerde RunC16 SerdeProofsC16.
From GC Require Import Schema Query Codegen StrategyAll InvariantAll IdAll.

(* the two helpers on every JSON value *)
Theorem C16_string_verbatim : forall o s, helper_model o (JStr s) = HOk (Some s).
Proof. exact helper_str. Qed.
Theorem C16_integer_decimal : forall o z, in_i64 z = true -> helper_model o (JInt z) = HOk (Some (decimal z)).
Proof. exact helper_int_in. Qed.
Theorem C16_integer_out_of_range : forall o z, in_i64 z = false -> helper_model o (JInt z) = HErr.
Proof. exact helper_int_out. Qed.
Theorem C16_null : helper_model true JNull = HOk None /\ helper_model false JNull = HErr.
Proof. exact helper_null. Qed.
Theorem C16_all_json : forall o j, prop_helper (CHelper o j (helper_model o j)) = true.
Proof. exact helper_meets_spec. Qed.
Theorem C16_decimal_injective : forall a b, decimal a = decimal b -> a = b.
Proof. exact decimal_inj. Qed.

(* attachment: exactly the ID-typed fields, type-correct for EVERY list / non-null nesting *)
Theorem C16_attached_and_typed : forall t, wf_gtype t = true -> gname t = "ID" ->
  match attach_model t with
  | (Some h, d) => helper_fits h (spec_rust t) = true /\ d = top_option (spec_rust t)
  | (None, _) => False
  end.
Proof. exact attach_fits. Qed.
Theorem C16_only_id : forall t, gname t <> "ID" -> attach_model t = (None, false).
Proof. exact attach_only_id. Qed.

(* absence and null at nullable / non-null positions, on the field the generator emits *)
Theorem C16_nullable_absent_is_none : one_field (GNamed "ID") [] = Some (VStruct [("x", VNone)]).
Proof. exact nullable_id_absent. Qed.
Theorem C16_nullable_null_is_none : one_field (GNamed "ID") [("x", JNull)] = Some (VStruct [("x", VNone)]).
Proof. exact nullable_id_null. Qed.
Theorem C16_nonnull_absent_rejected : one_field (GNonNull (GNamed "ID")) [] = None.
Proof. exact nonnull_id_absent. Qed.
Theorem C16_nonnull_null_rejected : one_field (GNonNull (GNamed "ID")) [("x", JNull)] = None.
Proof. exact nonnull_id_null. Qed.
Theorem C16_list_example :
  one_field (GNonNull (GList (GNonNull (GNamed "ID")))) [("x", JArr [JStr "a"; JInt 7; JInt (-3)])]
  = Some (VStruct [("x", VSeq [VStr "a"; VStr "7"; VStr "-3"])]).
Proof. exact list_mixed. Qed.

Check C16_all_json : forall o j, prop_helper (CHelper o j (helper_model o j)) = true.
Print Assumptions C16_string_verbatim.
Print Assumptions C16_integer_decimal.
Print Assumptions C16_integer_out_of_range.
Print Assumptions C16_null.
Print Assumptions C16_all_json.
Print Assumptions C16_decimal_injective.
Print Assumptions C16_attached_and_typed.
Print Assumptions C16_only_id.
Print Assumptions C16_nullable_absent_is_none.
Print Assumptions C16_nullable_null_is_none.
Print Assumptions C16_nonnull_absent_rejected.
Print Assumptions C16_nonnull_null_rejected.
Print Assumptions C16_list_example.

(* ---------- for ALL programs (IdAll.v): in the expansion of any selection — plain fields, aliases, nested
   objects, fragments, union / interface variants, any option set — a rendered field carries an ID helper
   exactly when the leaf of its Rust type is ID (a type the generator itself rejects, `<double required>`,
   aside), and the helper it carries returns exactly the field's type, for every list / non-null nesting. *)
Theorem C16_helper_exactly_on_id_fields_anywhere : forall s frs o fuel c sels sid t p c',
  fields_all id_rule c -> calc s frs o fuel c sels sid t p = Some c' -> fields_all id_rule c'.
Proof. exact id_helper_exactly_on_id_fields. Qed.
Theorem C16_helper_fits_anywhere : forall s frs o fuel c sels sid t p c',
  fields_all id_fit c -> calc s frs o fuel c sels sid t p = Some c' -> fields_all id_fit c'.
Proof. exact id_helper_fits_everywhere. Qed.
Theorem C16_from_any_root : forall s frs o root sels tname prefix c',
  calc s frs o (calc_fuel sels) (fst (push_type ctx0 root)) sels (snd (push_type ctx0 root)) tname prefix = Some c' ->
  fields_all id_rule c' /\ fields_all id_fit c'.
Proof. exact id_fields_of_any_root. Qed.
(* serde(default) — what turns an absent key into None — sits on an ID field exactly when its type is an
   Option: absent nullable IDs are None and absent non-null IDs are errors, at every position *)
Theorem C16_default_exactly_on_option_fields_anywhere : forall s frs o fuel c sels sid t p c',
  fields_all id_default c -> calc s frs o fuel c sels sid t p = Some c' -> fields_all id_default c'.
Proof. exact id_default_exactly_on_option_fields. Qed.
Print Assumptions C16_default_exactly_on_option_fields_anywhere.
Print Assumptions C16_helper_exactly_on_id_fields_anywhere.
Print Assumptions C16_helper_fits_anywhere.
Print Assumptions C16_from_any_root.
