(* Properties/C18.v — The derive macro applies exactly the options written in #[graphql(...)]. *)
From GC Require Import Base Heck Strs Attrs AttrsProofs.

(* every list of items with pairwise distinct keys — hence every subset and every permutation of
   the recognised keys at once — with or without a trailing comma *)
Theorem C18_extract_attr : forall its trail a,
  NoDup (map key its) -> extract_attr a (toks its trail) = lookup_kv a its.
Proof. exact extract_attr_eq. Qed.

Theorem C18_extract_attr_list : forall its trail a,
  NoDup (map key its) -> extract_attr_list a (toks its trail) = lookup_list a its.
Proof. exact extract_attr_list_eq. Qed.

Theorem C18_flag : forall its trail a, ident_exists a (toks its trail) = has_key a its.
Proof. exact ident_exists_eq. Qed.

Theorem C18_options : forall its trail,
  NoDup (map key its) -> derive_options (toks its trail) = spec_options its.
Proof. exact derive_options_eq. Qed.

(* absent keys leave the documented defaults: deprecated = warn (option left unset),
   normalization = none (unset), other-variant off, skip-none off *)
Theorem C18_defaults : forall its,
  ~ In "deprecated" (map key its) -> ~ In "normalization" (map key its) ->
  ~ In "fragments_other_variant" (map key its) -> ~ In "skip_serializing_none" (map key its) ->
  d_deprecation (spec_options its) = None /\ d_norm_rust (spec_options its) = None /\
  d_other_variant (spec_options its) = false /\ d_skip_none (spec_options its) = false.
Proof.
  intros its H1 H2 H3 H4. unfold spec_options; cbn.
  rewrite (lookup_kv_none _ _ H1), (lookup_kv_none _ _ H2), (lookup_kv_none _ _ H3). cbn.
  repeat split; try reflexivity.
  unfold has_key. destruct (mem_str _ _) eqn:E; [|reflexivity]. apply mem_str_In in E. contradiction.
Qed.

(* non-vacuity: a realistic attribute meets the hypothesis and yields the expected record *)
Example C18_example :
  let its := [KV "schema_path" "s.graphql"; Flag "skip_serializing_none"; KV "deprecated" "DENY";
              KList "extern_enums" ["A"; "B"] true; KV "query_path" "q.graphql"; KV "normalization" "rust"] in
  nodup_str (map key its) = true /\
  derive_options (toks its true) =
    mkDopts None None None (Some ["A"; "B"]) false true (Some DDeny) (Some true) (Some "q.graphql") (Some "s.graphql").
Proof. vm_compute. auto. Qed.

Check C18_options : forall its trail, NoDup (map key its) -> derive_options (toks its trail) = spec_options its.
Print Assumptions C18_extract_attr.
Print Assumptions C18_extract_attr_list.
Print Assumptions C18_flag.
Print Assumptions C18_options.
Print Assumptions C18_defaults.
