(* Properties/C05.v — Request body carries the verbatim document and the right operation name. *)
From GC Require Import Base Rust Json TypeExpr Heck Strs Naming Enums Schema Query Attrs Codegen Serde RunSerde SelectProofs.
From GC.Gen Require Import LibTypes.

(* (a) exactly the members variables / query / operationName, over the TRANSLATED QueryBody *)
Theorem C05_body_members : forall v q n,
  ser FUEL lib_items (RNamed "QueryBody")
      (VStruct [("variables", VJson v); ("query", VStr q); ("operation_name", VStr n)])
  = Some (JObj [("variables", v); ("query", JStr q); ("operationName", JStr n)]).
Proof. exact query_body_wire. Qed.

(* (b) every module: QUERY is the document text it was given (whatever that text is),
   OPERATION_NAME the unmodified operation name, build_query wires exactly those constants *)
Theorem C05_module_constants : forall s q o text n m, module_of s q o text n = Ok m ->
  m_query m = text /\ m_operation_name m = n /\ m_name m = snake n /\ m_impl_for m = norm o n /\
  In ("query", (snake n ++ "::QUERY")%string) (m_impl_body m) /\
  In ("operation_name", (snake n ++ "::OPERATION_NAME")%string) (m_impl_body m) /\
  m_struct_decl m = (if o_cli o then Some (norm o n, module_vis o) else None).
Proof. exact module_of_facts. Qed.

(* ... and ResponseData / Variables were generated from that same operation, provided operation
   names stay distinct under the chosen normalization (otherwise both map to one module name) *)
Theorem C05_items_of_named_operation : forall s q o text op m,
  NoDup (map (fun x => norm o (ro_name x)) (rq_ops q)) -> In op (rq_ops q) ->
  module_of s q o text (ro_name op) = Ok m ->
  operation_items s (rq_frags q) o op = Some (m_items m).
Proof. exact module_of_items. Qed.

(* (c) derive form *)
Theorem C05_derive_never_falls_back : forall s doc o text q, resolve s doc = Ok q ->
  o_cli o = false ->
  (forall n, o_operation_name o = Some n -> select_operation o (rq_ops q) n = None) ->
  exists msg, generate s doc o text = Err msg.
Proof. exact derive_no_fallback. Qed.

Theorem C05_derive_selects_by_name : forall s doc o text q, resolve s doc = Ok q ->
  forall n ms, o_cli o = false -> o_operation_name o = Some n -> generate s doc o text = Ok ms ->
  exists op m, ms = [m] /\ In op (rq_ops q) /\ norm o (ro_name op) = n /\
               m_operation_name m = ro_name op /\ m_query m = text.
Proof. exact derive_selects_named. Qed.

(* (d) CLI / library form *)
Theorem C05_explicit_name_selects_exactly_that : forall s doc o text q, resolve s doc = Ok q ->
  forall n ms, o_operation_name o = Some n -> (exists op, select_operation o (rq_ops q) n = Some op) ->
  generate s doc o text = Ok ms ->
  exists op m, ms = [m] /\ norm o (ro_name op) = n /\ m_operation_name m = ro_name op /\ m_query m = text.
Proof. exact cli_explicit. Qed.

Theorem C05_no_selection_one_module_per_operation : forall s doc o text q, resolve s doc = Ok q ->
  forall ms, o_cli o = true -> o_operation_name o = None -> generate s doc o text = Ok ms ->
  map m_operation_name ms = map ro_name (rq_ops q) /\ forall m, In m ms -> m_query m = text.
Proof. exact cli_all. Qed.

Check C05_derive_never_falls_back.
Print Assumptions C05_body_members.
Print Assumptions C05_module_constants.
Print Assumptions C05_items_of_named_operation.
Print Assumptions C05_derive_never_falls_back.
Print Assumptions C05_derive_selects_by_name.
Print Assumptions C05_explicit_name_selects_exactly_that.
Print Assumptions C05_no_selection_one_module_per_operation.
