(* Properties/C01.v — every spec-conforming response deserializes losslessly into ResponseData.
   Specification of "conforming" and of the permitted differences: Conform.v (written from the
   GraphQL spec on the raw query AST, independent of the generator).  What is PROVED for all
   inputs are the layers below; their composition over a whole selection tree is evaluated per
   case on the generator model (RunResp.prop_c01), which is why the check is `partial`. *)
From GC Require Import Base Rust Json TypeExpr TypeExprProofs Schema Query Codegen Enums Serde SerdeLemmas
  RunSerde RunGen Conform RespProofs Compose RunResp.

(* the full statement (NOT proved as a whole): for every program the generator accepts whose
   operation needs no field merging, every conforming payload is accepted and re-serialises to the
   same normal form *)
Definition C01_full_statement : Prop :=
  forall sdl doc o text s ms m data,
    schema_of_sdl sdl = Ok s -> generate s doc o text = Ok ms -> In m ms ->
    needs_merging s doc (m_operation_name m) = false ->
    conforms s doc (m_operation_name m) data = true ->
    exists v, deser RunSerde.henv FUEL (m_items m) (RNamed "ResponseData") data = Some v /\
      forall out, ser FUEL (m_items m) (RNamed "ResponseData") v = Some out ->
                  lossless s doc (m_operation_name m) data out = true.

(* layer 1 — type expressions: the field type the generator emits for a schema type accepts
   exactly the values that conform to it, at every list / non-null nesting *)
Theorem C01_field_type_partial : forall henv env n leaf F0,
  (forall F j, F0 <= F -> is_null j = false -> is_some (deser henv F env (RNamed n) j) = leaf j) ->
  (forall F, deser henv F env (RNamed n) JNull = None) ->
  forall t, wf_gtype t = true ->
  exists r, decorate n (quals_sdl t) = Some r /\
    forall F j, F0 + wraps t + 1 <= F -> is_some (deser henv F env r j) = ctype leaf true t j.
Proof. exact field_type_accepts. Qed.

(* a leaf type that accepts more still accepts every conforming value *)
Theorem C01_leaf_monotone : forall l1 l2 : json -> bool, (forall j, l1 j = true -> l2 j = true) ->
  forall t b j, ctype l1 b t j = true -> ctype l2 b t j = true.
Proof. exact ctype_mono. Qed.

(* layer 2 — leaves: every value the specification allows for a built-in scalar is accepted *)
Theorem C01_int_partial : forall henv env, find_item "Int" env = Some (IAlias "Int" (RNamed "i64")) ->
  forall F j, scalar_leaf "Int" j = true -> is_some (deser henv (S (S F)) env (RNamed "Int") j) = true.
Proof. exact int_conforming. Qed.
Theorem C01_float_partial : forall henv env, find_item "Float" env = Some (IAlias "Float" (RNamed "f64")) ->
  forall F j, scalar_leaf "Float" j = is_some (deser henv (S (S F)) env (RNamed "Float") j).
Proof. exact float_conforming. Qed.
Theorem C01_bool_partial : forall henv env, find_item "Boolean" env = Some (IAlias "Boolean" (RNamed "bool")) ->
  forall F j, scalar_leaf "Boolean" j = is_some (deser henv (S (S F)) env (RNamed "Boolean") j).
Proof. exact bool_conforming. Qed.
Theorem C01_string_partial : forall henv env F j,
  scalar_leaf "String" j = is_some (deser henv (S F) env (RNamed "String") j).
Proof. exact string_conforming. Qed.
Theorem C01_enum_partial : forall henv env n d vs sa so da F j,
  find_item n env = Some (IStrEnum n d vs sa so da true) -> prim_deser n j = None ->
  is_some (deser henv (S F) env (RNamed n) j) = match j with JStr _ => true | _ => false end.
Proof. exact enum_leaf. Qed.

(* layer 3 — objects: a struct without flattened members accepts an object with unique keys whose
   members are each acceptable (absent keys only where the missing-field rule allows), and the
   value has exactly the declared members *)
Theorem C01_struct_partial : forall D Dh env fields,
  forallb (fun fd => negb (f_flatten fd)) fields = true ->
  NoDup (map field_wire fields) -> NoDup (map f_ident fields) ->
  forall m, NoDup (map fst m) ->
  (forall fd, In fd fields -> member_ok D Dh m fd <> None) ->
  exists vs, deser_struct D Dh env fields m = Some (VStruct vs) /\ map fst vs = map f_ident fields /\
    forall fd, In fd fields -> exists v, member_ok D Dh m fd = Some v /\ assoc (f_ident fd) vs = Some v.
Proof. exact struct_accepts. Qed.

(* layer 4 — abstract positions: the variant named by `__typename` is the one that is built *)
Theorem C01_variant_partial : forall D tag variants m s v r,
  tag_of tag m = Some s -> find (fun x => String.eqb (variant_wire x) s) variants = Some v ->
  deser_tagged D tag variants m = Some r -> exists p, r = VVariant (v_ident v) p.
Proof. exact tagged_selects_own. Qed.

(* layer 5 — COMPOSITION, by certificate: for ANY item list the checker `sel_need` accepts for a type
   name and a selection set, every conforming payload of every size, for every runtime type of the
   position, is accepted.  The checker covers: object types (plain structs), interfaces and unions
   (`__typename`-tagged enum, alone or flattened as the last member of a struct with the shared
   fields; one inline fragment with a field-only body per member type; members without fragment as
   unit variants), scalars, custom scalars, enums and ID leaves (all three helpers) under any
   list / non-null wrapping, to any depth.  Named fragments (spreads), nested fragments inside
   inline fragments, and operations that need field merging are outside it (it answers None), so
   this remains a partial composition.  The checker runs on the generator model's items per case
   (RunResp.certified); the theorem quantifies over all payloads. *)
Theorem C01_checker_sound : forall s frags henv env fuel name t sels B,
  sel_need s frags henv env fuel name t sels = Some B ->
  forall F, B <= F -> forall Fj m rt, In rt (possible s t) -> cobj s frags Fj rt sels m = true ->
  is_some (deser henv F env (RNamed name) (JObj m)) = true.
Proof. exact sel_accepts. Qed.

Theorem C01_certified_accepts_all_partial : forall s henv env doc op B,
  certify s henv env doc op = Some B ->
  forall F data, B <= F -> conforms s doc op data = true ->
  is_some (deser henv F env (RNamed "ResponseData") data) = true.
Proof. exact certified_accepts_all. Qed.

(* the certificate is not vacuous: the generator model's items for a nested selection pass it *)
Definition cert_example_schema : sdl_doc :=
  mkSdl [DEnum "Color" ["RED"; "GREEN"]; DScalar "Date";
         DObject "Person" [] [mkFD "name" (GNamed "String") None; mkFD "born" (GNamed "Date") None];
         DObject "Dog" [] [mkFD "id" (GNonNull (GNamed "ID")) None; mkFD "tags" (GList (GNonNull (GNamed "ID"))) None;
                           mkFD "nick" (GNamed "ID") None; mkFD "name" (GNonNull (GNamed "String")) None; mkFD "color" (GNamed "Color") None;
                           mkFD "weights" (GNonNull (GList (GNonNull (GNamed "Float")))) None;
                           mkFD "owner" (GNamed "Person") None; mkFD "friends" (GList (GNamed "Dog")) None];
         DObject "Cat" ["Animal"] [mkFD "id" (GNonNull (GNamed "ID")) None; mkFD "lives" (GNonNull (GNamed "Int")) None];
         DObject "Bird" ["Animal"] [mkFD "id" (GNonNull (GNamed "ID")) None];
         DInterface "Animal" [mkFD "id" (GNonNull (GNamed "ID")) None];
         DUnion "Pet" ["Cat"; "Dog"];
         DObject "Query" [] [mkFD "dogs" (GNonNull (GList (GNonNull (GNamed "Dog")))) None; mkFD "count" (GNonNull (GNamed "Int")) None;
                             mkFD "animals" (GList (GNamed "Animal")) None; mkFD "pet" (GNamed "Pet") None]] None.
Definition cert_example_doc : list qdef :=
  [QFrag "OwnerBits" "Person" [SField None "name" []; SField (Some "since") "born" []];
   QOp OQuery (Some "Q") []
     [SField None "count" [];
      SField None "animals" [SField None "__typename" []; SField None "id" [];
                             SInline (Some "Cat") [SField None "lives" []]];
      SField None "pet" [SField None "__typename" []; SInline (Some "Dog") [SField None "name" []; SField None "nick" []]];
      SField (Some "all") "dogs" [SField None "__typename" []; SField None "id" []; SField None "tags" [];
                                  SField None "nick" []; SField None "name" []; SField None "color" [];
                                  SField None "weights" [];
                                  SField None "owner" [SSpread "OwnerBits"; SField (Some "n2") "name" []];
                                  SField None "friends" [SField (Some "n") "name" []]]]].
Example C01_certificate_example :
  match schema_of_sdl cert_example_schema with
  | Ok s => match generate s cert_example_doc
                     (mkOpts true (Some "Q") None None (Some "Serialize") None false None [] false false None None None) "" with
            | Ok [m] => match certify s RunSerde.henv (m_items m) cert_example_doc "Q" with Some B => Nat.leb B 30 | None => false end
            | _ => false end
  | _ => false end = true.
Proof. vm_compute. reflexivity. Qed.

(* the known class is real: a conforming payload of a two-line program that the MODEL of the
   generated code rejects (the implementation agrees, see known_findings.json) *)
Definition merging_witness_schema : sdl_doc :=
  mkSdl [DObject "Dog" [] [mkFD "name" (GNonNull (GNamed "String")) None];
         DObject "Query" [] [mkFD "dog" (GNamed "Dog") None]] None.
Definition merging_witness_doc : list qdef :=
  [QFrag "F" "Dog" [SField None "name" []];
   QOp OQuery (Some "Q") [] [SField None "dog" [SField None "name" []; SSpread "F"]]].
Definition merging_witness_payload : json := JObj [("dog", JObj [("name", JStr "Rex")])].
Definition merging_witness_case : rcase :=
  mkR (mkG merging_witness_schema merging_witness_doc
           (mkOpts true (Some "Q") None None (Some "Serialize") None false None [] false false None None None) GErr)
      "Q" true [mkV "conforming" merging_witness_payload SErr None].

Theorem C01_field_merging_refuted :
  is_conforming merging_witness_case (mkV "conforming" merging_witness_payload SErr None) = true /\
  in_field_merging merging_witness_case = true /\
  option_map (fun items => run_model items "ResponseData" true merging_witness_payload) (model_items merging_witness_case) = Some SErr.
Proof. vm_compute. repeat split. Qed.

Check C01_field_type_partial.
Print Assumptions C01_field_type_partial.
Print Assumptions C01_leaf_monotone.
Print Assumptions C01_int_partial.
Print Assumptions C01_float_partial.
Print Assumptions C01_bool_partial.
Print Assumptions C01_string_partial.
Print Assumptions C01_enum_partial.
Print Assumptions C01_struct_partial.
Print Assumptions C01_variant_partial.
Print Assumptions C01_checker_sound.
Print Assumptions C01_certified_accepts_all_partial.
Print Assumptions C01_certificate_example.
Print Assumptions C01_field_merging_refuted.
