(* Properties/C11.v — Rust keywords and naming conventions never reach the wire or break the build.
   The keyword table is the one TRANSLATED from codegen/shared.rs on this run. *)
From GC Require Import Base Rust Heck Naming NamingProofs Schema Query Codegen StrategyAll InvariantAll WireAll.
From GC.Gen Require Import Keywords.

(* finite facts about the translated table, by computation (bound = table length) *)
Theorem C11_table_complete : table_complete rust_keywords = true.
Proof. vm_compute. reflexivity. Qed.
Theorem C11_table_escape_closed : escape_closed rust_keywords = true.
Proof. vm_compute. reflexivity. Qed.
Theorem C11_table_covers_reference :
  forallb (fun w => mem_str w rust_keywords) reference_keywords = true.
Proof. vm_compute. reflexivity. Qed.

(* the escape is applied exactly to the table's words, for every string *)
Theorem C11_escape_iff : forall w,
  keyword_replace rust_keywords w = (w ++ "_")%string <-> In w rust_keywords.
Proof. exact (keyword_replace_iff rust_keywords C11_table_complete). Qed.
Theorem C11_escape_other : forall w, ~ In w rust_keywords -> keyword_replace rust_keywords w = w.
Proof. exact (keyword_replace_other rust_keywords). Qed.
Theorem C11_escaped_never_keyword : forall w, ~ In (keyword_replace rust_keywords w) rust_keywords.
Proof. exact (keyword_replace_not_keyword rust_keywords C11_table_complete C11_table_escape_closed). Qed.
Theorem C11_escaped_never_reference_keyword : forall w,
  ~ In (keyword_replace rust_keywords w) reference_keywords.
Proof.
  intros w H. apply (C11_escaped_never_keyword w).
  pose proof C11_table_covers_reference as Hc. rewrite forallb_forall in Hc.
  apply mem_str_In. exact (Hc _ H).
Qed.

(* the wire key is the GraphQL name at every struct-field-like position, for ANY case conversion *)
Theorem C11_wire_key_fields : forall snake name,
  wire_key (field_names rust_keywords snake name) = name.
Proof. exact (field_wire_key rust_keywords). Qed.

(* @oneOf member position *)
Theorem C11_wire_key_oneof : forall camel name,
  wire_key (oneof_names rust_keywords camel name) = name.
Proof. exact (oneof_wire_key rust_keywords). Qed.

(* regression theorem for the repaired defect: the old computation put `Self_` on the wire *)
Theorem C11_oneof_prefix_refuted :
  wire_key (oneof_names_prefix rust_keywords to_upper_camel_case "Self") = "Self_".
Proof. vm_compute. reflexivity. Qed.

(* enum values: the variant identifier is never a keyword under either normalization, and the
   wire string in both hand-written impls is the schema value itself (by construction of
   Codegen's enum item, see Properties/C10.v) *)
Theorem C11_enum_variant_never_keyword : forall norm camel v,
  ~ In (enum_variant_ident rust_keywords norm camel v) reference_keywords.
Proof.
  intros norm camel v H.
  apply (enum_variant_not_keyword rust_keywords norm camel v C11_table_complete C11_table_escape_closed).
  pose proof C11_table_covers_reference as Hc. rewrite forallb_forall in Hc.
  apply mem_str_In. exact (Hc _ H).
Qed.

Check C11_escape_iff : forall w, keyword_replace rust_keywords w = (w ++ "_")%string <-> In w rust_keywords.
Check C11_wire_key_fields : forall snake name, wire_key (field_names rust_keywords snake name) = name.
Print Assumptions C11_table_complete.
Print Assumptions C11_table_escape_closed.
Print Assumptions C11_table_covers_reference.
Print Assumptions C11_escape_iff.
Print Assumptions C11_escape_other.
Print Assumptions C11_escaped_never_keyword.
Print Assumptions C11_escaped_never_reference_keyword.
Print Assumptions C11_wire_key_fields.
Print Assumptions C11_wire_key_oneof.
Print Assumptions C11_oneof_prefix_refuted.
Print Assumptions C11_enum_variant_never_keyword.

(* ---------- for ALL programs (InvariantAll.v): no struct member anywhere in the expansion of any
   selection — plain fields, aliases, nested objects, fragment-spread members in structs AND in the structs of
   union / interface variants — is named by a keyword of the table.  (Lifting the per-field fact to whole
   programs is what exposed the call site that did not escape: repaired, fix 7db317c.) *)
Theorem C11_no_keyword_member_anywhere : forall s frs o fuel c sels sid t p c',
  fields_all not_keyword c -> calc s frs o fuel c sels sid t p = Some c' -> fields_all not_keyword c'.
Proof. exact (no_keyword_member_anywhere C11_table_complete C11_table_escape_closed). Qed.
Print Assumptions C11_no_keyword_member_anywhere.

(* ---------- for ALL programs (WireAll.v): seen through the keys serde reads and writes (`wire_view`: every
   non-flattened member named by its wire key), the expansion of any selection is the expansion produced by a
   renderer that is blind to the Rust identifier at every selected field, and the key of each such field is its
   response key: keyword escaping and case conversion never reach the wire, at any position of any program.
   (Members of tagged variants carry their own rename, covered per position by C11_wire_key_fields and the token-level correspondence.) *)
Theorem C11_wire_view_of_expansion : forall s frs o fuel c sels sid t p,
  calcG s frs o (wire_render o) (o_other_variant o) fuel (cmap wire_view c) sels sid t p =
  option_map (cmap wire_view) (calc s frs o fuel c sels sid t p).
Proof. exact wire_view_of_expansion. Qed.
Theorem C11_wire_render_ignores_identifier : forall o n b b' ft quals d bx,
  wire_render o (Some n) b ft quals false d bx = wire_render o (Some n) b' ft quals false d bx.
Proof. exact wire_render_ignores_identifier. Qed.
Theorem C11_wire_render_key : forall o n b ft quals d bx f,
  wire_render o (Some n) b ft quals false d bx = Some f -> member_key f = n /\ f_rename f = None.
Proof. exact wire_render_key. Qed.
Theorem C11_render_field_wire_key : forall o n b ft quals d bx f,
  render_field o (Some n) b ft quals false d bx = Some f -> member_key f = n.
Proof. exact render_field_wire_key. Qed.
Print Assumptions C11_wire_view_of_expansion.
Print Assumptions C11_wire_render_ignores_identifier.
Print Assumptions C11_wire_render_key.
Print Assumptions C11_render_field_wire_key.
