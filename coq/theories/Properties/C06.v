(* Properties/C06.v — Operations the schema cannot answer are never turned into code.
   `resolve` is the model of query.rs / query/validation.rs / query/selection.rs; generation
   succeeds only if `resolve` does (Codegen.generate starts with it). *)
From GC Require Import Base Rust TypeExpr Schema Query Codegen QueryProofs.
From GC.Gen Require Import Keywords.

(* generation never succeeds unless binding + validation succeed *)
Theorem C06_generation_needs_resolve : forall s doc o text ms,
  generate s doc o text = Ok ms -> exists q, resolve s doc = Ok q.
Proof.
  intros s doc o text ms H. unfold generate in H. destruct (resolve s doc) as [q| |]; cbn [bind] in H; try discriminate. eauto.
Qed.

(* acceptance is hereditary: each local rule below holds at EVERY depth, inside fragments and
   inside inline fragments, on objects, interfaces and unions *)
Theorem C06_rules_hold_at_every_depth : forall s ft k t x k2 t2 z,
  sel_at s k t x k2 t2 z -> forall r, resolve_sel s ft k t x = Ok r -> exists r', resolve_sel s ft k2 t2 z = Ok r'.
Proof. exact accepted_everywhere. Qed.

(* rule: selecting a field the parent type does not have; a sub-selection on a scalar / enum field *)
Theorem C06_field_rule : forall s ft k t a n sub r,
  resolve_sel s ft k t (SField a n sub) = Ok r -> String.eqb n typename_field = false ->
  (k = KObject \/ k = KInterface) /\
  exists fs fd k', fields_of_type s t = Some fs /\ field_named fs n = Some fd /\
                   find_kind_sdl s (gname (fd_type fd)) = Some k' /\
                   (is_composite_kind k' = false -> sub = []) /\
                   exists sub', resolve_list s ft k' (gname (fd_type fd)) sub = Ok sub' /\ r = RField a fd sub'.
Proof. exact accepted_field. Qed.

(* rule: spreading an undefined fragment *)
Theorem C06_spread_rule : forall s ft k t n r,
  resolve_sel s ft k t (SSpread n) = Ok r -> exists on, assoc n ft = Some on.
Proof. exact accepted_spread. Qed.

(* rule: a type condition that names no schema type *)
Theorem C06_inline_rule : forall s ft k t on sub r,
  resolve_sel s ft k t (SInline on sub) = Ok r ->
  exists ty k', on = Some ty /\ find_kind_sdl s ty = Some k' /\
                exists sub', resolve_list s ft k' ty sub = Ok sub' /\ r = RInline ty sub'.
Proof. exact accepted_inline. Qed.

(* what an accepted document has passed *)
Theorem C06_resolve_checks : forall s doc q, resolve s doc = Ok q ->
  create_roots s doc = Ok tt /\ typename_ok s q = true /\
  (forall op, In op (rq_ops q) -> forall x, In x (ro_sel op) -> conditions_ok s (rq_frags q) (ro_root op) x = true) /\
  (forall fr, In fr (rq_frags q) -> forall x, In x (rf_sel fr) -> conditions_ok s (rq_frags q) (rf_on fr) x = true).
Proof. exact resolve_checks. Qed.

(* rule: a type condition that can never apply to the parent type (inline fragments and spreads) *)
Theorem C06_inline_condition_rule : forall s frs p x p2 on sub,
  conditions_ok s frs p x = true -> rsel_at p x p2 (RInline on sub) -> composite_parent s p2 -> applicable s p2 on.
Proof. exact inline_condition_applies. Qed.
Theorem C06_spread_condition_rule : forall s frs p x p2 n fr,
  conditions_ok s frs p x = true -> rsel_at p x p2 (RSpread n) -> find_frag frs n = Some fr ->
  composite_parent s p2 -> applicable s p2 (rf_on fr).
Proof. exact spread_condition_applies. Qed.

(* rule: omitting __typename on an interface / union selection *)
Theorem C06_typename_rule : forall s q op p2 x a fd sub,
  typename_ok s q = true -> In op (rq_ops q) -> In x (ro_sel op) ->
  rsel_at (ro_root op) x p2 (RField a fd sub) -> is_abstract s (gname (fd_type fd)) = true ->
  selects_typename (rq_frags q) (gname (fd_type fd)) sub.
Proof. exact typename_everywhere. Qed.
Theorem C06_typename_rule_fragments : forall s q fr,
  typename_ok s q = true -> In fr (rq_frags q) -> is_abstract s (rf_on fr) = true ->
  selects_typename (rq_frags q) (rf_on fr) (rf_sel fr).
Proof. exact typename_in_fragments. Qed.

(* rules on operations: anonymous, several root fields in a subscription, missing root type *)
Theorem C06_unnamed_operation : forall s k vars sels doc,
  (exists e, create_roots s (QOp k None vars sels :: doc) = Err e) \/
  (exists e, create_roots s (QOp k None vars sels :: doc) = Panic e).
Proof. exact roots_unnamed. Qed.
Theorem C06_bare_selection_set : forall s doc sels pre, create_roots s pre = Ok tt ->
  exists e, create_roots s (pre ++ QAnon sels :: doc) = Err e \/ create_roots s (pre ++ QAnon sels :: doc) = Panic e.
Proof. exact roots_anonymous. Qed.
Theorem C06_subscription_single_root_field : forall s name vars sels doc, List.length sels <> 1 ->
  (exists e, create_roots s (QOp OSubscription name vars sels :: doc) = Err e) \/
  (exists e, create_roots s (QOp OSubscription name vars sels :: doc) = Panic e).
Proof. exact roots_subscription_fields. Qed.
Theorem C06_missing_root_type : forall s k name vars sels doc,
  (match k with OQuery => a_query s | OMutation => a_mutation s | OSubscription => a_subscription s end) = None ->
  (exists e, create_roots s (QOp k name vars sels :: doc) = Err e) \/
  (exists e, create_roots s (QOp k name vars sels :: doc) = Panic e).
Proof. exact roots_missing_root. Qed.

(* KNOWN FINDING K9, as a theorem about the faithful model: a composite field WITHOUT a
   sub-selection is accepted (the repository's own test fixture relies on it) *)
Definition k9_schema : aschema :=
  mkSchema default_scalars [] [mkObj "Dog" [] [mkFD "name" (GNamed "String") None];
                               mkObj "Query" [] [mkFD "dog" (GNamed "Dog") None]] [] [] [] (Some "Query") None None.
Theorem C06_composite_without_subselection_refuted :
  exists q, resolve k9_schema [QOp OQuery (Some "Q") [] [SField None "dog" []]] = Ok q.
Proof. eexists. vm_compute. reflexivity. Qed.

Print Assumptions C06_generation_needs_resolve.
Print Assumptions C06_rules_hold_at_every_depth.
Print Assumptions C06_field_rule.
Print Assumptions C06_spread_rule.
Print Assumptions C06_inline_rule.
Print Assumptions C06_resolve_checks.
Print Assumptions C06_inline_condition_rule.
Print Assumptions C06_spread_condition_rule.
Print Assumptions C06_typename_rule.
Print Assumptions C06_typename_rule_fragments.
Print Assumptions C06_unnamed_operation.
Print Assumptions C06_bare_selection_set.
Print Assumptions C06_subscription_single_root_field.
Print Assumptions C06_missing_root_type.
Print Assumptions C06_composite_without_subselection_refuted.
