(* Properties/C04.v — Variables serialize to exactly the operation's declared variables, validly
   typed.  Specification of validity: VarSpec.v.  The layers below hold for ALL values of the
   generated types; their composition over nested input types, and the converse (every valid
   assignment is expressible), are evaluated per case (RunVars.prop_c04): `partial`. *)
From GC Require Import Base Rust Json TypeExpr Heck Naming Enums Schema Query Attrs Codegen Serde
  Conform RespProofs Compose VarSpec VarProofs VarCert StrategyAll OptionAll.

(* the Variables struct of an operation is the struct of `variable_field`s *)
Theorem C04_variables_struct : forall o op v vs, ro_vars op = v :: vs ->
  variables_item o op = IStruct "Variables" (variable_derives o) (Some (serde_path_str o))
                                (map (variable_field o) (v :: vs)).
Proof. exact variables_item_fields. Qed.

(* keys = declared variable names, in order, minus the None ones under skip_serializing_none *)
Theorem C04_variables_keys : forall o S vals vars m,
  ser_fields S vals (map (variable_field o) vars) = Some m ->
  map fst m = map vd_name (filter (fun v => kept vals (variable_field o v)) vars).
Proof. exact variables_keys. Qed.

(* without skip_serializing_none: exactly the declared names, whatever the value *)
Theorem C04_variables_keys_exact : forall o S vals vars m, o_skip_none o = false ->
  ser_fields S vals (map (variable_field o) vars) = Some m -> map fst m = map vd_name vars.
Proof. exact variables_keys_all. Qed.

(* input objects: the keys written are the schema's field names (all of them unless skipped) *)
Theorem C04_input_struct : forall s o inp, ai_one_of inp = false ->
  input_item s o inp = IStruct (kw (norm o (ai_name inp))) (variable_derives o) (Some (serde_path_str o))
                               (map (input_member s o) (ai_fields inp)).
Proof. exact input_item_struct. Qed.
Theorem C04_input_keys : forall s o S vals fs m,
  ser_fields S vals (map (input_member s o) fs) = Some m ->
  map fst m = map fst (filter (fun fld => kept vals (input_member s o fld)) fs).
Proof. exact input_keys. Qed.
Theorem C04_input_keys_in_schema : forall s o S vals fs m k,
  ser_fields S vals (map (input_member s o) fs) = Some m -> In k (map fst m) -> In k (map fst fs).
Proof. exact input_keys_in_schema. Qed.

(* @oneOf: exactly one key *)
Theorem C04_oneof_one_key : forall env F n d c vs v j,
  find_item n env = Some (IExtEnum n d c vs) -> prim_ser n v = None ->
  (forall x, In x vs -> v_payload x <> None) ->
  ser (S F) env (RNamed n) v = Some j ->
  exists x j', In x vs /\ j = JObj [(variant_wire x, j')].
Proof. exact oneof_one_key. Qed.
(* ... named as in the schema *)
Theorem C04_oneof_key_name : forall o s fld,
  variant_wire (mkVariant (fst (oneof_names tbl camel (fst fld))) (snd (oneof_names tbl camel (fst fld)))
                          (Some (input_field_type s o (snd fld) true)) false) = fst fld.
Proof. exact oneof_variant_wire. Qed.

(* enum values: a schema value name, unless the catch-all variant is used (known class K11) *)
Theorem C04_enum_value_names : forall tbl norm camel d name values i w,
  item_ser (enum_item tbl norm camel d name values) (EVariant i) = Some (JStr w) -> In w values.
Proof. exact enum_ser_in_schema. Qed.
Theorem C04_enum_other_refuted : forall tbl norm camel d name values x,
  ~ In x values -> item_ser (enum_item tbl norm camel d name values) (EOther x) = Some (JStr x) /\ ~ In x values.
Proof. exact enum_other_refuted. Qed.

(* non-null positions are never null, provided the leaf type never writes null *)
Theorem C04_nonnull_never_null : forall env F t n v j,
  (forall F' v', ser F' env (RNamed n) v' <> Some JNull) ->
  ser F env (core (rename t n)) v = Some j -> j <> JNull.
Proof. exact core_never_null. Qed.

(* COMPOSITION BY CERTIFICATE: for ANY items and type map the checker `vars_ok` accepts, every value of
   Variables that serialises at all and is `clean` (no catch-all enum variant: known class K11; no
   JSON null held by a consumer-supplied scalar; f64 holding a number) serialises to a valid
   `variables` object (VarSpec.valid_variables): declared keys only, input-object keys from the
   schema with absent members only where nullable, @oneOf with exactly one non-null member, enum
   values of the schema, null only at nullable positions — through any nesting of lists and of
   (recursive, boxed) input objects.  The checker runs on the generator model's items per case. *)
Theorem C04_named_type_valid : forall s env tm, tm_ok s env tm = true ->
  forall f ln tn, assoc ln tm = Some tn ->
  forall F v j, clean v = true -> ser F env (RNamed ln) v = Some j -> jdepth j <= f ->
  vnamed s f tn j = true /\ is_null j = false.
Proof. exact named_valid_all. Qed.

Theorem C04_variables_valid_partial : forall s env tm vars, vars_ok s env tm vars = true ->
  forall F v j, clean v = true -> ser F env (RNamed "Variables") v = Some j -> valid_variables s vars j = true.
Proof. exact variables_valid. Qed.

Print Assumptions C04_named_type_valid.
Print Assumptions C04_variables_valid_partial.
Print Assumptions C04_variables_struct.
Print Assumptions C04_variables_keys.
Print Assumptions C04_variables_keys_exact.
Print Assumptions C04_input_struct.
Print Assumptions C04_input_keys.
Print Assumptions C04_input_keys_in_schema.
Print Assumptions C04_oneof_one_key.
Print Assumptions C04_oneof_key_name.
Print Assumptions C04_enum_value_names.
Print Assumptions C04_enum_other_refuted.
Print Assumptions C04_nonnull_never_null.

(* ---------- skip_serializing_none, for ALL programs (OptionAll.v): input objects and `Variables`
   with the option off are the items with the option on, the skip-when-None flags cleared — same members,
   same types, same wire keys; the same holds for every rendered response field of any selection. *)
Theorem C04_skip_none_input_objects : forall s o inp,
  input_item s (with_skip o false) inp = clear_skip_item (input_item s (with_skip o true) inp).
Proof. exact input_item_skip. Qed.
Theorem C04_skip_none_variables : forall o op,
  variables_item (with_skip o false) op = clear_skip_item (variables_item (with_skip o true) op).
Proof. exact variables_item_skip. Qed.
Theorem C04_skip_none_response_fields : forall s frs o fuel c sels sid t p,
  calc s frs (with_skip o false) fuel (cmap clear_skip c) sels sid t p =
  option_map (cmap clear_skip) (calc s frs (with_skip o true) fuel c sels sid t p).
Proof. exact skip_none_only_sets_the_flag. Qed.
Print Assumptions C04_skip_none_input_objects.
Print Assumptions C04_skip_none_variables.
Print Assumptions C04_skip_none_response_fields.
