(* Properties/C20.v — `introspect-schema` sends the right request and never corrupts its output. *)
From GC Require Import Base Cli CliProofs RunC20.
From GC.Gen Require Import CliFacts.

(* header parsing, over code points with the 25 White_Space code points of str::trim *)
Theorem C20_header_accepted : forall p1 p2 name v,
  all_ws p1 = true -> all_ws p2 = true -> name <> [] -> no_ws name = true -> no_colon name = true ->
  parse_header (p1 ++ name ++ p2 ++ 58%N :: v) = Some (name, trim_n v).
Proof. exact header_accepted. Qed.
Theorem C20_header_without_colon_refused : forall input, no_colon input = true -> parse_header input = None.
Proof. exact header_without_colon_refused. Qed.
Theorem C20_header_empty_name_refused : forall p v, all_ws p = true -> parse_header (p ++ 58%N :: v) = None.
Proof. exact header_empty_name_refused. Qed.
Theorem C20_header_space_in_name_refused : forall a w b v,
  no_ws a = true -> no_ws b = true -> a <> [] -> b <> [] -> is_ws w = true -> no_colon (a ++ w :: b) = true ->
  parse_header (a ++ w :: b ++ 58%N :: v) = None.
Proof. exact header_space_in_name_refused. Qed.

(* the request: for each of the four flag combinations the document sent is the matching one of the
   TRANSLATED table, and each document defines exactly the operation its derive struct names *)
Theorem C20_documents : 
  map (fun p => expected_operation (fst p) (snd p)) [(false, false); (true, false); (false, true); (true, true)]
  = map (fun d => Some (fst (fst d))) introspection_docs /\
  List.length introspection_docs = 4.
Proof. vm_compute. split; reflexivity. Qed.

(* effects: any failure leaves the file system as it was and exits non-zero *)
Theorem C20_failure_preserves_output : forall output srv pretty fs,
  (forall b, srv <> R2xxJson b) -> cli_introspect output srv pretty fs = (1, fs, None).
Proof. exact introspect_failure_preserves. Qed.
Theorem C20_success_writes_reply : forall output body pretty fs,
  match output with
  | Some p => fst (fst (cli_introspect output (R2xxJson body) pretty fs)) = 0 /\
              fs_get (snd (fst (cli_introspect output (R2xxJson body) pretty fs))) p = Some (pretty body)
  | None => cli_introspect None (R2xxJson body) pretty fs = (0, fs, Some (pretty body))
  end.
Proof. exact introspect_success. Qed.

Print Assumptions C20_header_accepted.
Print Assumptions C20_header_without_colon_refused.
Print Assumptions C20_header_empty_name_refused.
Print Assumptions C20_header_space_in_name_refused.
Print Assumptions C20_documents.
Print Assumptions C20_failure_preserves_output.
Print Assumptions C20_success_writes_reply.
