(* Properties/C14.v — Deprecation strategies allow / warn / deny do exactly what is documented.
   Stated on the model of ExpandedField::render (every emitted field goes through it), for every
   field name, type, qualifier list, option set and deprecation reason. *)
From GC Require Import Base Rust TypeExpr Heck Strs Naming Enums Schema Query Attrs Codegen Json Serde SerdeLemmas DeprProofs.

Theorem C14_allow : forall o g rust ft quals fl boxed depr,
  exists f, render_field (with_strategy o DAllow) g rust ft quals fl depr boxed = Some f /\
            f_deprecated f = None /\ f_ident f = rust.
Proof. exact allow_emits. Qed.

Theorem C14_warn : forall o g rust ft quals fl boxed depr,
  exists f, render_field (with_strategy o DWarn) g rust ft quals fl depr boxed = Some f /\
            f_deprecated f = depr /\ f_ident f = rust.
Proof. exact warn_emits. Qed.

Theorem C14_deny_omits_deprecated : forall o g rust ft quals fl boxed msg,
  render_field (with_strategy o DDeny) g rust ft quals fl (Some msg) boxed = None.
Proof. exact deny_omits. Qed.

Theorem C14_deny_keeps_current : forall o g rust ft quals fl boxed,
  exists f, render_field (with_strategy o DDeny) g rust ft quals fl None boxed = Some f /\
            f_deprecated f = None /\ f_ident f = rust.
Proof. exact deny_keeps. Qed.

Theorem C14_current_never_touched : forall o g rust ft quals fl boxed st,
  exists f, render_field (with_strategy o st) g rust ft quals fl None boxed = Some f /\ f_deprecated f = None.
Proof. exact current_untouched. Qed.

Theorem C14_strategy_changes_nothing_else : forall o g rust ft quals fl boxed st st' depr f f',
  render_field (with_strategy o st) g rust ft quals fl depr boxed = Some f ->
  render_field (with_strategy o st') g rust ft quals fl depr boxed = Some f' ->
  f_ident f = f_ident f' /\ f_ty f = f_ty f' /\ f_rename f = f_rename f' /\ f_flatten f = f_flatten f' /\
  f_skip_none f = f_skip_none f' /\ f_deser_with f = f_deser_with f' /\ f_default f = f_default f'.
Proof. exact strategy_only_marks. Qed.

Theorem C14_default_is_warn : forall o, o_deprecation o = None -> strategy o = DWarn.
Proof. exact default_is_warn. Qed.

(* deny: a payload that still contains the omitted field deserialises exactly as without it *)
Theorem C14_denied_key_still_accepted : forall D Dh env fields k v m,
  forallb (fun fd => negb (f_flatten fd)) fields = true -> find_field k fields = None ->
  deser_struct D Dh env fields ((k, v) :: m) = deser_struct D Dh env fields m.
Proof. exact removed_key_is_ignored. Qed.

Check C14_warn : forall o g rust ft quals fl boxed depr,
  exists f, render_field (with_strategy o DWarn) g rust ft quals fl depr boxed = Some f /\
            f_deprecated f = depr /\ f_ident f = rust.
Print Assumptions C14_allow.
Print Assumptions C14_warn.
Print Assumptions C14_deny_omits_deprecated.
Print Assumptions C14_deny_keeps_current.
Print Assumptions C14_current_never_touched.
Print Assumptions C14_strategy_changes_nothing_else.
Print Assumptions C14_default_is_warn.
Print Assumptions C14_denied_key_still_accepted.
