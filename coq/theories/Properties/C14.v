(* Properties/C14.v — Deprecation strategies allow / warn / deny do exactly what is documented.
   Stated on the model of ExpandedField::render (every emitted field goes through it), for every
   field name, type, qualifier list, option set and deprecation reason. *)
From GC Require Import Base Rust TypeExpr Heck Strs Naming Enums Schema Query Attrs Codegen Json Serde SerdeLemmas DeprProofs StrategyAll InvariantAll MarkAll.

Theorem C14_allow : forall o g rust ft quals fl boxed depr,
  exists f, render_field (with_strategy o DAllow) g rust ft quals fl depr boxed = Some f /\
            f_deprecated f = None /\ f_ident f = rust.
Proof. exact allow_emits. Qed.

Theorem C14_warn : forall o g rust ft quals fl boxed depr,
  exists f, render_field (with_strategy o DWarn) g rust ft quals fl depr boxed = Some f /\
            f_deprecated f = depr /\ f_ident f = rust.
Proof. exact warn_emits. Qed.

Theorem C14_deny_omits_deprecated : forall o g rust ft quals fl boxed msg,
  render_field (with_strategy o DDeny) g rust ft quals fl (Some msg) boxed = None.
Proof. exact deny_omits. Qed.

Theorem C14_deny_keeps_current : forall o g rust ft quals fl boxed,
  exists f, render_field (with_strategy o DDeny) g rust ft quals fl None boxed = Some f /\
            f_deprecated f = None /\ f_ident f = rust.
Proof. exact deny_keeps. Qed.

Theorem C14_current_never_touched : forall o g rust ft quals fl boxed st,
  exists f, render_field (with_strategy o st) g rust ft quals fl None boxed = Some f /\ f_deprecated f = None.
Proof. exact current_untouched. Qed.

Theorem C14_strategy_changes_nothing_else : forall o g rust ft quals fl boxed st st' depr f f',
  render_field (with_strategy o st) g rust ft quals fl depr boxed = Some f ->
  render_field (with_strategy o st') g rust ft quals fl depr boxed = Some f' ->
  f_ident f = f_ident f' /\ f_ty f = f_ty f' /\ f_rename f = f_rename f' /\ f_flatten f = f_flatten f' /\
  f_skip_none f = f_skip_none f' /\ f_deser_with f = f_deser_with f' /\ f_default f = f_default f'.
Proof. exact strategy_only_marks. Qed.

Theorem C14_default_is_warn : forall o, o_deprecation o = None -> strategy o = DWarn.
Proof. exact default_is_warn. Qed.

(* deny: a payload that still contains the omitted field deserialises exactly as without it *)
Theorem C14_denied_key_still_accepted : forall D Dh env fields k v m,
  forallb (fun fd => negb (f_flatten fd)) fields = true -> find_field k fields = None ->
  deser_struct D Dh env fields ((k, v) :: m) = deser_struct D Dh env fields m.
Proof. exact removed_key_is_ignored. Qed.

Check C14_warn : forall o g rust ft quals fl boxed depr,
  exists f, render_field (with_strategy o DWarn) g rust ft quals fl depr boxed = Some f /\
            f_deprecated f = depr /\ f_ident f = rust.
Print Assumptions C14_allow.
Print Assumptions C14_warn.
Print Assumptions C14_deny_omits_deprecated.
Print Assumptions C14_deny_keeps_current.
Print Assumptions C14_current_never_touched.
Print Assumptions C14_strategy_changes_nothing_else.
Print Assumptions C14_default_is_warn.
Print Assumptions C14_denied_key_still_accepted.

(* ---------- all programs at once (StrategyAll.v): what the strategy changes in the expansion of ANY
   selection against ANY schema, at every depth, through fragments, variants and aliases.
   The expansion only appends rendered fields to its context and never reads them back; so
     allow = warn with the #[deprecated] marks removed, and
     deny  = warn with the marked fields removed —
   the struct ids, type names, variants, aliases, the order and every other field are IDENTICAL
   (`cmap g` maps the rendered fields of a context pointwise and leaves everything else alone). *)
Theorem C14_allow_is_warn_unmarked : forall s frs o fuel c sels sid t p,
  calc s frs (with_strategy o DAllow) fuel (cmap unmark c) sels sid t p =
  option_map (cmap unmark) (calc s frs (with_strategy o DWarn) fuel c sels sid t p).
Proof. exact allow_is_warn_unmarked. Qed.

Theorem C14_deny_is_warn_without_marked : forall s frs o fuel c sels sid t p,
  calc s frs (with_strategy o DDeny) fuel (cmap drop_marked c) sels sid t p =
  option_map (cmap drop_marked) (calc s frs (with_strategy o DWarn) fuel c sels sid t p).
Proof. exact deny_is_warn_without_marked. Qed.

(* ... and on the emitted items: under allow exactly the items of warn, marks removed *)
Theorem C14_items_allow_warn : forall s frs o root sels tname prefix,
  expand_root s frs (with_strategy o DAllow) root sels tname prefix =
  option_map (map unmark_item) (expand_root s frs (with_strategy o DWarn) root sels tname prefix).
Proof. exact expand_root_allow_warn. Qed.

Example C14_strategy_maps_example :
  let f := mkField "old" (RNamed "i64") None false false (Some (Some "gone")) None false in
  let h := mkField "fresh" (RNamed "i64") None false false None None false in
  unmark (Some f) = Some (mkField "old" (RNamed "i64") None false false None None false) /\
  drop_marked (Some f) = None /\ unmark (Some h) = Some h /\ drop_marked (Some h) = Some h.
Proof. exact strategy_maps_example. Qed.

Print Assumptions C14_allow_is_warn_unmarked.
Print Assumptions C14_deny_is_warn_without_marked.
Print Assumptions C14_items_allow_warn.

(* ---------- for ALL programs (MarkAll.v): at every position the expansion of any selection reaches, only
   `warn` ever emits a deprecation mark, and only `deny` ever omits a selected field. *)
Theorem C14_only_warn_marks : forall s frs o fuel c sels sid t p c', strategy o <> DWarn ->
  fields_all unmarked c -> calc s frs o fuel c sels sid t p = Some c' -> fields_all unmarked c'.
Proof. exact only_warn_marks. Qed.
Theorem C14_only_deny_omits : forall s frs o fuel c sels sid t p c', strategy o <> DDeny ->
  fields_all present c -> calc s frs o fuel c sels sid t p = Some c' -> fields_all present c'.
Proof. exact only_deny_omits. Qed.
Print Assumptions C14_only_warn_marks.
Print Assumptions C14_only_deny_omits.
