(* Properties/C13.v — One exact rule maps GraphQL type modifiers to Option / Vec nesting.
   Only theorem statements closed by `exact`, with their assumptions printed. *)
From GC Require Import Base Rust TypeExpr TypeExprProofs Schema Query Codegen RespProofs PositionProofs.
From GC.Gen Require Import Keywords.

(* (1) SDL path: for every type expression the grammar can produce, of any depth, the
   qualifier list extracted by resolve_field_type and decorated by decorate_type is the rule. *)
Theorem C13_sdl_rule : forall t, wf_gtype t = true ->
  decorate (gname t) (quals_sdl t) = Some (spec_rust t).
Proof. exact decorate_is_spec. Qed.

(* (2) JSON path: from_json_type_inner on the ofType chain gives the same qualifiers and name. *)
Theorem C13_json_same_qualifiers : forall t,
  quals_json (typeref_of t) = Some (quals_sdl t, gname t).
Proof. exact quals_json_is_sdl. Qed.

Theorem C13_json_rule : forall t, wf_gtype t = true ->
  match quals_json (typeref_of t) with
  | Some (q, n) => decorate n q = Some (spec_rust t)
  | None => False
  end.
Proof. exact decorate_json_is_spec. Qed.

(* (3) the rule itself, clause by clause: non-null removes one Option, a list becomes Vec,
   at every nesting level *)
Theorem C13_rule_nonnull : forall t, spec_rust (GNonNull t) = core t.
Proof. exact spec_nonnull. Qed.
Theorem C13_rule_named : forall n, spec_rust (GNamed n) = ROption (RNamed n).
Proof. exact spec_nullable_named. Qed.
Theorem C13_rule_list : forall t, spec_rust (GList t) = ROption (RVec (spec_rust t)).
Proof. exact spec_nullable_list. Qed.
Theorem C13_rule_list_nonnull : forall t, spec_rust (GNonNull (GList t)) = RVec (spec_rust t).
Proof. exact core_list. Qed.

(* (4) the example of the property text *)
Theorem C13_example :
  decorate "Int" (quals_sdl (GNonNull (GList (GList (GNonNull (GNamed "Int"))))))
  = Some (RVec (ROption (RVec (RNamed "Int")))).
Proof. exact ex_doc. Qed.

(* (5) built-in scalar aliases, over the alias block TRANSLATED from codegen.rs *)
Definition alias_mem (p : string * string) (l : list (string * string)) : bool :=
  existsb (fun q => String.eqb (fst p) (fst q) && String.eqb (snd p) (snd q)) l.
Theorem C13_builtin_aliases :
  forallb (fun p => alias_mem p builtin_aliases) builtin_alias_spec &&
  forallb (fun p => alias_mem p builtin_alias_spec) builtin_aliases &&
  nodup_str (map fst builtin_aliases) = true.
Proof. vm_compute. reflexivity. Qed.

Check C13_sdl_rule : forall t, wf_gtype t = true -> decorate (gname t) (quals_sdl t) = Some (spec_rust t).
Print Assumptions C13_sdl_rule.
Print Assumptions C13_json_same_qualifiers.
Print Assumptions C13_json_rule.
Print Assumptions C13_rule_nonnull.
Print Assumptions C13_rule_named.
Print Assumptions C13_rule_list.
Print Assumptions C13_rule_list_nonnull.
Print Assumptions C13_example.
Print Assumptions C13_builtin_aliases.

(* (5) the rule at the positions of the generator model that are not a plain response field:
   every member of `Variables` (a DEFAULT VALUE does not enter: `vd_has_default` is not looked at),
   and the payload of an @oneOf variant (the member's type with one `!` put in front), boxed or not *)
Theorem C13_variables : forall o op, ro_vars op <> [] ->
  forallb (fun v => wf_gtype (vd_type v)) (ro_vars op) = true ->
  match variables_item o op with
  | IStruct _ _ _ fs =>
      Forall2 (fun v f => f_ty f = spec_rust (RespProofs.rename (vd_type v) (kw (norm_field_type o (gname (vd_type v))))))
              (ro_vars op) fs
  | _ => False
  end.
Proof. exact variables_types. Qed.

Theorem C13_default_value_is_irrelevant : forall o op op',
  ro_name op = ro_name op' ->
  map (fun v => (vd_name v, vd_type v)) (ro_vars op) = map (fun v => (vd_name v, vd_type v)) (ro_vars op') ->
  variables_item o op = variables_item o op'.
Proof. exact default_value_is_irrelevant. Qed.

Theorem C13_oneof_member : forall s o ty, wf_gtype (GNonNull ty) = true ->
  let t0 := spec_rust (RespProofs.rename (GNonNull ty) (norm_field_type o (gname ty))) in
  input_field_type s o ty true = t0 \/ input_field_type s o ty true = RBox t0.
Proof. exact oneof_member_type. Qed.

Print Assumptions C13_variables.
Print Assumptions C13_default_value_is_irrelevant.
Print Assumptions C13_oneof_member.
