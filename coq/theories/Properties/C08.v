(* Properties/C08.v — Codegen is a pure function of its inputs across calls, threads and processes. *)
From GC Require Import Base Cache CacheProofs.

(* for every file system (fixed during the history), every pair of parsers, every pure generator,
   every number of threads with arbitrary programs and EVERY interleaving of their atomic steps
   (and every prefix of it): each finished call has the outcome of the same call made alone *)
Theorem C08_pure : forall (Text Q Sch Opts Out : Type) (fs : string -> option Text)
    (parse_q : Text -> option Q) (parse_s : string -> Text -> option Sch) (gen : Q -> Sch -> Opts -> Out)
    (progs : list (list (call Opts))) (sched : list nat) c o,
  In (c, o) (log _ _ _ _ (run Text Q Sch Opts Out fs parse_q parse_s gen (init Q Sch Opts Out progs) sched)) ->
  o = pure Text Q Sch Opts Out fs parse_q parse_s gen c.
Proof. exact cache_pure. Qed.

(* a failure for one input leaves the cache exactly as it was *)
Theorem C08_failed_load_changes_nothing : forall (A : Type) (load : string -> res A) c p,
  snd (get_or_load load c p) = Panicked -> fst (get_or_load load c p) = c.
Proof. intros A. exact (@failed_load_changes_nothing A). Qed.

(* regression theorem for the repaired defect: with the original (poisoning) get_set_cached a
   good call fails after a failed one *)
Theorem C08_poisoning_refuted :
  let pq := fun t : string => Some t in
  let ps := fun (_ : string) (t : string) => Some t in
  let gen := fun (q s : string) (_ : unit) => (q ++ s)%string in
  let good := mkCall unit "q.graphql" "s.graphql" tt in
  let bad := mkCall unit "missing.graphql" "s.graphql" tt in
  let st0 := mkP string string [] [] false false in
  snd (call_poison string string string unit string demo_fs pq ps gen st0 good) = Val "QS" /\
  snd (call_poison string string string unit string demo_fs pq ps gen
         (fst (call_poison string string string unit string demo_fs pq ps gen st0 bad)) good) = Panicked.
Proof. exact poison_refuted. Qed.

Print Assumptions C08_pure.
Print Assumptions C08_failed_load_changes_nothing.
Print Assumptions C08_poisoning_refuted.
