(* Properties/C09.v — Rust-side options never change the JSON wire format.
   Proved for all inputs: the wire names (and the serde shape of a field) the generator emits do not
   depend on normalization or on any other option; and for ALL programs: derive lists, visibility,
   the serde path, the scalars module and the query-file path change nothing serde looks at
   (NeutralAll.v).  That normalization (which renames items) and extern enums (which removes
   items) do not change acceptance / output for whole programs is checked by compiling and running
   the same vectors under every setting (RunC09.prop_c09), with Serde.v predicting the same
   (model_neutral): `partial`. *)
From GC Require Import Base Rust Json TypeExpr Heck Naming Enums EnumsProofs Schema Query Attrs Codegen Serde NeutralProofs NeutralAll.

Theorem C09_response_key : forall o g rust ft quals fl depr boxed f,
  render_field o (Some g) rust ft quals fl depr boxed = Some f -> field_wire f = g.
Proof. exact response_field_wire. Qed.

Theorem C09_response_key_neutral : forall o1 o2 g r1 r2 ft1 ft2 q fl d b f1 f2,
  render_field o1 (Some g) r1 ft1 q fl d b = Some f1 ->
  render_field o2 (Some g) r2 ft2 q fl d b = Some f2 -> field_wire f1 = field_wire f2.
Proof. exact response_field_wire_neutral. Qed.

Theorem C09_response_shape_neutral : forall o1 o2 g r1 r2 ft q fl d b f1 f2,
  render_field o1 (Some g) r1 ft q fl d b = Some f1 ->
  render_field o2 (Some g) r2 ft q fl d b = Some f2 ->
  f_ty f1 = f_ty f2 /\ f_deser_with f1 = f_deser_with f2 /\ f_default f1 = f_default f2 /\ f_flatten f1 = f_flatten f2.
Proof. exact response_field_shape. Qed.

Theorem C09_fragment_member : forall o rust ft boxed f,
  render_field o None rust ft [QRequired] true None boxed = Some f -> f_flatten f = true /\ f_rename f = None.
Proof. exact fragment_member_flattened. Qed.

Theorem C09_member_key_any_case : forall tbl (conv : string -> string) name, wire_key (field_names tbl conv name) = name.
Proof. exact member_wire_any_case. Qed.
Theorem C09_oneof_key_any_case : forall tbl (conv : string -> string) name, wire_key (oneof_names tbl conv name) = name.
Proof. exact oneof_wire_any_case. Qed.

(* enum values: under either normalization every schema value is read into its own variant and
   written back as exactly the schema name *)
Theorem C09_enum_value_written : forall tbl norm camel derives name values,
  NoDup (map (enum_variant_ident tbl norm camel) values) ->
  forall n v, nth_error values n = Some v ->
  item_ser (enum_item tbl norm camel derives name values) (EVariant (enum_variant_ident tbl norm camel v)) = Some (JStr v).
Proof. exact ser_variant. Qed.
Theorem C09_enum_value_read : forall tbl norm camel derives name values,
  NoDup values ->
  forall n v, nth_error values n = Some v ->
  item_deser (enum_item tbl norm camel derives name values) (JStr v) = Some (EVariant (enum_variant_ident tbl norm camel v)).
Proof. exact deser_value. Qed.

(* ---------- all programs at once: extra derives (responses and variables), module visibility,
   the serde path, the custom-scalars module and the query-file path.
   `rust_side_equal o1 o2`: the two option sets agree on everything else.
   For every schema, fragment set and operation the generator model either fails for both or
   emits items under which EVERY JSON is read alike (accepted / rejected, same value) at every
   type, and EVERY value is written alike: Serde.deser / Serde.ser never look at what those
   options change (derive lists, `serde(crate = ..)`, alias paths), and nothing else changes. *)
Theorem C09_rust_side_options_all_programs : forall henv s frs o1 o2 op,
  rust_side_equal o1 o2 ->
  match operation_items s frs o1 op, operation_items s frs o2 op with
  | Some i1, Some i2 =>
      (forall fuel t j, deser henv fuel i1 t j = deser henv fuel i2 t j) /\
      (forall fuel t v, ser fuel i1 t v = ser fuel i2 t v)
  | None, None => True
  | _, _ => False
  end.
Proof. exact wire_neutral. Qed.

(* ... and the whole run (operation choice, module skeleton): same outcome class, same modules up
   to visibility, `use` lines, include path and the erased parts of the items; in particular the
   same OPERATION_NAME, QUERY, module / struct names and build_query wiring *)
Theorem C09_generate_rust_side_options : forall s doc o1 o2 text,
  rust_side_equal o1 o2 ->
  result_map (map erase_module) (generate s doc o1 text) =
  result_map (map erase_module) (generate s doc o2 text).
Proof. exact generate_rust_side. Qed.

(* non-vacuity: option sets differing in all six Rust-side options are related *)
Example C09_rust_side_example :
  rust_side_equal
    (mkOpts true None None (Some "Debug,Clone") (Some "PartialEq") None false (Some "crate::scalars") [] false false
            (Some "my::serde") (Some VPub) (Some "q.graphql"))
    (mkOpts true None None None None None false None [] false false None None None).
Proof. exact rust_side_example. Qed.

Print Assumptions C09_rust_side_options_all_programs.
Print Assumptions C09_generate_rust_side_options.
Print Assumptions C09_response_key.
Print Assumptions C09_response_key_neutral.
Print Assumptions C09_response_shape_neutral.
Print Assumptions C09_fragment_member.
Print Assumptions C09_member_key_any_case.
Print Assumptions C09_oneof_key_any_case.
Print Assumptions C09_enum_value_written.
Print Assumptions C09_enum_value_read.
