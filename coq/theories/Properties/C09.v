(* Properties/C09.v — Rust-side options never change the JSON wire format.
   Proved for all inputs: the wire names (and the serde shape of a field) the generator emits do not
   depend on normalization or on any other option.  That derive lists, visibility, the serde path,
   the scalars module and extern enums do not change acceptance / output is checked by compiling and
   running the same vectors under every setting (RunC09.prop_c09), with Serde.v predicting the
   same (model_neutral): `partial`. *)
From GC Require Import Base Rust Json TypeExpr Heck Naming Enums EnumsProofs Schema Query Attrs Codegen Serde NeutralProofs.

Theorem C09_response_key : forall o g rust ft quals fl depr boxed f,
  render_field o (Some g) rust ft quals fl depr boxed = Some f -> field_wire f = g.
Proof. exact response_field_wire. Qed.

Theorem C09_response_key_neutral : forall o1 o2 g r1 r2 ft1 ft2 q fl d b f1 f2,
  render_field o1 (Some g) r1 ft1 q fl d b = Some f1 ->
  render_field o2 (Some g) r2 ft2 q fl d b = Some f2 -> field_wire f1 = field_wire f2.
Proof. exact response_field_wire_neutral. Qed.

Theorem C09_response_shape_neutral : forall o1 o2 g r1 r2 ft q fl d b f1 f2,
  render_field o1 (Some g) r1 ft q fl d b = Some f1 ->
  render_field o2 (Some g) r2 ft q fl d b = Some f2 ->
  f_ty f1 = f_ty f2 /\ f_deser_with f1 = f_deser_with f2 /\ f_default f1 = f_default f2 /\ f_flatten f1 = f_flatten f2.
Proof. exact response_field_shape. Qed.

Theorem C09_fragment_member : forall o rust ft boxed f,
  render_field o None rust ft [QRequired] true None boxed = Some f -> f_flatten f = true /\ f_rename f = None.
Proof. exact fragment_member_flattened. Qed.

Theorem C09_member_key_any_case : forall tbl (conv : string -> string) name, wire_key (field_names tbl conv name) = name.
Proof. exact member_wire_any_case. Qed.
Theorem C09_oneof_key_any_case : forall tbl (conv : string -> string) name, wire_key (oneof_names tbl conv name) = name.
Proof. exact oneof_wire_any_case. Qed.

(* enum values: under either normalization every schema value is read into its own variant and
   written back as exactly the schema name *)
Theorem C09_enum_value_written : forall tbl norm camel derives name values,
  NoDup (map (enum_variant_ident tbl norm camel) values) ->
  forall n v, nth_error values n = Some v ->
  item_ser (enum_item tbl norm camel derives name values) (EVariant (enum_variant_ident tbl norm camel v)) = Some (JStr v).
Proof. exact ser_variant. Qed.
Theorem C09_enum_value_read : forall tbl norm camel derives name values,
  NoDup values ->
  forall n v, nth_error values n = Some v ->
  item_deser (enum_item tbl norm camel derives name values) (JStr v) = Some (EVariant (enum_variant_ident tbl norm camel v)).
Proof. exact deser_value. Qed.

Print Assumptions C09_response_key.
Print Assumptions C09_response_key_neutral.
Print Assumptions C09_response_shape_neutral.
Print Assumptions C09_fragment_member.
Print Assumptions C09_member_key_any_case.
Print Assumptions C09_oneof_key_any_case.
Print Assumptions C09_enum_value_written.
Print Assumptions C09_enum_value_read.
