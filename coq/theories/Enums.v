(* Enums.v — model of codegen/enums.rs: the emitted enum with its hand-written Serialize /
   Deserialize impls (as an `IStrEnum` item), and what those impls mean.  MODEL ONLY. *)
From GC Require Import Base Rust Json Heck Naming.

(* derives: (response derives ++ variable derives) minus Serialize/Deserialize/Default, as a
   BTreeSet (sorted, deduplicated) — computed by the harness-independent function below *)
Fixpoint insert_sorted (s : string) (l : list string) : list string :=
  match l with
  | [] => [s]
  | x :: r => match String.compare s x with
              | Lt => s :: l
              | Eq => l
              | Gt => x :: insert_sorted s r
              end
  end.
Definition btree_set (l : list string) : list string := fold_right insert_sorted [] l.
Definition enum_derives (all_response all_variable : list string) : list string :=
  btree_set (filter (fun d => negb (mem_str d ["Serialize"; "Deserialize"; "Default"]))
                    (all_response ++ all_variable)).

Definition enum_item (tbl : list string) (norm_rust : bool) (camel : string -> string)
           (derives : list string) (name : string) (values : list string) : ritem :=
  let idents := map (enum_variant_ident tbl norm_rust camel) values in
  IStrEnum (if norm_rust then camel name else name) derives
           (idents ++ ["Other(String)"])
           (combine idents values) true
           (combine values idents) true.

(* ---- meaning of an IStrEnum item (what rustc + the two impls do) *)
Inductive evalue := EVariant (ident : string) | EOther (s : string).

Definition evalue_eqb (a b : evalue) : bool :=
  match a, b with
  | EVariant x, EVariant y | EOther x, EOther y => String.eqb x y
  | _, _ => false
  end.

(* `let s: String = Deserialize::deserialize(d)?; match s.as_str() { "w" => Ok(E::V), .. _ => Ok(E::Other(s)) }` *)
Definition strenum_deser (de_arms : list (string * string)) (de_other : bool) (j : json) : option evalue :=
  match j with
  | JStr s =>
      match assoc s de_arms with
      | Some i => Some (EVariant i)
      | None => if de_other then Some (EOther s) else None
      end
  | _ => None
  end.

(* `ser.serialize_str(match *self { E::V => "w", .. E::Other(ref s) => &s })` *)
Definition strenum_ser (ser_arms : list (string * string)) (ser_other : bool) (v : evalue) : option json :=
  match v with
  | EVariant i => match assoc i ser_arms with Some w => Some (JStr w) | None => None end
  | EOther s => if ser_other then Some (JStr s) else None
  end.

Definition item_deser (it : ritem) (j : json) : option evalue :=
  match it with IStrEnum _ _ _ _ _ da dd => strenum_deser da dd j | _ => None end.
Definition item_ser (it : ritem) (v : evalue) : option json :=
  match it with IStrEnum _ _ _ sa so _ _ => strenum_ser sa so v | _ => None end.

(* the enum compiles only if its variant identifiers are pairwise distinct and differ from
   the catch-all `Other` *)
Definition enum_idents_ok (idents : list string) : bool := nodup_str (idents ++ ["Other"]).
