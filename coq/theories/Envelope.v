(* Envelope.v — the response-body grammar of the GraphQL spec (section 7) as a decidable
   predicate, the expected re-serialisation, and the model of `Display for Error` /
   `Display for PathFragment` (graphql_client/src/lib.rs).  MODEL / SPEC ONLY. *)
From GC Require Import Base Rust Json Enums Serde.

(* ---------- spec: what a spec-compliant server may send *)
Definition keys_nodup (m : list (string * json)) : bool := nodup_str (map fst m).

Definition opt_member (k : string) (m : list (string * json)) (ok : json -> bool) : bool :=
  match obj_get k m with None => true | Some JNull => true | Some v => ok v end.

Definition loc_ok (j : json) : bool :=
  match j with
  | JObj m => keys_nodup m &&
              match obj_get "line" m, obj_get "column" m with
              | Some (JInt l), Some (JInt c) => in_i32 l && in_i32 c
              | _, _ => false
              end
  | _ => false
  end.

Definition path_elem_ok (j : json) : bool :=
  match j with JStr _ => true | JInt z => in_i32 z | _ => false end.

Definition is_obj (j : json) : bool := match j with JObj _ => true | _ => false end.

Definition error_ok (j : json) : bool :=
  match j with
  | JObj m =>
      keys_nodup m &&
      match obj_get "message" m with Some (JStr _) => true | _ => false end &&
      opt_member "locations" m (fun v => match v with JArr l => forallb loc_ok l | _ => false end) &&
      opt_member "path" m (fun v => match v with JArr l => forallb path_elem_ok l | _ => false end) &&
      opt_member "extensions" m is_obj
  | _ => false
  end.

(* `data` may be anything the data type accepts (here: opaque JSON), null or absent *)
Definition body_ok (j : json) : bool :=
  match j with
  | JObj m =>
      keys_nodup m &&
      opt_member "errors" m (fun v => match v with JArr l => forallb error_ok l | _ => false end) &&
      opt_member "extensions" m is_obj
  | _ => false
  end.

(* ---------- Display *)
Definition show_fragment (v : rvalue) : string :=
  match v with
  | VVariant _ (Some (VStr k)) => k                (* PathFragment::Key *)
  | VVariant _ (Some (VInt i)) => decimal i        (* PathFragment::Index *)
  | _ => ""
  end.

(* graphql_client/src/lib.rs Display for Error (after the repair recorded in known_findings.json):
   the fragments joined with "/" *)
Definition display_path (frs : list rvalue) : string := join_str "/" (map show_fragment frs).

(* the pre-repair code: every fragment followed by "/", then trim_end_matches('/') *)
Fixpoint trim_end_slashes_rev (l : list ascii) : list ascii :=
  match l with c :: r => if Ascii.eqb c "/"%char then trim_end_slashes_rev r else l | [] => [] end.
Definition chars' := (fix go (s : string) : list ascii := match s with EmptyString => [] | String c r => c :: go r end).
Definition unchars' := (fix go (l : list ascii) : string := match l with [] => EmptyString | c :: r => String c (go r) end).
Definition display_path_prefix (frs : list rvalue) : string :=
  unchars' (rev (trim_end_slashes_rev (rev (chars' (concat_str (map (fun f => (show_fragment f ++ "/")%string) frs)))))).

Definition get_field (k : string) (v : rvalue) : option rvalue :=
  match v with VStruct fs => assoc k fs | _ => None end.

(* "{path}:{line}:{column}: {message}" with <query> / 0:0 defaults *)
Definition display_error (e : rvalue) : string :=
  let path := match get_field "path" e with
              | Some (VSome (VSeq frs)) => display_path frs
              | _ => "<query>"
              end in
  let loc := match get_field "locations" e with
             | Some (VSome (VSeq (VStruct l :: _))) =>
                 match assoc "line" l, assoc "column" l with
                 | Some (VInt a), Some (VInt b) => (a, b)
                 | _, _ => (0%Z, 0%Z)
                 end
             | _ => (0%Z, 0%Z)
             end in
  let msg := match get_field "message" e with Some (VStr s) => s | _ => "" end in
  (path ++ ":" ++ decimal (fst loc) ++ ":" ++ decimal (snd loc) ++ ": " ++ msg)%string.

(* the property's wording, on the JSON of the error (independent of the value model) *)
Definition display_spec (j : json) : string :=
  match j with
  | JObj m =>
      let path := match obj_get "path" m with
                  | Some (JArr l) => join_str "/" (map (fun x => match x with JStr s => s | JInt z => decimal z | _ => "" end) l)
                  | _ => "<query>"
                  end in
      let loc := match obj_get "locations" m with
                 | Some (JArr (JObj l :: _)) =>
                     match obj_get "line" l, obj_get "column" l with
                     | Some (JInt a), Some (JInt b) => (a, b)
                     | _, _ => (0%Z, 0%Z)
                     end
                 | _ => (0%Z, 0%Z)
                 end in
      let msg := match obj_get "message" m with Some (JStr s) => s | _ => "" end in
      (path ++ ":" ++ decimal (fst loc) ++ ":" ++ decimal (snd loc) ++ ": " ++ msg)%string
  | _ => ""
  end.

(* ---------- expected re-serialisation of a spec-shaped body: absent optional members become
   explicit nulls, unknown members are dropped, everything else is preserved *)
Definition or_null (o : option json) : json := match o with Some v => v | None => JNull end.
Definition norm_loc (j : json) : json :=
  match j with
  | JObj m => JObj [("line", or_null (obj_get "line" m)); ("column", or_null (obj_get "column" m))]
  | _ => j
  end.
Definition norm_error (j : json) : json :=
  match j with
  | JObj m =>
      JObj [("message", or_null (obj_get "message" m));
            ("locations", match obj_get "locations" m with Some (JArr l) => JArr (map norm_loc l) | _ => JNull end);
            ("path", match obj_get "path" m with Some (JArr l) => JArr l | _ => JNull end);
            ("extensions", match obj_get "extensions" m with Some (JObj e) => JObj e | _ => JNull end)]
  | _ => j
  end.
Definition norm_body (j : json) : json :=
  match j with
  | JObj m =>
      JObj [("data", or_null (obj_get "data" m));
            ("errors", match obj_get "errors" m with Some (JArr l) => JArr (map norm_error l) | _ => JNull end);
            ("extensions", match obj_get "extensions" m with Some (JObj e) => JObj e | _ => JNull end)]
  | _ => j
  end.

(* ---------- the values of the envelope types (the domain of the round-trip theorem,
   EnvelopeRoundTrip.v): which rvalue trees are values of Response<Data>, Error, Location,
   PathFragment and HashMap<String, serde_json::Value>.  Integers are i32, a HashMap is its
   key-sorted entry list (the model's canonical form of an unordered map), `Data` is any JSON
   that is not null (the property's quantifier: "data types that never serialize to null"). *)
Definition wt_i32 (v : rvalue) : bool := match v with VInt z => in_i32 z | _ => false end.
Definition wt_str (v : rvalue) : bool := match v with VStr _ => true | _ => false end.
Definition wt_opt (p : rvalue -> bool) (v : rvalue) : bool :=
  match v with VNone => true | VSome x => p x | _ => false end.
Definition wt_seq (p : rvalue -> bool) (v : rvalue) : bool :=
  match v with VSeq l => forallb p l | _ => false end.

Definition wt_loc (v : rvalue) : bool :=
  match v with
  | VStruct [(k1, a); (k2, b)] => String.eqb k1 "line" && String.eqb k2 "column" && wt_i32 a && wt_i32 b
  | _ => false
  end.

Definition wt_frag (v : rvalue) : bool :=
  match v with
  | VVariant i (Some (VStr _)) => String.eqb i "Key"
  | VVariant i (Some (VInt z)) => String.eqb i "Index" && in_i32 z
  | _ => false
  end.

(* strictly increasing keys, stated pairwise (each key is greater than every earlier one) *)
Definition gt_key {A} (k : string) (e : string * A) : bool :=
  match String.compare (fst e) k with Gt => true | _ => false end.
Fixpoint increasing {A} (m : list (string * A)) : bool :=
  match m with
  | [] => true
  | (k, _) :: r => forallb (gt_key k) r && increasing r
  end.
Definition is_vjson (v : rvalue) : bool := match v with VJson _ => true | _ => false end.
Definition wt_map (v : rvalue) : bool :=
  match v with VMap m => increasing m && forallb (fun e => is_vjson (snd e)) m | _ => false end.

Definition wt_error (v : rvalue) : bool :=
  match v with
  | VStruct [(k1, a); (k2, b); (k3, c); (k4, d)] =>
      String.eqb k1 "message" && String.eqb k2 "locations" && String.eqb k3 "path" && String.eqb k4 "extensions"
      && wt_str a && wt_opt (wt_seq wt_loc) b && wt_opt (wt_seq wt_frag) c && wt_opt wt_map d
  | _ => false
  end.

Definition wt_data (v : rvalue) : bool := match v with VJson j => negb (is_null j) | _ => false end.

Definition wt_response (v : rvalue) : bool :=
  match v with
  | VStruct [(k1, a); (k2, b); (k3, c)] =>
      String.eqb k1 "data" && String.eqb k2 "errors" && String.eqb k3 "extensions"
      && wt_opt wt_data a && wt_opt (wt_seq wt_error) b && wt_opt wt_map c
  | _ => false
  end.

