(* Strs.v — small string algorithms used by several models (split / trim as Rust's str does,
   restricted to ASCII white space unless stated otherwise). *)
From GC Require Import Base Heck.

Definition is_ascii_ws (c : ascii) : bool :=
  let n := asc_n c in ((n =? 32) || ((9 <=? n) && (n <=? 13)))%N.

Fixpoint drop_ws (l : list ascii) : list ascii :=
  match l with c :: r => if is_ascii_ws c then drop_ws r else l | [] => [] end.
Definition trim_chars (l : list ascii) : list ascii := rev (drop_ws (rev (drop_ws l))).
Definition trim (s : string) : string := unchars (trim_chars (chars s)).

(* s.split(sep): keeps empty pieces *)
Fixpoint split_chars (sep : ascii) (cs cur : list ascii) : list (list ascii) :=
  match cs with
  | [] => [rev cur]
  | c :: r => if Ascii.eqb c sep then rev cur :: split_chars sep r [] else split_chars sep r (c :: cur)
  end.
Definition split (sep : ascii) (s : string) : list string := map unchars (split_chars sep (chars s) []).

Definition comma : ascii := ","%char.

(* options.all_variable_derives / all_response_derives (codegen_options.rs:106-134) *)
Definition additional (o : option string) : list string :=
  match o with None => [] | Some s => map trim (split comma s) end.
Definition all_variable_derives (o : option string) : list string := "Serialize" :: additional o.
Definition all_response_derives (o : option string) : list string :=
  "Deserialize" :: filter (fun d => negb (String.eqb d "Deserialize")) (additional o).

Definition starts_with (p s : string) : bool := String.prefix p s.
