(* SchemaJson.v — the JSON schema builder (schema/json_conversion.rs, after the isOneOf repair)
   on the introspection AST, and `render`: the introspection result a spec-compliant server
   produces for an SDL document.  MODEL / SPEC ONLY. *)
From GC Require Import Base Rust TypeExpr Schema.
From GC.Gen Require Import Keywords.

(* ---------- TypeRef -> type expression (from_json_type_inner); None = panic *)
Fixpoint gtype_of_typeref (r : typeref) : option gtype :=
  match r with
  | TRef (Some KNonNull) _ (Some inner) => option_map GNonNull (gtype_of_typeref inner)
  | TRef (Some KList) _ (Some inner) => option_map GList (gtype_of_typeref inner)
  | TRef (Some _) (Some n) None => Some (GNamed n)
  | _ => None
  end.

Definition fd_of_jfield (f : jfield) : option fielddef :=
  option_map (fun t => mkFD (jf_name f) t
                            (match jf_is_deprecated f with Some true => Some (jf_reason f) | _ => None end))
             (gtype_of_typeref (jf_type f)).

Fixpoint all_some {A} (l : list (option A)) : option (list A) :=
  match l with
  | [] => Some []
  | Some x :: r => option_map (cons x) (all_some r)
  | None :: _ => None
  end.

Section Json.
  Variable j : json_schema.
  Let types := js_types j.

  Definition of_kind (k : tkind) : list jtype :=
    filter (fun t => match jt_kind t, k with
                     | TKScalar, TKScalar | TKObject, TKObject | TKInterface, TKInterface
                     | TKUnion, TKUnion | TKEnum, TKEnum | TKInputObject, TKInputObject => true
                     | _, _ => false end) types.

  Definition json_scalars : list string :=
    default_scalars ++ filter (fun n => negb (mem_str n default_scalars)) (map jt_name (of_kind TKScalar)).

  (* None anywhere = a panic of the builder (expect / unwrap on a missing member) *)
  Definition json_enums : option (list (string * list string)) :=
    all_some (map (fun t => option_map (fun vs => (jt_name t, vs)) (jt_enum_values t)) (of_kind TKEnum)).

  Definition json_fields (t : jtype) : option (list fielddef) :=
    match jt_fields t with
    | None => None
    | Some fs => all_some (map fd_of_jfield fs)
    end.

  Definition json_interfaces : option (list (string * list fielddef)) :=
    all_some (map (fun t => option_map (fun fs => (jt_name t, fs)) (json_fields t)) (of_kind TKInterface)).

  Definition json_objects : option (list aobject) :=
    all_some (map (fun t => option_map (fun fs => mkObj (jt_name t) (match jt_interfaces t with Some is => is | None => [] end) fs)
                                       (json_fields t)) (of_kind TKObject)).

  Definition json_unions : option (list (string * list string)) :=
    all_some (map (fun t => option_map (fun ms => (jt_name t, ms)) (jt_possible_types t)) (of_kind TKUnion)).

  Definition json_inputs : option (list ainput) :=
    all_some (map (fun t =>
      match jt_input_fields t with
      | None => None
      | Some fs =>
          option_map (fun fs' => mkInp (jt_name t) fs' (match jt_is_one_of t with Some b => b | None => false end))
                     (all_some (map (fun f => option_map (fun ty => (fst f, ty)) (gtype_of_typeref (snd f))) fs))
      end) (of_kind TKInputObject)).

  Definition schema_of_json : result aschema :=
    match json_enums, json_interfaces, json_objects, json_unions, json_inputs with
    | Some es, Some is, Some os, Some us, Some ins =>
        let pre := mkSchema json_scalars es os is us ins None None None in
        let root n := match n with
                      | Some x => match find_kind_sdl pre x with Some KObject => Some x | _ => None end
                      | None => None end in
        Ok (mkSchema json_scalars es os is us ins (root (js_query j)) (root (js_mutation j)) (root (js_subscription j)))
    | _, _, _, _, _ => Panic "introspection member missing"
    end.
End Json.

(* ---------- render: SDL document -> introspection result (GraphQL spec, section 4) *)
Definition jfield_of_fd (f : fielddef) : jfield :=
  mkJF (fd_name f) (typeref_of (fd_type f))
       (Some (match fd_deprecated f with Some _ => true | None => false end))
       (match fd_deprecated f with Some (Some r) => Some r | _ => None end).

Section Render.
  Variable d : sdl_doc.
  (* built-in scalars listed before the user's types, or not at all *)
  Variable list_builtins : bool.

  Definition ext_implements (n : string) : list string :=
    flat_map (fun x => match x with DExtend m im _ => if String.eqb m n then im else [] | _ => [] end) (sd_defs d).
  Definition ext_fields (n : string) : list fielddef :=
    flat_map (fun x => match x with DExtend m _ fs => if String.eqb m n then fs else [] | _ => [] end) (sd_defs d).

  Definition render_def (x : typedef) : list jtype :=
    match x with
    | DScalar n => [mkJT TKScalar n None None None None None None]
    | DEnum n vs => [mkJT TKEnum n None None None (Some vs) None None]
    | DObject n im fs =>
        [mkJT TKObject n (Some (map jfield_of_fd (fs ++ ext_fields n))) None (Some (im ++ ext_implements n)) None None None]
    | DInterface n fs => [mkJT TKInterface n (Some (map jfield_of_fd fs)) None (Some []) None None None]
    | DUnion n ms => [mkJT TKUnion n None None None None (Some ms) None]
    | DInput n fs o => [mkJT TKInputObject n None (Some (map (fun f => (fst f, typeref_of (snd f))) fs)) None None None (Some o)]
    | DExtend _ _ _ => []
    end.

  Definition builtin_types : list jtype :=
    map (fun n => mkJT TKScalar n None None None None None None) default_scalars.

  Definition render : json_schema :=
    let roots := match sd_schema d with
                 | Some r => r
                 | None =>
                     let has n := existsb (fun x => match x with DObject m _ _ => String.eqb m n | _ => false end) (sd_defs d) in
                     (if has "Query" then Some "Query" else None,
                      if has "Mutation" then Some "Mutation" else None,
                      if has "Subscription" then Some "Subscription" else None)
                 end in
    mkJS (fst (fst roots)) (snd (fst roots)) (snd roots)
         ((if list_builtins then builtin_types else []) ++ flat_map render_def (sd_defs d)).
End Render.

(* decidable equality of abstract schemas, for the correspondence *)
Definition gtype_eqb := fix go (a b : gtype) : bool :=
  match a, b with
  | GNamed x, GNamed y => String.eqb x y
  | GList x, GList y | GNonNull x, GNonNull y => go x y
  | _, _ => false
  end.
Definition fd_eqb (a b : fielddef) : bool :=
  String.eqb (fd_name a) (fd_name b) && gtype_eqb (fd_type a) (fd_type b) &&
  opt_eqb (opt_eqb String.eqb) (fd_deprecated a) (fd_deprecated b).
Definition aschema_eqb (a b : aschema) : bool :=
  lstr_eqb (a_scalars a) (a_scalars b) &&
  list_eqb (fun x y => String.eqb (fst x) (fst y) && lstr_eqb (snd x) (snd y)) (a_enums a) (a_enums b) &&
  list_eqb (fun x y => String.eqb (ao_name x) (ao_name y) && lstr_eqb (ao_implements x) (ao_implements y) &&
                       list_eqb fd_eqb (ao_fields x) (ao_fields y)) (a_objects a) (a_objects b) &&
  list_eqb (fun x y => String.eqb (fst x) (fst y) && list_eqb fd_eqb (snd x) (snd y)) (a_interfaces a) (a_interfaces b) &&
  list_eqb (fun x y => String.eqb (fst x) (fst y) && lstr_eqb (snd x) (snd y)) (a_unions a) (a_unions b) &&
  list_eqb (fun x y => String.eqb (ai_name x) (ai_name y) && Bool.eqb (ai_one_of x) (ai_one_of y) &&
                       list_eqb (fun f g => String.eqb (fst f) (fst g) && gtype_eqb (snd f) (snd g)) (ai_fields x) (ai_fields y))
           (a_inputs a) (a_inputs b) &&
  opt_eqb String.eqb (a_query a) (a_query b) && opt_eqb String.eqb (a_mutation a) (a_mutation b) &&
  opt_eqb String.eqb (a_subscription a) (a_subscription b).
