(* RunC15.v — executable entry points for the C15 correspondence check. *)
From GC Require Import Base Rust Json Enums Serde RunSerde Envelope.
From GC.Gen Require Import LibTypes.

Inductive case :=
| CBody (body : json) (obs : sobs)                 (* Response<serde_json::Value>: deserialise + re-serialise *)
| CDisplay (err : json) (obs : option string)      (* Error deserialised, then format!("{}", e) *)
| CRoundtrip (body : json) (obs : option bool).    (* r == from_str(to_string(r)) *)

Definition model_display (err : json) : option string :=
  option_map display_error (deser henv FUEL lib_items (RNamed "Error") err).

Definition model_roundtrip (body : json) : option bool :=
  match deser henv FUEL lib_items (RNamed "Response") body with
  | None => None
  | Some v =>
      match ser FUEL lib_items (RNamed "Response") v with
      | None => None
      | Some j =>
          match deser henv FUEL lib_items (RNamed "Response") j with
          | Some v' => Some (match ser FUEL lib_items (RNamed "Response") v' with
                             | Some j' => json_equiv j j' | None => false end)
          | None => Some false
          end
      end
  end.

Definition corr (c : case) : bool :=
  match c with
  | CBody b o => sobs_equiv (run_model lib_items "Response" true b) o
  | CDisplay e o => opt_eqb String.eqb (model_display e) o
  | CRoundtrip b o => opt_eqb Bool.eqb (model_roundtrip b) o
  end.

Definition prop_accept (c : case) : bool :=
  match c with
  | CBody b o => if body_ok b then match o with SOk j => json_equiv j (norm_body b) | _ => false end else true
  | _ => true
  end.
Definition prop_display (c : case) : bool :=
  match c with
  | CDisplay e o => if error_ok e then opt_eqb String.eqb o (Some (display_spec e)) else true
  | _ => true
  end.
Definition prop_roundtrip (c : case) : bool :=
  match c with
  | CRoundtrip b o => if body_ok b then opt_eqb Bool.eqb o (Some true) else true
  | _ => true
  end.
(* the value a body deserialises to lies in the domain of the round-trip theorem
   (Envelope.wt_response): the theorem's hypothesis is met by everything the model produces *)
Definition corr_wt (c : case) : bool :=
  match c with
  | CBody b _ | CRoundtrip b _ =>
      match deser henv FUEL lib_items (RNamed "Response") b with
      | Some v => wt_response v
      | None => true
      end
  | CDisplay e _ =>
      match deser henv FUEL lib_items (RNamed "Error") e with
      | Some v => wt_error v
      | None => true
      end
  end.
Definition wellformed (c : case) : bool :=      (* how many cases exercise the property's hypothesis *)
  match c with CBody b _ | CRoundtrip b _ => body_ok b | CDisplay e _ => error_ok e end.
