(* InvariantAll.v — lifting a per-field fact to WHOLE programs.
   If every field the renderer returns for a Rust name of the form `kw x` (the keyword-escaped form every
   call site of the selection expansion passes) satisfies P, then every rendered field in the context the
   expansion of ANY selection returns satisfies P (given the starting context does).
   Instance (C11): no struct member anywhere in the expansion is named by a keyword of the table.
   Proving this instance is what exposed the one call site that passed `snake n` instead of `kw (snake n)`
   (repaired in /repo, fix 7db317c). *)
From GC Require Import Base Rust Json TypeExpr Heck Strs Naming NamingProofs Enums Schema Query Attrs Dfs Codegen StrategyAll.
From GC.Gen Require Import Keywords.

Definition fields_all (P : option rfield -> Prop) (c : ctx) : Prop := Forall (fun e => P (snd e)) (c_fields c).

Lemma fields_all_push_field P c sid f : fields_all P c -> P f -> fields_all P (push_field c sid f).
Proof. intros H Hf. unfold fields_all. cbn [push_field c_fields]. constructor; assumption. Qed.

Lemma fold_opt_inv {A} (I : ctx -> Prop) (F : ctx -> A -> option ctx) l :
  (forall c x c', In x l -> I c -> F c x = Some c' -> I c') ->
  forall c c', I c -> fold_opt F l c = Some c' -> I c'.
Proof.
  induction l as [|x r IH]; intros H c c' Hc E; cbn [fold_opt] in E; [inversion E; subst; exact Hc|].
  destruct (F c x) as [c1|] eqn:E1; [|discriminate].
  apply (IH (fun c0 y c0' Hy => H c0 y c0' (or_intror Hy)) c1 c'); [|exact E].
  exact (H c x c1 (or_introl eq_refl) Hc E1).
Qed.

Section Inv.
  Variables (s : aschema) (frs : list rfrag) (o : opts) (R : renderer) (ov : bool) (P : option rfield -> Prop).
  Hypothesis HR : forall a x c d e f h, P (R a (kw x) c d e f h).
  Notation I := (fields_all P).

  Section Step.
    Variables rec recf : ctx -> list rsel -> nat -> string -> string -> option ctx.
    Hypothesis Hrec : forall c sels sid t p c', I c -> rec c sels sid t p = Some c' -> I c'.
    Hypothesis Hrecf : forall c sels sid t p c', I c -> recf c sels sid t p = Some c' -> I c'.

    Lemma variants_inv c sels sid tname prefix c' :
      I c -> calc_variantsG s frs R ov rec c sels sid tname prefix = Some c' -> I c'.
    Proof.
      intros Hc. unfold calc_variantsG.
      destruct (match find_kind_sdl s tname with
                | Some KInterface => Some (implementors s tname) | Some KUnion => find_union s tname | _ => None end) as [vs|];
        [|intros E; inversion E; subst; exact Hc].
      destruct (fold_opt _ vs c) as [c1|] eqn:E1; [|discriminate].
      intros E. assert (H1 : I c1).
      { revert E1. apply fold_opt_inv; [|exact Hc]. intros c0 v c0' _ H0. cbn zeta.
        destruct (filter _ sels) as [|m0 mr] eqn:Em; [intros E0; inversion E0; subst; exact H0|].
        set (mine := m0 :: mr).
        destruct (push_type _ _) as [c2 nid] eqn:Ep.
        assert (H2 : I c2) by (inversion Ep; subst; exact H0).
        assert (Hfold : forall c3, fold_opt (fun c x => match x with
                     | RInline on sub => rec c sub nid v (prefix ++ "On" ++ camel on)%string
                     | RSpread n => Some (push_field c nid (R None (kw (snake n)) n [QRequired] true None (recursive frs n)))
                     | _ => Some c end) mine c2 = Some c3 -> I c3).
        { intros c3. apply fold_opt_inv; [|exact H2]. intros c4 x c4' _ H4.
          destruct x as [a fd sub|on sub|n|]; try (intros E4; inversion E4; subst; exact H4).
          - apply Hrec. exact H4.
          - intros E4. inversion E4; subst. apply fields_all_push_field; [exact H4|apply HR]. }
        destruct m0 as [a fd sub|on sub|n|]; try exact (Hfold c0').
        destruct mr; [intros E0; inversion E0; subst; exact H2|exact (Hfold c0')]. }
      destruct ov; inversion E; subst; exact H1.
    Qed.

    Lemma fields_inv c sels sid tname prefix c' :
      I c -> calc_fieldsG s frs o R rec recf c sels sid tname prefix = Some c' -> I c'.
    Proof.
      intros Hc. unfold calc_fieldsG. apply fold_opt_inv; [|exact Hc]. intros c0 x c0' _ H0.
      destruct x as [a fd sub|on sub|n|]; try (intros E0; inversion E0; subst; exact H0).
      - cbn zeta.
        assert (Hleaf : forall q, Some (push_field c0 sid (R (Some (selected_name a fd)) (kw (snake (selected_name a fd))) q
                                     (quals_sdl (fd_type fd)) false (fd_deprecated fd) false)) = Some c0' -> I c0').
        { intros q E0. inversion E0; subst. apply fields_all_push_field; [exact H0|apply HR]. }
        assert (Hcomp : (let '(c2, nid) := push_type (push_field c0 sid (R (Some (selected_name a fd)) (kw (snake (selected_name a fd)))
                                     (prefix ++ camel (selected_name a fd))%string (quals_sdl (fd_type fd)) false (fd_deprecated fd) false))
                                     (prefix ++ camel (selected_name a fd))%string in
                         rec c2 sub nid (gname (fd_type fd)) (prefix ++ camel (selected_name a fd))%string) = Some c0' -> I c0').
        { destruct (push_type _ _) as [c2 nid] eqn:Ep. apply Hrec. inversion Ep; subst.
          apply fields_all_push_field; [exact H0|apply HR]. }
        destruct (find_kind_sdl s (gname (fd_type fd))) as [k|]; [|intros E0; inversion E0; subst; exact H0].
        destruct k; try exact Hcomp; try apply Hleaf; intros E0; inversion E0; subst; exact H0.
      - destruct (on_object s tname); [apply Hrecf; exact H0|intros E0; inversion E0; subst; exact H0].
      - destruct (_ || _); intros E0; inversion E0; subst; [apply fields_all_push_field; [exact H0|apply HR]|exact H0].
    Qed.
  End Step.

  Lemma calcG_inv : forall fuel,
    (forall c sels sid t p c', I c -> calcG s frs o R ov fuel c sels sid t p = Some c' -> I c') /\
    (forall c sels sid t p c', I c -> calcfG s frs o R ov fuel c sels sid t p = Some c' -> I c').
  Proof.
    induction fuel as [|f [IH1 IH2]]; [split; intros; discriminate|]. split; intros c sels sid t p c' Hc.
    - change (calcG s frs o R ov (S f) c sels sid t p)
        with (calc_bodyG s frs o R ov (calcG s frs o R ov f) (calcfG s frs o R ov f) c sels sid t p).
      unfold calc_bodyG.
      assert (Hv := fun c1 => variants_inv (calcG s frs o R ov f) IH1 c sels sid t p c1 Hc).
      assert (Hf := fun c1 H1 => fields_inv (calcG s frs o R ov f) (calcfG s frs o R ov f) IH1 IH2 c1 sels sid t p c' H1).
      assert (Hgen : forall l, match calc_variantsG s frs R ov (calcG s frs o R ov f) c l sid t p with
                               | Some c1 => calc_fieldsG s frs o R (calcG s frs o R ov f) (calcfG s frs o R ov f) c1 l sid t p
                               | None => None end = Some c' -> l = sels -> I c').
      { intros l E El. subst l.
        destruct (calc_variantsG s frs R ov (calcG s frs o R ov f) c sels sid t p) as [c1|] eqn:E1; [|discriminate E].
        exact (Hf c1 (Hv c1 eq_refl) E). }
      destruct sels as [|x r]; [exact (fun E => Hgen _ E eq_refl)|].
      destruct x as [a fd sub|on sub|n|]; try exact (fun E => Hgen _ E eq_refl).
      destruct r as [|y r']; [|exact (fun E => Hgen _ E eq_refl)].
      intros E. inversion E; subst. exact Hc.
    - change (calcfG s frs o R ov (S f) c sels sid t p)
        with (calc_fieldsG s frs o R (calcG s frs o R ov f) (calcfG s frs o R ov f) c sels sid t p).
      apply (fields_inv _ _ IH1 IH2). exact Hc.
  Qed.
End Inv.

(* ---------- C11: no member of any struct of the expansion is named by a keyword of the table *)
Definition not_keyword (x : option rfield) : Prop :=
  match x with Some f => ~ In (f_ident f) rust_keywords | None => True end.

Lemma render_field_ident o a b c d e f h x : render_field o a b c d e f h = Some x -> f_ident x = b.
Proof.
  unfold render_field. destruct f as [[m|]|]; destruct (strategy o); intros E; inversion E; reflexivity.
Qed.

Theorem no_keyword_member_anywhere (Hc : table_complete rust_keywords = true) (He : escape_closed rust_keywords = true)
        s frs o fuel c sels sid t p c' :
  fields_all not_keyword c -> calc s frs o fuel c sels sid t p = Some c' -> fields_all not_keyword c'.
Proof.
  assert (HR : forall a x c0 d e f h, not_keyword (render_field o a (kw x) c0 d e f h)).
  { intros a x c0 d e f h. unfold not_keyword.
    destruct (render_field o a (kw x) c0 d e f h) as [fl|] eqn:E; [|exact I].
    rewrite (render_field_ident _ _ _ _ _ _ _ _ _ E). exact (keyword_replace_not_keyword rust_keywords Hc He x). }
  rewrite calcG_is_calc.
  exact (proj1 (calcG_inv s frs o (render_field o) (o_other_variant o) not_keyword HR fuel) c sels sid t p c').
Qed.
