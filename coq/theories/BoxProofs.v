(* BoxProofs.v — C12, "the indirection is invisible in JSON".
   (1) the serde specification treats Box<T> as T, reading and writing;
   (2) in the generator model, recursion changes an input member in ONE way: its type is wrapped in a
       Box.  The wire key, the flatten / default / helper attributes and skip-when-None are the same
       as for the unboxed member, and skip-when-None sits exactly on the members whose Rust type,
       Box stripped, is an Option. *)
From GC Require Import Base Rust Json TypeExpr Heck Strs Naming Enums Schema Query Attrs Dfs Codegen Serde RespProofs NamingProofs.

Lemma deser_box henv f env u j : deser henv (S f) env (RBox u) j = deser henv f env u j.
Proof. reflexivity. Qed.
Lemma ser_box f env u v : ser (S f) env (RBox u) v = ser f env u v.
Proof. reflexivity. Qed.

Lemma core_shape t : match core t with ROption _ | RBox _ => False | _ => True end.
Proof. induction t as [n|u IH|u IH]; cbn [core]; auto. Qed.

Lemma spec_rust_optional t : is_option_type (spec_rust t) = quals_optional (quals_sdl t).
Proof.
  destruct t as [n|u|u]; cbn [spec_rust quals_sdl quals_optional]; try reflexivity.
  unfold is_option_type. assert (H := core_shape u). destruct (core u); cbn [strip_box]; try reflexivity; contradiction.
Qed.

Lemma spec_rust_not_box t : strip_box (spec_rust t) = spec_rust t.
Proof.
  destruct t as [n|u|u]; cbn [spec_rust]; try reflexivity.
  assert (H := core_shape u). destruct (core u); try reflexivity; contradiction.
Qed.

(* the type of an input member: the decorated type, boxed or not — nothing else *)
Theorem input_member_type s o ty (extra : bool) : wf_gtype (if extra then GNonNull ty else ty) = true ->
  let t0 := spec_rust (rename (if extra then GNonNull ty else ty) (norm_field_type o (gname ty))) in
  input_field_type s o ty extra = t0 \/ input_field_type s o ty extra = RBox t0.
Proof.
  intros Hwf t0. unfold input_field_type.
  assert (E : decorate (norm_field_type o (gname ty)) ((if extra then [QRequired] else []) ++ quals_sdl ty) = Some t0).
  { subst t0. destruct extra; cbn [app]; [change (QRequired :: quals_sdl ty) with (quals_sdl (GNonNull ty))|];
      rewrite decorate_leaf by exact Hwf; reflexivity. }
  rewrite E. destruct (find_kind_sdl s (gname ty)) as [[]|]; auto.
  destruct (input_is_recursive s (gname ty)); auto.
Qed.

(* skip-when-None follows the Rust type, Box stripped *)
Theorem input_member_skip s o ty : wf_gtype ty = true ->
  is_option_type (input_field_type s o ty false) = quals_optional (quals_sdl ty).
Proof.
  intros Hwf. set (t0 := spec_rust (rename ty (norm_field_type o (gname ty)))).
  assert (H0 : is_option_type t0 = quals_optional (quals_sdl ty)).
  { subst t0. rewrite spec_rust_optional, rename_quals. reflexivity. }
  destruct (input_member_type s o ty false Hwf) as [E|E]; fold t0 in E; rewrite E; [exact H0|].
  unfold is_option_type in *. cbn [strip_box]. exact H0.
Qed.

(* the members of an input struct, whatever the recursion structure of the schema *)
Theorem input_struct_members s o inp : ai_one_of inp = false ->
  forallb (fun ty => wf_gtype ty) (map snd (ai_fields inp)) = true ->
  match input_item s o inp with
  | IStruct _ _ _ fs =>
      Forall2 (fun fld f =>
                 field_wire f = fst fld /\ f_flatten f = false /\ f_default f = false /\ f_deser_with f = None /\
                 f_skip_none f = (o_skip_none o && is_option_type (f_ty f)))
              (ai_fields inp) fs
  | _ => False
  end.
Proof.
  intros H1 Hwf. unfold input_item. rewrite H1.
  induction (ai_fields inp) as [|fld r IH]; cbn [map]; [constructor|].
  cbn [map forallb] in Hwf. apply andb_true_iff in Hwf. destruct Hwf as [Hw Hr].
  constructor; [|exact (IH Hr)].
  cbn [f_flatten f_default f_deser_with f_skip_none f_ty]. repeat split.
  - unfold field_wire. cbn [f_rename f_ident]. exact (field_wire_key tbl snake (fst fld)).
  - rewrite (input_member_skip s o (snd fld) Hw). reflexivity.
Qed.
