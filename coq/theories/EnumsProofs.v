(* EnumsProofs.v — C10: generated enums are open-world string bijections. *)
From GC Require Import Base Rust Json Heck Naming Enums.

Lemma assoc_combine_nth (ks vs : list string) k :
  List.length ks = List.length vs -> NoDup ks -> In k ks ->
  exists n, nth_error ks n = Some k /\ assoc k (combine ks vs) = nth_error vs n.
Proof.
  revert vs. induction ks as [|x r IH]; intros vs Hl Hnd Hin; [destruct Hin|].
  destruct vs as [|v vs]; [discriminate|]. cbn [combine assoc].
  destruct (String.eqb_spec k x) as [->|Hne].
  - exists 0. split; reflexivity.
  - destruct Hin as [->|Hin]; [congruence|].
    inversion Hnd as [|? ? Hni Hnd']; subst.
    destruct (IH vs (f_equal pred Hl) Hnd' Hin) as [n [H1 H2]].
    exists (S n). split; assumption.
Qed.

Lemma assoc_combine_notin (ks vs : list string) k : ~ In k ks -> assoc k (combine ks vs) = None.
Proof.
  revert vs. induction ks as [|x r IH]; intros vs Hni; [reflexivity|].
  destruct vs as [|v vs]; [reflexivity|]. cbn [combine assoc].
  destruct (String.eqb_spec k x) as [->|Hne]; [destruct Hni; left; reflexivity|].
  apply IH. intros H. apply Hni. right. exact H.
Qed.

Section Enum.
  Variables (tbl : list string) (norm : bool) (camel : string -> string) (derives : list string)
            (name : string) (values : list string).
  Let idents := map (enum_variant_ident tbl norm camel) values.
  Let it := enum_item tbl norm camel derives name values.

  Hypothesis Hvals : NoDup values.
  Hypothesis Hids : NoDup idents.

  Lemma len_eq : List.length values = List.length idents.
  Proof. unfold idents. rewrite map_length. reflexivity. Qed.

  (* every schema value deserialises to its own variant *)
  Theorem deser_value n v : nth_error values n = Some v ->
    item_deser it (JStr v) = Some (EVariant (enum_variant_ident tbl norm camel v)).
  Proof.
    intros Hn. unfold it, enum_item, item_deser, strenum_deser. fold idents.
    assert (Hin : In v values) by (eapply nth_error_In; eauto).
    destruct (assoc_combine_nth values idents v len_eq Hvals Hin) as [m [Hm Ha]].
    rewrite Ha.
    assert (m = n).
    { apply (proj1 (NoDup_nth_error values) Hvals); [apply nth_error_Some; congruence|congruence]. }
    subst m. unfold idents. rewrite nth_error_map, Hn. reflexivity.
  Qed.

  (* ... and that variant serialises back to exactly the schema name *)
  Theorem ser_variant n v : nth_error values n = Some v ->
    item_ser it (EVariant (enum_variant_ident tbl norm camel v)) = Some (JStr v).
  Proof.
    intros Hn. unfold it, enum_item, item_ser, strenum_ser. fold idents.
    assert (Hi : nth_error idents n = Some (enum_variant_ident tbl norm camel v)).
    { unfold idents. rewrite nth_error_map, Hn. reflexivity. }
    assert (Hin : In (enum_variant_ident tbl norm camel v) idents) by (eapply nth_error_In; eauto).
    destruct (assoc_combine_nth idents values _ (eq_sym len_eq) Hids Hin) as [m [Hm Ha]].
    rewrite Ha.
    assert (m = n).
    { apply (proj1 (NoDup_nth_error idents) Hids); [apply nth_error_Some; congruence|congruence]. }
    subst m. rewrite Hn. reflexivity.
  Qed.

  (* any other string is Other(s) *)
  Theorem deser_other s : ~ In s values -> item_deser it (JStr s) = Some (EOther s).
  Proof.
    intros H. unfold it, enum_item, item_deser, strenum_deser. fold idents.
    rewrite (assoc_combine_notin values idents s H). reflexivity.
  Qed.

  (* serialize(deserialize(s)) = s for ALL strings *)
  Theorem roundtrip s : exists v, item_deser it (JStr s) = Some v /\ item_ser it v = Some (JStr s).
  Proof.
    destruct (in_dec string_dec s values) as [Hin|Hni].
    - destruct (In_nth_error _ _ Hin) as [n Hn].
      eexists. split; [eapply deser_value; eauto | eapply ser_variant; eauto].
    - exists (EOther s). split; [apply deser_other; exact Hni | reflexivity].
  Qed.

  (* a bare JSON string is the only accepted shape *)
  Theorem non_string_rejected j : (forall s, j <> JStr s) -> item_deser it j = None.
  Proof. intros H. destruct j; cbn; try reflexivity. destruct (H s eq_refl). Qed.

  (* distinct schema values never share a variant *)
  Theorem deser_injective_on_values a b va vb :
    In a values -> In b values ->
    item_deser it (JStr a) = Some va -> item_deser it (JStr b) = Some vb -> va = vb -> a = b.
  Proof.
    intros Ha Hb Hda Hdb Heq. subst vb.
    destruct (roundtrip a) as [v1 [H1 H1']]. destruct (roundtrip b) as [v2 [H2 H2']].
    rewrite Hda in H1. rewrite Hdb in H2. inversion H1; inversion H2; subst.
    rewrite H1' in H2'. inversion H2'. reflexivity.
  Qed.
End Enum.
