(* QueryProofs.v — C06: what `resolve` accepting a document implies, at every depth. *)
From GC Require Import Base Rust TypeExpr Schema Query.
From GC.Gen Require Import Keywords.

Section R.
  Variable s : aschema.
  Variable ft : list (string * string).      (* fragment name -> type condition *)

  Notation rs := (resolve_sel s ft).
  Notation rl := (resolve_list s ft).

  Lemma go_eq k t l :
    (fix go (l : list sel) : result (list rsel) :=
       match l with
       | [] => Ok []
       | y :: r => do y' <- rs k t y; do r' <- go r; Ok (y' :: r')
       end) l = rl k t l.
  Proof. induction l as [|y r IH]; cbn [resolve_list]; [reflexivity|]. rewrite IH. reflexivity. Qed.

  Lemma rl_ok_in k t l rs' : rl k t l = Ok rs' -> forall y, In y l -> exists r, rs k t y = Ok r.
  Proof.
    revert rs'. induction l as [|x r IH]; intros rs' H y Hy; [destruct Hy|].
    cbn [resolve_list] in H.
    destruct (rs k t x) as [x'| |] eqn:Ex; cbn [bind] in H; try discriminate.
    destruct (rl k t r) as [r'| |] eqn:Er; cbn [bind] in H; try discriminate.
    destruct Hy as [<-|Hy]; [eauto|exact (IH r' eq_refl y Hy)].
  Qed.

  (* ---------- local rules: what an accepted selection node looks like *)
  Definition is_composite_kind (k : kind) : bool :=
    match k with KObject | KInterface | KUnion => true | _ => false end.

  Lemma accepted_parent k t x r : rs k t x = Ok r -> is_composite_kind k = true.
  Proof. destruct k, x; cbn; intros H; try discriminate; reflexivity. Qed.

  (* rule: a field (other than __typename) exists on the parent, which is an object or interface;
     a scalar / enum field has no sub-selection; the sub-selections are accepted on the field's type *)
  Lemma accepted_field k t a n sub r :
    rs k t (SField a n sub) = Ok r -> String.eqb n typename_field = false ->
    (k = KObject \/ k = KInterface) /\
    exists fs fd k',
      fields_of_type s t = Some fs /\ field_named fs n = Some fd /\
      find_kind_sdl s (gname (fd_type fd)) = Some k' /\
      (is_composite_kind k' = false -> sub = []) /\
      exists sub', rl k' (gname (fd_type fd)) sub = Ok sub' /\ r = RField a fd sub'.
  Proof.
    intros H Hn.
    destruct k; cbn [resolve_sel] in H; try discriminate; rewrite Hn in H; try discriminate.
    - destruct (fields_of_type s t) as [fs|]; [|discriminate].
      destruct (field_named fs n) as [fd|] eqn:Ef; [|discriminate].
      destruct (find_kind_sdl s (gname (fd_type fd))) as [k'|] eqn:Ek; [|discriminate].
      rewrite go_eq in H.
      destruct (rl k' (gname (fd_type fd)) sub) as [sub'| |] eqn:El; cbn [bind] in H; try discriminate.
      split; [left; reflexivity|]. exists fs, fd, k'. repeat split; try assumption.
      + intros Hc. destruct sub as [|y r0]; [reflexivity|].
        exfalso. cbn [resolve_list] in El. destruct k'; cbn in Hc; try discriminate;
          destruct y; cbn [resolve_sel] in El; cbn [bind] in El; discriminate.
      + exists sub'. split; [exact El|]. inversion H. reflexivity.
    - destruct (fields_of_type s t) as [fs|]; [|discriminate].
      destruct (field_named fs n) as [fd|] eqn:Ef; [|discriminate].
      destruct (find_kind_sdl s (gname (fd_type fd))) as [k'|] eqn:Ek; [|discriminate].
      rewrite go_eq in H.
      destruct (rl k' (gname (fd_type fd)) sub) as [sub'| |] eqn:El; cbn [bind] in H; try discriminate.
      split; [right; reflexivity|]. exists fs, fd, k'. repeat split; try assumption.
      + intros Hc. destruct sub as [|y r0]; [reflexivity|].
        exfalso. cbn [resolve_list] in El. destruct k'; cbn in Hc; try discriminate;
          destruct y; cbn [resolve_sel] in El; cbn [bind] in El; discriminate.
      + exists sub'. split; [exact El|]. inversion H. reflexivity.
  Qed.

  (* rule: a spread names a fragment the document defines *)
  Lemma accepted_spread k t n r : rs k t (SSpread n) = Ok r -> exists on, assoc n ft = Some on.
  Proof.
    destruct k; cbn [resolve_sel]; try discriminate;
      destruct (assoc n ft) as [on|]; try discriminate; eauto.
  Qed.

  (* rule: an inline fragment has a type condition that names a schema type *)
  Lemma accepted_inline k t on sub r : rs k t (SInline on sub) = Ok r ->
    exists ty k', on = Some ty /\ find_kind_sdl s ty = Some k' /\ exists sub', rl k' ty sub = Ok sub' /\ r = RInline ty sub'.
  Proof.
    intros H.
    assert (G : match on with
                | None => Panic "missing type condition on inline fragment"
                | Some ty => match find_kind_sdl s ty with
                             | None => Err "Could not find type referenced by inline fragment"
                             | Some k' => do sub' <- rl k' ty sub; Ok (RInline ty sub')
                             end
                end = Ok r).
    { destruct k; cbn [resolve_sel] in H; try discriminate;
        (destruct on as [ty|]; [|exact H]); (destruct (find_kind_sdl s ty) as [k'|]; [|exact H]);
        rewrite go_eq in H; exact H. }
    destruct on as [ty|]; [|discriminate].
    destruct (find_kind_sdl s ty) as [k'|] eqn:Ek; [|discriminate].
    destruct (rl k' ty sub) as [sub'| |] eqn:El; cbn [bind] in G; try discriminate.
    inversion G. exists ty, k'. split; [reflexivity|]. split; [exact Ek|]. exists sub'. split; [exact El|reflexivity].
  Qed.

  (* ---------- positions: y occurs inside x, under parent (k', t') *)
  Inductive sel_at : kind -> string -> sel -> kind -> string -> sel -> Prop :=
  | at_here k t x : sel_at k t x k t x
  | at_field k t a n sub fs fd k' y k2 t2 z :
      String.eqb n typename_field = false ->
      fields_of_type s t = Some fs -> field_named fs n = Some fd ->
      find_kind_sdl s (gname (fd_type fd)) = Some k' ->
      In y sub -> sel_at k' (gname (fd_type fd)) y k2 t2 z ->
      sel_at k t (SField a n sub) k2 t2 z
  | at_inline k t ty sub k' y k2 t2 z :
      find_kind_sdl s ty = Some k' -> In y sub -> sel_at k' ty y k2 t2 z ->
      sel_at k t (SInline (Some ty) sub) k2 t2 z.

  (* acceptance is hereditary: every node of an accepted selection is itself accepted on the
     type it is selected on — so every local rule holds at every depth *)
  Theorem accepted_everywhere k t x k2 t2 z :
    sel_at k t x k2 t2 z -> forall r, rs k t x = Ok r -> exists r', rs k2 t2 z = Ok r'.
  Proof.
    induction 1 as [k t x|k t a n sub fs fd k' y k2 t2 z Hn Hfs Hfd Hk Hin Hat IH|k t ty sub k' y k2 t2 z Hk Hin Hat IH];
      intros r Hr.
    - eauto.
    - destruct (accepted_field _ _ _ _ _ _ Hr Hn) as [_ [fs' [fd' [k'' [H1 [H2 [H3 [_ [sub' [H4 _]]]]]]]]]].
      rewrite Hfs in H1. inversion H1; subst fs'. rewrite Hfd in H2. inversion H2; subst fd'.
      rewrite Hk in H3. inversion H3; subst k''.
      destruct (rl_ok_in _ _ _ _ H4 y Hin) as [ry Hry]. exact (IH ry Hry).
    - destruct (accepted_inline _ _ _ _ _ Hr) as [ty' [k'' [H1 [H2 [sub' [H3 _]]]]]].
      inversion H1; subst ty'. rewrite Hk in H2. inversion H2; subst k''.
      destruct (rl_ok_in _ _ _ _ H3 y Hin) as [ry Hry]. exact (IH ry Hry).
  Qed.
End R.

(* ---------- the global rules (create_roots) *)
Lemma roots_anonymous s doc sels pre : create_roots s pre = Ok tt -> exists e, create_roots s (pre ++ QAnon sels :: doc) = Err e \/ create_roots s (pre ++ QAnon sels :: doc) = Panic e.
Proof.
  induction pre as [|d r IH]; intros H; cbn [app create_roots].
  - eexists. left. reflexivity.
  - cbn [create_roots] in H. destruct d as [k name vars ss|n on ss|ss]; try discriminate.
    + destruct (root_of s k) as [rt| |]; cbn [bind] in H |- *; try discriminate.
      destruct k; [| |destruct ss as [|x [|y r0]]]; try discriminate;
        (destruct name; [apply IH; exact H|discriminate]).
    + destruct (find_kind_sdl s on); [|discriminate]. apply IH. exact H.
Qed.

Lemma roots_unnamed s k vars sels doc :
  (exists e, create_roots s (QOp k None vars sels :: doc) = Err e) \/
  (exists e, create_roots s (QOp k None vars sels :: doc) = Panic e).
Proof.
  cbn [create_roots]. destruct (root_of s k) as [rt|e|e]; cbn [bind]; eauto.
  destruct k; eauto. destruct sels as [|? [|? ?]]; eauto.
Qed.

Lemma roots_subscription_fields s name vars sels doc :
  List.length sels <> 1 ->
  (exists e, create_roots s (QOp OSubscription name vars sels :: doc) = Err e) \/
  (exists e, create_roots s (QOp OSubscription name vars sels :: doc) = Panic e).
Proof.
  intros H. cbn [create_roots]. destruct (root_of s OSubscription) as [rt|e|e]; cbn [bind]; eauto.
  destruct sels as [|x [|y r]]; eauto. cbn in H. congruence.
Qed.

Lemma roots_missing_root s k name vars sels doc :
  (match k with OQuery => a_query s | OMutation => a_mutation s | OSubscription => a_subscription s end) = None ->
  (exists e, create_roots s (QOp k name vars sels :: doc) = Err e) \/
  (exists e, create_roots s (QOp k name vars sels :: doc) = Panic e).
Proof.
  intros H. cbn [create_roots]. unfold root_of. destruct k; rewrite H; cbn [bind]; eauto.
Qed.

Lemma resolve_needs_roots s doc q : resolve s doc = Ok q -> create_roots s doc = Ok tt.
Proof.
  unfold resolve. destruct (create_roots s doc) as [[]| |]; cbn [bind]; try discriminate. reflexivity.
Qed.

(* ====================================================================================
   Rules checked on the bound query: type conditions and `__typename` presence
   ==================================================================================== *)
Lemma find_union_some s p : find_kind_sdl s p = Some KUnion -> exists ms, find_union s p = Some ms.
Proof.
  unfold find_kind_sdl.
  destruct (mem_str p (skipn 5 (a_scalars s))); [discriminate|].
  destruct (existsb (fun i => String.eqb (ai_name i) p) (a_inputs s)); [discriminate|].
  destruct (existsb (fun u => String.eqb (fst u) p) (a_unions s)) eqn:E.
  - intros _. unfold find_union. apply existsb_exists in E. destruct E as [u [Hin Hu]].
    destruct (find (fun u0 => String.eqb (fst u0) p) (a_unions s)) as [x|] eqn:F; [exists (snd x); reflexivity|].
    pose proof (find_none _ _ F u Hin) as X. cbn in X. congruence.
  - destruct (existsb _ (a_interfaces s)); [discriminate|].
    destruct (existsb _ (a_objects s)); [discriminate|].
    destruct (existsb _ (a_enums s)); [discriminate|].
    destruct (mem_str p (firstn 5 (a_scalars s))); discriminate.
Qed.

Section Bound.
  Variable s : aschema.
  Variable frs : list rfrag.

  Definition variants_of (x : string) : list string :=
    match find_kind_sdl s x with
    | Some KInterface => implementors s x
    | Some KUnion => match find_union s x with Some ms => ms | None => [] end
    | _ => []
    end.

  (* the spec's "possible types overlap", for the pairs the generator supports: equal, or one
     is a possible concrete type of the other *)
  Definition applicable (parent t : string) : Prop :=
    parent = t \/ In t (variants_of parent) \/ In parent (variants_of t).

  Definition composite_parent (p : string) : Prop :=
    find_kind_sdl s p = Some KObject \/ find_kind_sdl s p = Some KInterface \/ find_kind_sdl s p = Some KUnion.

  Lemma condition_ok_applicable p t : composite_parent p -> condition_ok s p t = true -> applicable p t.
  Proof.
    unfold condition_ok, applicable, variants_of, composite_parent.
    destruct (String.eqb_spec p t) as [->|Hne]; [left; reflexivity|].
    intros Hk H. right.
    destruct (find_kind_sdl s p) as [[| | | | |]|] eqn:Ep;
      try (destruct Hk as [Hk|[Hk|Hk]]; discriminate).
    - (* object parent *)
      right. destruct (find_kind_sdl s t) as [[| | | | |]|] eqn:Et; try discriminate.
      + destruct (find_object s p) as [o|] eqn:Eo; [|discriminate].
        apply mem_str_In in H. unfold implementors. apply in_map_iff.
        exists o. unfold find_object in Eo. apply find_some in Eo. destruct Eo as [Hin Hnm].
        apply String.eqb_eq in Hnm. split; [exact Hnm|]. apply filter_In. split; [exact Hin|].
        apply mem_str_In. exact H.
      + destruct (find_union s t) as [ms|]; [|discriminate]. apply mem_str_In. exact H.
    - left. apply mem_str_In. exact H.
    - left. destruct (find_union_some s p Ep) as [ms Hms]. rewrite Hms in H |- *. apply mem_str_In. exact H.
  Qed.

  (* positions in the bound tree, with the type each node is selected on *)
  Inductive rsel_at : string -> rsel -> string -> rsel -> Prop :=
  | rat_here p x : rsel_at p x p x
  | rat_field p a fd sub y p2 z : In y sub -> rsel_at (gname (fd_type fd)) y p2 z -> rsel_at p (RField a fd sub) p2 z
  | rat_inline p on sub y p2 z : In y sub -> rsel_at on y p2 z -> rsel_at p (RInline on sub) p2 z.

  Lemma conditions_hereditary p x p2 z : rsel_at p x p2 z -> conditions_ok s frs p x = true -> conditions_ok s frs p2 z = true.
  Proof.
    induction 1 as [p x|p a fd sub y p2 z Hin Hat IH|p on sub y p2 z Hin Hat IH]; intros H; [exact H| |].
    - cbn [conditions_ok] in H. rewrite forallb_forall in H. exact (IH (H y Hin)).
    - cbn [conditions_ok] in H. apply andb_true_iff in H. destruct H as [_ H].
      rewrite forallb_forall in H. exact (IH (H y Hin)).
  Qed.

  (* rule: an inline fragment's / spread fragment's type condition can apply to the parent *)
  Theorem inline_condition_applies p x p2 on sub :
    conditions_ok s frs p x = true -> rsel_at p x p2 (RInline on sub) -> composite_parent p2 -> applicable p2 on.
  Proof.
    intros H Hat Hc. pose proof (conditions_hereditary _ _ _ _ Hat H) as G.
    cbn [conditions_ok] in G. apply andb_true_iff in G. destruct G as [G _].
    exact (condition_ok_applicable _ _ Hc G).
  Qed.

  Theorem spread_condition_applies p x p2 n fr :
    conditions_ok s frs p x = true -> rsel_at p x p2 (RSpread n) -> find_frag frs n = Some fr ->
    composite_parent p2 -> applicable p2 (rf_on fr).
  Proof.
    intros H Hat Hf Hc. pose proof (conditions_hereditary _ _ _ _ Hat H) as G.
    cbn [conditions_ok] in G. rewrite Hf in G. exact (condition_ok_applicable _ _ Hc G).
  Qed.

  (* ---------- `__typename` *)
  (* the selection set selects __typename directly, or through a chain of spreads of fragments
     on the same type *)
  Inductive selects_typename (parent : string) : list rsel -> Prop :=
  | st_direct l : In RTypename l -> selects_typename parent l
  | st_spread l n fr : In (RSpread n) l -> find_frag frs n = Some fr -> rf_on fr = parent ->
                       selects_typename parent (rf_sel fr) -> selects_typename parent l.

  Lemma contains_typename_sound fuel parent : forall visited l v,
    contains_typename fuel frs parent visited l = Some (true, v) -> selects_typename parent l.
  Proof.
    induction fuel as [|f IHf]; intros visited l v H; [discriminate|].
    cbn [contains_typename] in H.
    revert visited H. induction l as [|x r IHl]; intros visited H; [discriminate|].
    destruct x as [a fd sub| |on sub|n].
    - apply IHl in H. inversion H as [l0 Hin|l0 n fr Hin Hf Ho Hs]; subst.
      + apply st_direct. right. exact Hin.
      + eapply st_spread; eauto. right. exact Hin.
    - apply st_direct. left. reflexivity.
    - apply IHl in H. inversion H as [l0 Hin|l0 n fr Hin Hf Ho Hs]; subst.
      + apply st_direct. right. exact Hin.
      + eapply st_spread; eauto. right. exact Hin.
    - assert (Lift : forall vis, (fix walk (l : list rsel) (visited : list string) : option (bool * list string) :=
               match l with
               | [] => Some (false, visited)
               | RTypename :: _ => Some (true, visited)
               | RSpread n :: r =>
                   if mem_str n visited then walk r visited
                   else
                     let visited' := n :: visited in
                     match find_frag frs n with
                     | Some fr =>
                         if String.eqb (rf_on fr) parent then
                           match contains_typename f frs parent visited' (rf_sel fr) with
                           | None => None
                           | Some (true, v) => Some (true, v)
                           | Some (false, v) => walk r v
                           end
                         else walk r visited'
                     | None => walk r visited'
                     end
               | _ :: r => walk r visited
               end) r vis = Some (true, v) -> selects_typename parent (RSpread n :: r)).
      { intros vis Hw. apply IHl in Hw. inversion Hw as [l0 Hin|l0 n0 fr Hin Hf Ho Hs]; subst.
        - apply st_direct. right. exact Hin.
        - eapply st_spread; eauto. right. exact Hin. }
      destruct (mem_str n visited); [exact (Lift _ H)|].
      destruct (find_frag frs n) as [fr|] eqn:Ef; [|exact (Lift _ H)].
      destruct (String.eqb_spec (rf_on fr) parent) as [Eo|Eo]; [|exact (Lift _ H)].
      destruct (contains_typename f frs parent (n :: visited) (rf_sel fr)) as [[[|] v']|] eqn:Ec; [| |discriminate].
      + eapply st_spread; [left; reflexivity|exact Ef|exact Eo|]. exact (IHf _ _ _ Ec).
      + exact (Lift _ H).
  Qed.

  Lemma has_typename_sound parent l : has_typename s frs parent l = true -> selects_typename parent l.
  Proof.
    unfold has_typename. destruct (contains_typename _ frs parent [] l) as [[b v]|] eqn:E; [|discriminate].
    intros ->. exact (contains_typename_sound _ _ _ _ _ E).
  Qed.

  (* every abstract-typed field of a tree is listed by abstract_fields *)
  Lemma abstract_fields_complete p x p2 a fd sub :
    rsel_at p x p2 (RField a fd sub) -> is_abstract s (gname (fd_type fd)) = true ->
    In (gname (fd_type fd), sub) (abstract_fields s x).
  Proof.
    remember (RField a fd sub) as z eqn:Ez.
    induction 1 as [p x|p a' fd' sub' y p2 z Hin Hat IH|p on sub' y p2 z Hin Hat IH]; intros Hab; subst.
    - cbn [abstract_fields]. rewrite Hab. left. reflexivity.
    - cbn [abstract_fields]. apply in_or_app. right. apply in_flat_map. exists y. split; [exact Hin|exact (IH eq_refl Hab)].
    - cbn [abstract_fields]. apply in_flat_map. exists y. split; [exact Hin|exact (IH eq_refl Hab)].
  Qed.
End Bound.

(* rule: every selection on an interface / union (at any depth, in operations and fragments) and
   every fragment on one selects __typename *)
Theorem typename_everywhere s q op p2 x a fd sub :
  typename_ok s q = true -> In op (rq_ops q) -> In x (ro_sel op) ->
  rsel_at (ro_root op) x p2 (RField a fd sub) -> is_abstract s (gname (fd_type fd)) = true ->
  selects_typename (rq_frags q) (gname (fd_type fd)) sub.
Proof.
  intros H Hop Hx Hat Hab. unfold typename_ok in H. apply andb_true_iff in H. destruct H as [_ H].
  rewrite forallb_forall in H.
  apply (has_typename_sound s). apply (H (gname (fd_type fd), sub)).
  apply in_or_app. right. apply in_flat_map. exists op. split; [exact Hop|].
  apply in_flat_map. exists x. split; [exact Hx|]. exact (abstract_fields_complete s _ _ _ _ _ _ Hat Hab).
Qed.

Theorem typename_in_fragments s q fr :
  typename_ok s q = true -> In fr (rq_frags q) -> is_abstract s (rf_on fr) = true ->
  selects_typename (rq_frags q) (rf_on fr) (rf_sel fr).
Proof.
  intros H Hfr Hab. unfold typename_ok in H. apply andb_true_iff in H. destruct H as [H _].
  rewrite forallb_forall in H. specialize (H fr Hfr). rewrite Hab in H. cbn in H.
  exact (has_typename_sound s _ _ _ H).
Qed.

(* what `resolve` accepting a document gives *)
Theorem resolve_checks s doc q : resolve s doc = Ok q ->
  create_roots s doc = Ok tt /\ typename_ok s q = true /\
  (forall op, In op (rq_ops q) -> forall x, In x (ro_sel op) -> conditions_ok s (rq_frags q) (ro_root op) x = true) /\
  (forall fr, In fr (rq_frags q) -> forall x, In x (rf_sel fr) -> conditions_ok s (rq_frags q) (rf_on fr) x = true).
Proof.
  unfold resolve. destruct (create_roots s doc) as [[]| |]; cbn [bind]; try discriminate.
  destruct (vars_resolve s doc); cbn [negb]; [|discriminate].
  destruct (resolve_defs s (frag_table doc) doc) as [fo| |]; cbn [bind]; try discriminate.
  destruct (typename_ok s _) eqn:Et; cbn [negb]; [|discriminate].
  match goal with |- (if negb (?a && ?b) then _ else _) = _ -> _ => destruct a eqn:Ea; destruct b eqn:Eb; cbn; try discriminate end.
  intros H. inversion H; subst q. cbn. split; [reflexivity|]. split; [exact Et|]. split.
  - intros op Hop x Hx. rewrite forallb_forall in Eb. specialize (Eb op Hop). rewrite forallb_forall in Eb. exact (Eb x Hx).
  - intros fr Hfr x Hx. rewrite forallb_forall in Ea. specialize (Ea fr Hfr). rewrite forallb_forall in Ea. exact (Ea x Hx).
Qed.
