(* RunC12.v — executable entry points for the C12 correspondence check. *)
From GC Require Import Base Rust TypeExpr Heck Strs Naming Enums Schema Query Attrs Dfs Codegen Serde RunGen.

Definition case := gcase.
Definition corr := gen_corr.

(* ---- property oracle on the OBSERVED items: the "contains inline" graph is acyclic.
   A struct contains the types of its fields through Option; Vec and Box are indirections;
   an alias contains its target; an enum contains its variants' payloads. *)
Fixpoint contained (t : rtype) : list string :=
  match t with
  | RNamed n => [n]
  | ROption u => contained u
  | RVec _ | RBox _ | RMap _ => []
  end.

Definition contain_succs (items : list ritem) (n : string) : list string :=
  match find (fun it => String.eqb (item_name it) n) items with
  | Some (IStruct _ _ _ fs) => flat_map (fun f => contained (f_ty f)) fs
  | Some (IExtEnum _ _ _ vs) | Some (ITagEnum _ _ _ _ vs) | Some (IUntagged _ _ vs) =>
      flat_map (fun v => match v_payload v with Some t => contained t | None => [] end) vs
  | Some (IAlias _ t) => contained t
  | _ => []
  end.

Definition finite_size (items : list ritem) : bool :=
  forallb (fun it =>
    match dfs (contain_succs items) (S (S (List.length items))) (item_name it) [] (item_name it) with
    | Some (false, _) => true
    | _ => false
    end) items.

Definition prop_finite (c : gcase) : bool :=
  match g_obs c with
  | GOk ms => forallb (fun m => finite_size (m_items m)) ms
  | _ => true
  end.

(* the generator must accept these programs (they are valid) *)
Definition accepted (c : gcase) : bool := match g_obs c with GOk _ => true | _ => false end.

(* ---- the indirection is invisible in JSON: serde treats Box<T> as T, so the only way a Box can
   show on the wire is through the attributes of the member.  A member of an input struct (or of
   Variables) is skipped-when-None exactly when the option is on and its type, Box stripped, is an
   Option — boxed or not. *)
Definition prop_box_transparent (c : gcase) : bool :=
  match g_obs c with
  | GOk ms =>
      forallb (fun m =>
        forallb (fun it =>
          match it with
          | IStruct n d _ fs =>
              (* input structs and Variables: derive(Serialize ...) without Deserialize *)
              if mem_str "Serialize" d && negb (mem_str "Deserialize" d)
              then forallb (fun f => Bool.eqb (f_skip_none f) (o_skip_none (g_opts c) && is_option_type (f_ty f))) fs
              else true
          | _ => true
          end) (m_items m)) ms
  | _ => true
  end.
