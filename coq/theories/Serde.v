(* Serde.v — what the emitted / translated items MEAN: a specification of serde_derive 1.0.217 +
   serde_json on the attribute vocabulary the generator can emit and graphql_client declares
   (rename, flatten, tag, other, untagged, skip_serializing_if, deserialize_with, default,
   Option, Vec, Box, HashMap<String,_>).  Written from serde's sources (private/de.rs:
   FlatStructAccess takes entries, FlatMapAccess does not; missing Option fields; buffered
   Content == JSON for the types used here).  Validated on every run against real rustc + serde
   by the consumer-crate correspondence.  MODEL ONLY. *)
From GC Require Import Base Rust Json Enums.
From Coq Require Import DecimalString DecimalZ.

Inductive rvalue :=
| VNone
| VSome (v : rvalue)
| VBool (b : bool)
| VInt (z : Z)
| VFloat (j : json)                       (* an f64 field keeps the number it was given *)
| VStr (s : string)
| VSeq (l : list rvalue)
| VStruct (fields : list (string * rvalue))       (* by Rust identifier, declaration order *)
| VVariant (ident : string) (payload : option rvalue)
| VMap (m : list (string * rvalue))               (* HashMap<String, _>, sorted by key *)
| VJson (j : json)                                (* serde_json::Value / a consumer-provided type *)
| VUnit.

Definition decimal (z : Z) : string := NilEmpty.string_of_int (Z.to_int z).

(* ---------- helpers on items *)
Fixpoint find_item (n : string) (env : list ritem) : option ritem :=
  match env with
  | [] => None
  | it :: r => if String.eqb (item_name it) n then Some it else find_item n r
  end.

Definition field_wire (f : rfield) : string :=
  match f_rename f with Some r => r | None => f_ident f end.
Definition variant_wire (v : rvariant) : string :=
  match v_rename v with Some r => r | None => v_ident v end.

Fixpoint strip_box (t : rtype) : rtype := match t with RBox u => strip_box u | _ => t end.
Definition is_option_type (t : rtype) : bool := match strip_box t with ROption _ => true | _ => false end.

Fixpoint map_opt {A B} (f : A -> option B) (l : list A) : option (list B) :=
  match l with
  | [] => Some []
  | x :: r => match f x, map_opt f r with Some y, Some ys => Some (y :: ys) | _, _ => None end
  end.

Fixpoint find_field (k : string) (fs : list rfield) : option rfield :=
  match fs with
  | [] => None
  | f :: r => if String.eqb (field_wire f) k then Some f else find_field k r
  end.

Fixpoint insert_kv {A} (k : string) (v : A) (l : list (string * A)) : list (string * A) :=
  match l with
  | [] => [(k, v)]
  | (k', v') :: r => match String.compare k k' with
                     | Lt => (k, v) :: l
                     | Eq => (k, v) :: r          (* later entry wins *)
                     | Gt => (k', v') :: insert_kv k v r
                     end
  end.

Definition keys_in (names : list string) (m : list (string * json)) : list (string * json) :=
  filter (fun e => mem_str (fst e) names) m.
Definition keys_out (names : list string) (m : list (string * json)) : list (string * json) :=
  filter (fun e => negb (mem_str (fst e) names)) m.

(* primitive named types; None = not a primitive *)
Definition prim_deser (n : string) (j : json) : option (option rvalue) :=
  if String.eqb n "String" then Some (match j with JStr s => Some (VStr s) | _ => None end)
  else if String.eqb n "i64" then Some (match j with JInt z => if in_i64 z then Some (VInt z) else None | _ => None end)
  else if String.eqb n "i32" then Some (match j with JInt z => if in_i32 z then Some (VInt z) else None | _ => None end)
  else if String.eqb n "f64" then Some (match j with JInt _ | JFrac _ => Some (VFloat j) | _ => None end)
  else if String.eqb n "bool" then Some (match j with JBool b => Some (VBool b) | _ => None end)
  else if String.eqb n "serde_json::Value" then Some (Some (VJson j))
  else if String.eqb n "()" then Some (match j with JNull => Some VUnit | _ => None end)
  else None.

Definition prim_ser (n : string) (v : rvalue) : option (option json) :=
  if String.eqb n "String" || String.eqb n "&str" then Some (match v with VStr s => Some (JStr s) | _ => None end)
  else if String.eqb n "i64" || String.eqb n "i32" then Some (match v with VInt z => Some (JInt z) | _ => None end)
  else if String.eqb n "f64" then Some (match v with VFloat j => Some j | _ => None end)
  else if String.eqb n "bool" then Some (match v with VBool b => Some (JBool b) | _ => None end)
  else if String.eqb n "serde_json::Value" then Some (match v with VJson j => Some j | _ => None end)
  else if String.eqb n "()" then Some (match v with VUnit => Some JNull | _ => None end)
  else None.

Section Serde.
  (* declarations of graphql_client::serde_with (translated), for the two ID helpers *)
  Variable henv : list ritem.

  (* walk the entries of an object in order: own fields claim their keys (a second claim of
     the same field is serde's "duplicate field" error), the rest is collected in order *)
  Fixpoint claim (dv : rfield -> json -> option rvalue) (own : list rfield) (m : list (string * json))
           (seen : list (string * rvalue)) (rest : list (string * json))
    : option (list (string * rvalue) * list (string * json)) :=
    match m with
    | [] => Some (seen, rev rest)
    | (k, v) :: r =>
        match find_field k own with
        | Some f =>
            match assoc (f_ident f) seen with
            | Some _ => None
            | None => match dv f v with
                      | Some x => claim dv own r ((f_ident f, x) :: seen) rest
                      | None => None
                      end
            end
        | None => claim dv own r seen ((k, v) :: rest)
        end
    end.

  (* value of an own field after the walk: present, or serde's missing-field rule *)
  Definition field_value (seen : list (string * rvalue)) (f : rfield) : option rvalue :=
    match assoc (f_ident f) seen with
    | Some v => Some v
    | None =>
        if f_default f then Some VNone
        else match f_deser_with f with
             | Some _ => None                                   (* deserialize_with disables the Option rule *)
             | None => if is_option_type (f_ty f) then Some VNone else None
             end
    end.

  (* ---- building blocks, parameterised by the recursive calls:
         D  : the deserialiser for types of the module (one unit of fuel down)
         Dh : the deserialiser in the environment of graphql_client::serde_with *)
  Section Blocks.
    Variable D : rtype -> json -> option rvalue.
    Variable Dh : rtype -> json -> option rvalue.
    Variable env : list ritem.

    Definition int_or_string (x : json) : option rvalue :=
      match Dh (RNamed "IntOrString") x with
      | Some (VVariant "Int" (Some (VInt z))) => Some (VStr (decimal z))     (* From<IntOrString> for String *)
      | Some (VVariant "Str" (Some (VStr s))) => Some (VStr s)
      | _ => None
      end.

    (* serde_with::IdContainer: String, and Option / Vec nestings of it *)
    Fixpoint id_container_deser (t : rtype) (x : json) {struct t} : option rvalue :=
      match t with
      | ROption u => if is_null x then Some VNone else option_map VSome (id_container_deser u x)
      | RVec u => match x with JArr l => option_map VSeq (map_opt (id_container_deser u) l) | _ => None end
      | RNamed _ => int_or_string x
      | _ => None
      end.

    Definition deser_field (fd : rfield) (v : json) : option rvalue :=
      match f_deser_with fd with
      | Some h =>
          if String.eqb h "deserialize_id" then int_or_string v
          else if String.eqb h "deserialize_option_id" then
            match Dh (ROption (RNamed "IntOrString")) v with
            | Some VNone => Some VNone
            | Some (VSome (VVariant "Int" (Some (VInt z)))) => Some (VSome (VStr (decimal z)))
            | Some (VSome (VVariant "Str" (Some (VStr s)))) => Some (VSome (VStr s))
            | _ => None
            end
          else if String.eqb h "deserialize_id_list" then id_container_deser (f_ty fd) v
          else None
      | None => D (f_ty fd) v
      end.

    (* members in declaration order; flatten members are served from the collected rest *)
    Fixpoint serve (seen : list (string * rvalue)) (fs : list rfield) (buf : list (string * json))
      : option (list (string * rvalue)) :=
      match fs with
      | [] => Some []
      | fd :: more =>
          if f_flatten fd then
            match strip_box (f_ty fd) with
            | RNamed n =>
                match find_item n env with
                | Some (IStruct _ _ _ tfields) =>
                    if existsb f_flatten tfields then
                      (* a struct with inner flatten reads the buffer without taking *)
                      match D (RNamed n) (JObj buf), serve seen more buf with
                      | Some v, Some vs => Some ((f_ident fd, v) :: vs)
                      | _, _ => None
                      end
                    else
                      (* a plain struct takes the entries named like its fields *)
                      let names := map field_wire tfields in
                      match D (RNamed n) (JObj (keys_in names buf)), serve seen more (keys_out names buf) with
                      | Some v, Some vs => Some ((f_ident fd, v) :: vs)
                      | _, _ => None
                      end
                | Some (IAlias _ _) | Some (ITagEnum _ _ _ _ _) =>
                    (* alias: resolved by the recursive call; tagged enum: reads without taking.
                       (an alias to a plain struct would take; the generator never flattens an alias) *)
                    match D (RNamed n) (JObj buf), serve seen more buf with
                    | Some v, Some vs => Some ((f_ident fd, v) :: vs)
                    | _, _ => None
                    end
                | _ => None
                end
            | _ => None
            end
          else
            match field_value seen fd, serve seen more buf with
            | Some v, Some vs => Some ((f_ident fd, v) :: vs)
            | _, _ => None
            end
      end.

    (* struct from the entries of an object *)
    Definition deser_struct (fields : list rfield) (m : list (string * json)) : option rvalue :=
      let own := filter (fun fd => negb (f_flatten fd)) fields in
      match claim deser_field own m [] [] with
      | None => None
      | Some (seen, rest) => option_map VStruct (serve seen fields rest)
      end.

    (* serde_json also accepts a positional array for a struct without flatten *)
    Fixpoint deser_positional (fs : list rfield) (js : list json) : option (list rvalue) :=
      match fs, js with
      | [], [] => Some []
      | fd :: fr, x :: xr => match deser_field fd x, deser_positional fr xr with
                             | Some v, Some vs => Some (v :: vs) | _, _ => None end
      | _, _ => None
      end.

    Definition deser_tagged (tag : string) (variants : list rvariant) (m : list (string * json)) : option rvalue :=
      match filter (fun e => String.eqb (fst e) tag) m with
      | [(_, JStr s)] =>
          let content := filter (fun e => negb (String.eqb (fst e) tag)) m in
          let pick := match find (fun v => String.eqb (variant_wire v) s) variants with
                      | Some v => Some v
                      | None => find v_other variants
                      end in
          match pick with
          | None => None
          | Some v =>
              match v_payload v with
              | None => Some (VVariant (v_ident v) None)
              | Some pt => option_map (fun x => VVariant (v_ident v) (Some x)) (D pt (JObj content))
              end
          end
      | _ => None                            (* tag missing, duplicated, or not a string *)
      end.

    Fixpoint deser_untagged (vs : list rvariant) (j : json) : option rvalue :=
      match vs with
      | [] => None
      | v :: r =>
          match (match v_payload v with
                 | Some pt => option_map (fun x => VVariant (v_ident v) (Some x)) (D pt j)
                 | None => match j with JNull => Some (VVariant (v_ident v) None) | _ => None end
                 end) with
          | Some x => Some x
          | None => deser_untagged r j
          end
      end.

    Definition deser_map (u : rtype) (m : list (string * json)) : option rvalue :=
      option_map VMap
        (fold_left (fun acc e => match acc, D u (snd e) with
                                 | Some a, Some v => Some (insert_kv (fst e) v a)
                                 | _, _ => None end) m (Some [])).
  End Blocks.

  Fixpoint deser (fuel : nat) (env : list ritem) (t : rtype) (j : json) {struct fuel} : option rvalue :=
    match fuel with
    | O => None
    | S f =>
      let D := deser f env in
      let Dh := deser f henv in
      match t with
      | ROption u => if is_null j then Some VNone else option_map VSome (D u j)
      | RVec u => match j with JArr l => option_map VSeq (map_opt (D u) l) | _ => None end
      | RBox u => D u j
      | RMap u => match j with JObj m => deser_map D u m | _ => None end
      | RNamed n =>
          match prim_deser n j with
          | Some r => r
          | None =>
              match find_item n env with
              | None => Some (VJson j)                      (* a type the consumer provides: opaque *)
              | Some (IAliasPath _ _) => Some (VJson j)
              | Some (IAlias _ u) => D u j
              | Some (IOpaque _) => None
              | Some (IUnit _ _ _) => match j with JNull => Some VUnit | _ => None end
              | Some (IStruct _ _ _ fields) =>
                  match j with
                  | JObj m => deser_struct D Dh env fields m
                  | JArr l =>
                      if existsb f_flatten fields then None
                      else option_map (fun vs => VStruct (combine (map f_ident fields) vs))
                                      (deser_positional D Dh fields l)
                  | _ => None
                  end
              | Some (ITagEnum _ _ _ tag variants) =>
                  match j with JObj m => deser_tagged D tag variants m | _ => None end
              | Some (IUntagged _ _ variants) => deser_untagged D variants j
              | Some (IExtEnum _ _ _ variants) =>
                  match j with
                  | JObj [(k, v)] =>
                      match find (fun x => String.eqb (variant_wire x) k) variants with
                      | Some x => match v_payload x with
                                  | Some pt => option_map (fun y => VVariant (v_ident x) (Some y)) (D pt v)
                                  | None => match v with JNull => Some (VVariant (v_ident x) None) | _ => None end
                                  end
                      | None => None
                      end
                  | JStr s =>
                      match find (fun x => String.eqb (variant_wire x) s) variants with
                      | Some x => match v_payload x with None => Some (VVariant (v_ident x) None) | Some _ => None end
                      | None => None
                      end
                  | _ => None
                  end
              | Some (IStrEnum _ _ _ _ _ da dd) =>
                  match strenum_deser da dd j with
                  | Some (EVariant i) => Some (VVariant i None)
                  | Some (EOther s) => Some (VVariant "Other" (Some (VStr s)))
                  | None => None
                  end
              end
          end
      end
    end.

  (* ---------- serialisation *)
  Definition is_vnone (v : rvalue) : bool := match v with VNone => true | _ => false end.

  (* the members of a struct, in declaration order; S is the serialiser of member types *)
  Fixpoint ser_fields (S : rtype -> rvalue -> option json) (vals : list (string * rvalue)) (fs : list rfield)
    : option (list (string * json)) :=
    match fs with
    | [] => Some []
    | fd :: more =>
        match assoc (f_ident fd) vals with
        | None => None
        | Some x =>
            if f_flatten fd then
              match S (f_ty fd) x, ser_fields S vals more with
              | Some (JObj es), Some rest => Some (es ++ rest)
              | _, _ => None
              end
            else if f_skip_none fd && is_vnone x then ser_fields S vals more
            else match S (f_ty fd) x, ser_fields S vals more with
                 | Some jx, Some rest => Some ((field_wire fd, jx) :: rest)
                 | _, _ => None
                 end
        end
    end.

  Fixpoint ser (fuel : nat) (env : list ritem) (t : rtype) (v : rvalue) {struct fuel} : option json :=
    match fuel with
    | O => None
    | S f =>
      match t with
      | ROption u => match v with VNone => Some JNull | VSome x => ser f env u x | _ => None end
      | RVec u => match v with VSeq l => option_map JArr (map_opt (ser f env u) l) | _ => None end
      | RBox u => ser f env u v
      | RMap u =>
          match v with
          | VMap m => option_map JObj (map_opt (fun e => option_map (fun j => (fst e, j)) (ser f env u (snd e))) m)
          | _ => None
          end
      | RNamed n =>
          match prim_ser n v with
          | Some r => r
          | None =>
              match find_item n env with
              | None | Some (IAliasPath _ _) => match v with VJson j => Some j | _ => None end
              | Some (IAlias _ u) => ser f env u v
              | Some (IOpaque _) => None
              | Some (IUnit _ _ _) => match v with VUnit => Some JNull | _ => None end
              | Some (IStruct _ _ _ fields) =>
                  match v with
                  | VStruct vals =>
                      option_map JObj (ser_fields (ser f env) vals fields)
                  | _ => None
                  end
              | Some (ITagEnum _ _ _ tag variants) =>
                  match v with
                  | VVariant i p =>
                      match find (fun x => String.eqb (v_ident x) i) variants with
                      | Some x =>
                          match v_payload x, p with
                          | None, None => Some (JObj [(tag, JStr (variant_wire x))])
                          | Some pt, Some pv =>
                              match ser f env pt pv with
                              | Some (JObj es) => Some (JObj ((tag, JStr (variant_wire x)) :: es))
                              | _ => None
                              end
                          | _, _ => None
                          end
                      | None => None
                      end
                  | _ => None
                  end
              | Some (IUntagged _ _ variants) =>
                  match v with
                  | VVariant i p =>
                      match find (fun x => String.eqb (v_ident x) i) variants with
                      | Some x => match v_payload x, p with
                                  | Some pt, Some pv => ser f env pt pv
                                  | None, None => Some JNull
                                  | _, _ => None
                                  end
                      | None => None
                      end
                  | _ => None
                  end
              | Some (IExtEnum _ _ _ variants) =>
                  match v with
                  | VVariant i p =>
                      match find (fun x => String.eqb (v_ident x) i) variants with
                      | Some x => match v_payload x, p with
                                  | Some pt, Some pv => option_map (fun j => JObj [(variant_wire x, j)]) (ser f env pt pv)
                                  | None, None => Some (JStr (variant_wire x))
                                  | _, _ => None
                                  end
                      | None => None
                      end
                  | _ => None
                  end
              | Some (IStrEnum _ _ _ sa so _ _) =>
                  match v with
                  | VVariant i p =>
                      (* `Other(s)` is the only variant with a payload *)
                      if String.eqb i "Other"
                      then match p with
                           | Some (VStr s) => strenum_ser sa so (EOther s)
                           | None => strenum_ser sa so (EVariant i)
                           | _ => None
                           end
                      else match p with None => strenum_ser sa so (EVariant i) | Some _ => None end
                  | _ => None
                  end
              end
          end
      end
    end.
End Serde.

(* ---------- canonical comparison of JSON: objects as maps, last duplicate wins
   (what serde_json::to_value + a BTreeMap-backed Value does) *)
Fixpoint canon (j : json) : json :=
  match j with
  | JArr l => JArr (map canon l)
  | JObj m => JObj (fold_left (fun acc e => insert_kv (fst e) (canon (snd e)) acc) m [])
  | _ => j
  end.
Definition json_equiv (a b : json) : bool := json_eqb (canon a) (canon b).

Definition keys_unique_top (j : json) : bool :=
  match j with JObj m => nodup_str (map fst m) | _ => true end.
