(* RunSerde.v — generic correspondence of Serde.v with real rustc + serde on compiled items:
   (items of a module, root type, payload) -> Ok(re-serialised JSON) | Ok (no Serialize) | Err. *)
From GC Require Import Base Rust Json Enums Serde.
From GC.Gen Require Import LibTypes.

Definition FUEL : nat := 400.
Definition henv := serde_with_items.

Inductive sobs :=
| SOk (j : json)       (* deserialised and re-serialised *)
| SOkNoSer             (* deserialised; type has no Serialize *)
| SErr                 (* rejected *)
| SSplit               (* from_str and from_value disagree / crash *)
| SNoCompile.          (* the module does not compile *)

Definition run_model (items : list ritem) (root : string) (with_ser : bool) (payload : json) : sobs :=
  match deser henv FUEL items (RNamed root) payload with
  | None => SErr
  | Some v =>
      if with_ser then
        match ser FUEL items (RNamed root) v with
        | Some j => SOk j
        | None => SSplit
        end
      else SOkNoSer
  end.

Definition sobs_equiv (a b : sobs) : bool :=
  match a, b with
  | SOk x, SOk y => json_equiv x y
  | SOkNoSer, SOkNoSer | SErr, SErr | SSplit, SSplit | SNoCompile, SNoCompile => true
  | _, _ => false
  end.
