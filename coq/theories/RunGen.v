(* RunGen.v — whole-generator correspondence: (schema AST, query AST, options) ->
   Ok(modules as rmodule) | Err | Panic, model against implementation. *)
From GC Require Import Base Rust TypeExpr Heck Strs Naming Enums Schema Query Attrs Codegen.

Inductive gobs :=
| GOk (ms : list rmodule)
| GErr
| GPanic
| GUnparsable.          (* tokens were produced but syn could not parse them as items *)

Record gcase := mkG {
  g_schema : sdl_doc;
  g_doc : list qdef;
  g_opts : opts;
  g_obs : gobs
}.

(* an item whose NAME is a Rust keyword (a GraphQL type, fragment or operation named `type`, `match`,
   `Self` ...): the generator emits the identifier as it stands and the token stream is not Rust (known
   finding K15) *)
Definition keyword_item_name (ms : list rmodule) : bool :=
  existsb (fun m => existsb (fun i => mem_str (item_name i) reference_keywords) (m_items m)) ms.

Definition gen_model (c : gcase) : gobs :=
  match schema_of_sdl (g_schema c) with
  | Ok s =>
      match generate s (g_doc c) (g_opts c) "<same>" with
      | Ok ms => if keyword_item_name ms then GUnparsable else GOk ms
      | Err _ => GErr
      | Panic _ => GPanic
      end
  | Err _ => GErr
  | Panic _ => GPanic
  end.

Definition gobs_eqb (a b : gobs) : bool :=
  match a, b with
  | GOk x, GOk y => list_eqb rmodule_eqb x y
  | GErr, GErr | GPanic, GPanic | GUnparsable, GUnparsable => true
  | _, _ => false
  end.

Definition gen_corr (c : gcase) : bool := gobs_eqb (gen_model c) (g_obs c).

(* weaker comparison used to localise a disagreement: same outcome class *)
Definition gen_class (c : gcase) : bool :=
  match gen_model c, g_obs c with
  | GOk _, GOk _ | GErr, GErr | GPanic, GPanic | GUnparsable, GUnparsable => true
  | _, _ => false
  end.

(* first differing item, for diagnostics *)
Fixpoint first_diff (a b : list ritem) : option (option ritem * option ritem) :=
  match a, b with
  | [], [] => None
  | x :: r, y :: s => if ritem_eqb x y then first_diff r s else Some (Some x, Some y)
  | x :: _, [] => Some (Some x, None)
  | [], y :: _ => Some (None, Some y)
  end.
Definition diag (c : gcase) :=
  match gen_model c, g_obs c with
  | GOk (m :: _), GOk (n :: _) => first_diff (m_items m) (m_items n)
  | _, _ => None
  end.

Definition case := gcase.
Definition corr := gen_corr.
Definition class := gen_class.
