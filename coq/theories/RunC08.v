(* RunC08.v — executable entry points for the C08 correspondence check. *)
From GC Require Import Base Cache.

Inductive oc := OVal (digest : string) | OPanic.      (* digest of the token stream or of the error text *)

Record ccall := mkCC { cc_q : string; cc_s : string; cc_o : string }.

Record case := mkCase {
  c_files : list (string * option string);   (* path -> content id (None = missing; "!..." = unparsable) *)
  c_threads : list (list ccall);
  c_fresh : list (list oc);                  (* every call alone in a fresh process *)
  c_seq : list (list oc);                    (* all calls one after the other in ONE process *)
  c_par : list (list oc)                     (* the threads concurrently in ONE process *)
}.

(* ---- model instance: contents are ids; the generator's result is the triple of ids *)
Definition bang (t : string) : bool := String.prefix "!" t.
Definition ext_ok (p : string) : bool :=
  existsb (fun e => String.eqb e (substring (String.length p - String.length e) (String.length e) p))
          [".graphql"; ".graphqls"; ".gql"; ".json"].
Definition m_fs (files : list (string * option string)) (p : string) : option string :=
  match assoc p files with Some (Some t) => Some t | _ => None end.
Definition m_parse_q (t : string) : option string := if bang t then None else Some t.
Definition m_parse_s (p t : string) : option string := if ext_ok p && negb (bang t) then Some t else None.
Definition m_gen (q s o : string) : string := (q ++ "|" ++ s ++ "|" ++ o)%string.

Definition to_call (c : ccall) : call string := mkCall string (cc_q c) (cc_s c) (cc_o c).

Definition m_pure (files : list (string * option string)) (c : ccall) : res string :=
  pure string string string string string (m_fs files) m_parse_q m_parse_s m_gen (to_call c).

(* a load failure must show as a panic; when both loads succeed the outcome is whatever the pure
   generator does (a token stream, an error, or a panic of its own, e.g. an unknown variable type) *)
Definition same_class (r : res string) (o : oc) : bool :=
  match r, o with Val _, _ | Panicked, OPanic => true | Panicked, OVal _ => false end.

Fixpoint all2 {A B} (f : A -> B -> bool) (a : list A) (b : list B) : bool :=
  match a, b with
  | [], [] => true
  | x :: r, y :: s => f x y && all2 f r s
  | _, _ => false
  end.

(* the state machine run sequentially (one thread, 2 steps per call) *)
Definition m_seq_log (files : list (string * option string)) (calls : list ccall) : list (res string) :=
  let st := run string string string string string (m_fs files) m_parse_q m_parse_s m_gen
                (init string string string string [map to_call calls])
                (repeat 0 (2 * List.length calls)) in
  rev (map snd (log _ _ _ _ st)).

Definition corr (c : case) : bool :=
  all2 (all2 (fun cl o => same_class (m_pure (c_files c) cl) o)) (c_threads c) (c_fresh c) &&
  all2 same_class (m_seq_log (c_files c) (List.concat (c_threads c))) (List.concat (c_seq c)) &&
  (* equal (query, schema, options) contents give equal digests (different option sets may well
     produce the same code, so no converse) *)
  let flat := combine (List.concat (c_threads c)) (List.concat (c_fresh c)) in
  forallb (fun p1 => forallb (fun p2 =>
    match m_pure (c_files c) (fst p1), m_pure (c_files c) (fst p2), snd p1, snd p2 with
    | Val a, Val b, OVal x, OVal y => negb (String.eqb a b) || String.eqb x y
    | _, _, _, _ => true
    end) flat) flat.

(* ---- the property, on observations alone: same outcome as the call made alone in a fresh process *)
Definition oc_eqb (a b : oc) : bool :=
  match a, b with OVal x, OVal y => String.eqb x y | OPanic, OPanic => true | _, _ => false end.
Definition prop_sequential (c : case) : bool := all2 (all2 oc_eqb) (c_seq c) (c_fresh c).
Definition prop_concurrent (c : case) : bool := all2 (all2 oc_eqb) (c_par c) (c_fresh c).
