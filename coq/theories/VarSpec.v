(* VarSpec.v — SPECIFICATION for C04: which JSON values are valid for a GraphQL input type and
   which objects are valid `variables` for an operation (GraphQL spec 3.10, 5.8, @oneOf RFC).
   Written on the abstract schema, independent of the generator.  SPEC ONLY. *)
From GC Require Import Base Rust Json TypeExpr Schema Query Conform.

Section VarSpec.
  Variable s : aschema.

  Definition scalar_input (n : string) (j : json) : bool :=
    if String.eqb n "Int" then match j with JInt _ => true | _ => false end
    else if String.eqb n "Float" then match j with JInt _ | JFrac _ => true | _ => false end
    else if String.eqb n "String" then match j with JStr _ => true | _ => false end
    else if String.eqb n "Boolean" then match j with JBool _ => true | _ => false end
    else if String.eqb n "ID" then match j with JStr _ => true | _ => false end
    else true.                                   (* custom scalar: whatever the consumer's type writes *)

  Definition is_nullable (t : gtype) : bool := match t with GNonNull _ => false | _ => true end.

  (* fuel bounds the nesting of input objects (S (jdepth j) suffices) *)
  Fixpoint vnamed (fuel : nat) (n : string) (j : json) {struct fuel} : bool :=
    match fuel with
    | O => false
    | S f =>
        match find_kind_sdl s n with
        | Some KScalar => scalar_input n j
        | Some KEnum => match j, find_enum s n with JStr x, Some vs => mem_str x vs | _, _ => false end
        | Some KInput =>
            match j, find_input s n with
            | JObj m, Some inp =>
                nodup_str (map fst m) &&
                (* keys are the schema's field names *)
                forallb (fun e => mem_str (fst e) (map fst (ai_fields inp))) m &&
                if ai_one_of inp then
                  (* exactly one key, and it is not null *)
                  match m with
                  | [(k, v)] => negb (is_null v) &&
                                match assoc k (ai_fields inp) with
                                | Some t => ctype (vnamed f (gname t)) true t v
                                | None => false end
                  | _ => false
                  end
                else
                  forallb (fun fl =>
                    match obj_get (fst fl) m with
                    | Some v => ctype (vnamed f (gname (snd fl))) true (snd fl) v
                    | None => is_nullable (snd fl)            (* absent only where null is allowed *)
                    end) (ai_fields inp)
            | _, _ => false
            end
        | _ => false
        end
    end.

  Definition vtype (fuel : nat) (t : gtype) (j : json) : bool := ctype (vnamed fuel (gname t)) true t j.

  (* `variables` of an operation: keys among the declared names, each value valid, absent only
     where nullable or defaulted.  `null` stands for the empty object when nothing is declared. *)
  Definition valid_variables (vars : list vardef) (j : json) : bool :=
    match j with
    | JObj m =>
        nodup_str (map fst m) &&
        forallb (fun e => mem_str (fst e) (map vd_name vars)) m &&
        forallb (fun v => match obj_get (vd_name v) m with
                          | Some x => vtype (S (jdepth j)) (vd_type v) x
                          | None => is_nullable (vd_type v) || vd_has_default v
                          end) vars
    | JNull => match vars with [] => true | _ => false end
    | _ => false
    end.

  (* explicit nulls: every declared member of every input object is present (skip_serializing_none off) *)
  Fixpoint all_members_present (fuel : nat) (t : gtype) (j : json) {struct fuel} : bool :=
    match fuel with
    | O => true
    | S f =>
        match t, j with
        | GNonNull u, _ => all_members_present f u j
        | GList u, JArr l => forallb (all_members_present f u) l
        | GNamed n, JObj m =>
            match find_kind_sdl s n, find_input s n with
            | Some KInput, Some inp =>
                if ai_one_of inp then
                  forallb (fun e => match assoc (fst e) (ai_fields inp) with
                                    | Some ft => all_members_present f ft (snd e) | None => true end) m
                else
                  forallb (fun fl => match obj_get (fst fl) m with
                                     | Some v => all_members_present f (snd fl) v
                                     | None => false end) (ai_fields inp)
            | _, _ => true
            end
        | _, _ => true
        end
    end.

  (* skip_serializing_none on: no member of any input object is null *)
  Fixpoint no_null_members (fuel : nat) (t : gtype) (j : json) {struct fuel} : bool :=
    match fuel with
    | O => true
    | S f =>
        match t, j with
        | GNonNull u, _ => no_null_members f u j
        | GList u, JArr l => forallb (no_null_members f u) l
        | GNamed n, JObj m =>
            match find_kind_sdl s n, find_input s n with
            | Some KInput, Some inp =>
                forallb (fun e => negb (is_null (snd e)) &&
                                  match assoc (fst e) (ai_fields inp) with
                                  | Some ft => no_null_members f ft (snd e) | None => true end) m
            | _, _ => true
            end
        | _, _ => true
        end
    end.
  (* the assignment carries, at an enum position, a string that is not a value of the enum *)
  Fixpoint foreign_enum (fuel : nat) (t : gtype) (j : json) {struct fuel} : bool :=
    match fuel with
    | O => false
    | S f =>
        match t, j with
        | GNonNull u, _ => foreign_enum f u j
        | GList u, JArr l => existsb (foreign_enum f u) l
        | GNamed n, JStr x =>
            match find_kind_sdl s n, find_enum s n with
            | Some KEnum, Some vs => negb (mem_str x vs)
            | _, _ => false
            end
        | GNamed n, JObj m =>
            match find_kind_sdl s n, find_input s n with
            | Some KInput, Some inp =>
                existsb (fun e => match assoc (fst e) (ai_fields inp) with
                                  | Some ft => foreign_enum f ft (snd e) | None => false end) m
            | _, _ => false
            end
        | _, _ => false
        end
    end.
End VarSpec.

(* null members dropped everywhere inside objects: the form under which an assignment and its
   serialisation are compared *)
Fixpoint drop_nulls (j : json) : json :=
  match j with
  | JArr l => JArr (map drop_nulls l)
  | JObj m => JObj (flat_map (fun e => if is_null (snd e) then [] else [(fst e, drop_nulls (snd e))]) m)
  | _ => j
  end.
