(* Cache.v — the two process-wide caches of graphql_client_codegen/src/lib.rs:48-90 as a state
   machine.  A call `generate_module_token_stream(query_path, schema_path, options)` is three
   atomic steps: get-or-load in QUERY_CACHE (one critical section of its mutex), get-or-load in
   SCHEMA_CACHE (another), and the pure generator.  Files do not change during a history.
   `get_or_load` is get_set_cached AFTER the repair recorded in known_findings.json (a loader
   panic leaves map and lock usable); `get_or_load_poison` is the original.  MODEL ONLY. *)
From GC Require Import Base.

Section Cache.
  Variables Text Q Sch Opts Out : Type.
  Variable fs : string -> option Text.               (* path -> contents; None = missing *)
  Variable parse_q : Text -> option Q.               (* None = unparsable: the loader panics *)
  Variable parse_s : string -> Text -> option Sch.   (* also sees the path: dispatch on the extension *)
  Variable gen : Q -> Sch -> Opts -> Out.            (* generate_module_token_stream_inner: pure *)

  Inductive res (A : Type) := Val (a : A) | Panicked.
  Arguments Val {A} _. Arguments Panicked {A}.

  Definition load_q (p : string) : res Q :=
    match fs p with None => Panicked | Some t => match parse_q t with None => Panicked | Some v => Val v end end.
  Definition load_s (p : string) : res Sch :=
    match fs p with None => Panicked | Some t => match parse_s p t with None => Panicked | Some v => Val v end end.

  (* `lock.entry(key).or_insert_with(load).clone()`; the key is the path as given *)
  Definition get_or_load {A} (load : string -> res A) (c : list (string * A)) (p : string) : list (string * A) * res A :=
    match assoc p c with
    | Some v => (c, Val v)
    | None => match load p with Val v => ((p, v) :: c, Val v) | Panicked => (c, Panicked) end
    end.

  Record call := mkCall { qp : string; sp : string; op : Opts }.

  (* the same call made alone in a fresh process *)
  Definition pure (c : call) : res Out :=
    match load_q (qp c) with
    | Panicked => Panicked
    | Val q => match load_s (sp c) with Panicked => Panicked | Val s => Val (gen q s (op c)) end
    end.

  (* a thread: calls still to make, and the query it holds between its two critical sections *)
  Record thread := mkThread { todo : list call; held : option Q }.
  Record state := mkState { cq : list (string * Q); cs : list (string * Sch); ths : list thread;
                            log : list (call * res Out) }.

  Fixpoint set_nth {A} (n : nat) (x : A) (l : list A) : list A :=
    match l, n with [], _ => [] | _ :: r, O => x :: r | y :: r, S n' => y :: set_nth n' x r end.

  (* one atomic step of thread i *)
  Definition step (st : state) (i : nat) : state :=
    match nth_error (ths st) i with
    | None => st
    | Some th =>
      match todo th with
      | [] => st
      | c :: rest =>
        match held th with
        | None =>
            let '(cq', r) := get_or_load load_q (cq st) (qp c) in
            match r with
            | Panicked => mkState cq' (cs st) (set_nth i (mkThread rest None) (ths st)) ((c, Panicked) :: log st)
            | Val q => mkState cq' (cs st) (set_nth i (mkThread (c :: rest) (Some q)) (ths st)) (log st)
            end
        | Some q =>
            let '(cs', r) := get_or_load load_s (cs st) (sp c) in
            mkState (cq st) cs' (set_nth i (mkThread rest None) (ths st))
                    ((c, match r with Panicked => Panicked | Val s => Val (gen q s (op c)) end) :: log st)
        end
      end
    end.

  Definition run (st : state) (sched : list nat) : state := fold_left step sched st.
  Definition init (progs : list (list call)) : state :=
    mkState [] [] (map (fun p => mkThread p None) progs) [].

  (* ---------- the ORIGINAL get_set_cached: a loader panic poisons the mutex for good *)
  Record pstate := mkP { p_cq : list (string * Q); p_cs : list (string * Sch); p_poison_q : bool; p_poison_s : bool }.
  Definition call_poison (st : pstate) (c : call) : pstate * res Out :=
    if p_poison_q st then (st, Panicked)                       (* "cache is poisoned" *)
    else
      let '(cq', r) := get_or_load load_q (p_cq st) (qp c) in
      match r with
      | Panicked => (mkP cq' (p_cs st) true (p_poison_s st), Panicked)
      | Val q =>
          if p_poison_s st then (mkP cq' (p_cs st) false true, Panicked)
          else
            let '(cs', r2) := get_or_load load_s (p_cs st) (sp c) in
            match r2 with
            | Panicked => (mkP cq' cs' false true, Panicked)
            | Val s => (mkP cq' cs' false false, Val (gen q s (op c)))
            end
      end.
End Cache.
Arguments Val {A} _.
Arguments Panicked {A}.
