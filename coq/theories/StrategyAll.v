(* StrategyAll.v — C14 for ALL programs: what the deprecation strategy changes in the expansion of a
   selection.  The selection expansion (`Codegen.calc`) only ever APPENDS rendered fields to its context
   and never looks at them, so changing the strategy changes the context by a pointwise map of the
   rendered fields and nothing else:
     allow = warn with the #[deprecated] marks removed;
     deny  = warn with the marked fields removed (None), everything else — types, variants, aliases,
             order, every other field — identical.
   Proved through a copy of `calc` that is parametric in the field renderer (`calcG`, convertible with
   `calc` at `render_field o`). *)
From GC Require Import Base Rust Json TypeExpr Heck Strs Naming Enums Schema Query Attrs Dfs Codegen.

Definition renderer := option string -> string -> string -> list qual -> bool -> option (option string) -> bool -> option rfield.

Section G.
  Variables (s : aschema) (frs : list rfrag) (o : opts) (R : renderer) (ov : bool).

  Section Body.
    Variable rec : ctx -> list rsel -> nat -> string -> string -> option ctx.
    Variable recf : ctx -> list rsel -> nat -> string -> string -> option ctx.

    Definition calc_variantsG (c : ctx) (sels : list rsel) (sid : nat) (tname prefix : string) : option ctx :=
      let variants :=
        match find_kind_sdl s tname with
        | Some KInterface => Some (implementors s tname)
        | Some KUnion => find_union s tname
        | _ => None
        end in
      match variants with
      | None => Some c
      | Some vs =>
          match fold_opt (fun c v =>
                  let mine := filter (fun x => match variant_selection frs tname x with
                                               | Some t => String.eqb t v | None => false end) sels in
                  match mine with
                  | [] => Some (push_variant c sid (mkVariant v None None false))
                  | _ =>
                      let sname := (prefix ++ "On" ++ v)%string in
                      let c1 := push_variant c sid (mkVariant v None (Some (RNamed sname)) false) in
                      let '(c2, nid) := push_type c1 sname in
                      match mine with
                      | [RSpread n] => Some (push_alias c2 nid n (recursive frs n))
                      | _ =>
                          fold_opt (fun c x =>
                            match x with
                            | RInline on sub => rec c sub nid v (prefix ++ "On" ++ camel on)%string
                            | RSpread n =>
                                Some (push_field c nid (R None (kw (snake n)) n [QRequired] true None (recursive frs n)))
                            | _ => Some c
                            end) mine c2
                      end
                  end) vs c with
          | None => None
          | Some c' => Some (if ov then push_variant c' sid (mkVariant "Unknown" None None true) else c')
          end
      end.

    Definition calc_fieldsG (c : ctx) (sels : list rsel) (sid : nat) (tname prefix : string) : option ctx :=
      fold_opt (fun c x =>
        match x with
        | RField alias fd sub =>
            let gn := selected_name alias fd in
            let rust := kw (snake gn) in
            let tn := gname (fd_type fd) in
            let quals := quals_sdl (fd_type fd) in
            match find_kind_sdl s tn with
            | Some KEnum | Some KScalar =>
                Some (push_field c sid (R (Some gn) rust (norm_field_type o tn) quals false (fd_deprecated fd) false))
            | Some KObject | Some KInterface | Some KUnion =>
                let sname := (prefix ++ camel gn)%string in
                let c1 := push_field c sid (R (Some gn) rust sname quals false (fd_deprecated fd) false) in
                let '(c2, nid) := push_type c1 sname in
                rec c2 sub nid tn sname
            | _ => Some c
            end
        | RTypename => Some c
        | RInline on sub =>
            if on_object s tname then recf c sub sid tname (prefix ++ "On" ++ camel on)%string else Some c
        | RSpread n =>
            if String.eqb (frag_on frs n) tname || on_object s tname
            then Some (push_field c sid (R None (kw (snake n)) n [QRequired] true None (recursive frs n)))
            else Some c
        end) sels c.

    Definition calc_bodyG (c : ctx) (sels : list rsel) (sid : nat) (tname prefix : string) : option ctx :=
      match sels with
      | [RSpread n] => Some (push_alias c sid n (recursive frs n))
      | _ =>
          match calc_variantsG c sels sid tname prefix with
          | None => None
          | Some c1 => calc_fieldsG c1 sels sid tname prefix
          end
      end.
  End Body.

  Fixpoint calcG (fuel : nat) (c : ctx) (sels : list rsel) (sid : nat) (tname prefix : string) {struct fuel}
    : option ctx :=
    match fuel with
    | O => None
    | S f => calc_bodyG (calcG f) (calcfG f) c sels sid tname prefix
    end
  with calcfG (fuel : nat) (c : ctx) (sels : list rsel) (sid : nat) (tname prefix : string) {struct fuel}
    : option ctx :=
    match fuel with
    | O => None
    | S f => calc_fieldsG (calcG f) (calcfG f) c sels sid tname prefix
    end.
End G.

(* the copy IS the model's expansion, at the model's renderer *)
Lemma calcG_is_calc s frs o fuel c sels sid tname prefix :
  calc s frs o fuel c sels sid tname prefix = calcG s frs o (render_field o) (o_other_variant o) fuel c sels sid tname prefix.
Proof. reflexivity. Qed.

(* ---------- a pointwise map of the rendered fields commutes with the expansion *)
Definition cmap (g : option rfield -> option rfield) (c : ctx) : ctx :=
  mkCtx (c_types c) (map (fun e => (fst e, g (snd e))) (c_fields c)) (c_variants c) (c_aliases c).

Lemma cmap_push_field g c sid f : push_field (cmap g c) sid (g f) = cmap g (push_field c sid f).
Proof. reflexivity. Qed.
Lemma cmap_push_variant g c sid v : push_variant (cmap g c) sid v = cmap g (push_variant c sid v).
Proof. reflexivity. Qed.
Lemma cmap_push_alias g c sid n b : push_alias (cmap g c) sid n b = cmap g (push_alias c sid n b).
Proof. reflexivity. Qed.
Lemma cmap_push_type g c n : push_type (cmap g c) n = (cmap g (fst (push_type c n)), snd (push_type c n)).
Proof. reflexivity. Qed.

Lemma fold_opt_cmap {A} g (F1 F2 : ctx -> A -> option ctx) l :
  (forall c x, In x l -> F2 (cmap g c) x = option_map (cmap g) (F1 c x)) ->
  forall c, fold_opt F2 l (cmap g c) = option_map (cmap g) (fold_opt F1 l c).
Proof.
  induction l as [|x r IH]; intros H c; [reflexivity|]. cbn [fold_opt].
  rewrite (H c x (or_introl eq_refl)). destruct (F1 c x) as [c'|]; cbn [option_map]; [|reflexivity].
  apply IH. intros c0 y Hy. apply H. right. exact Hy.
Qed.

Section Map.
  Variables (s : aschema) (frs : list rfrag) (o : opts) (R1 R2 : renderer) (ov : bool) (g : option rfield -> option rfield).
  Hypothesis HR : forall a b c d e f h, R2 a b c d e f h = g (R1 a b c d e f h).

  Section Step.
    Variables rec1 recf1 rec2 recf2 : ctx -> list rsel -> nat -> string -> string -> option ctx.
    Hypothesis Hrec : forall c sels sid t p, rec2 (cmap g c) sels sid t p = option_map (cmap g) (rec1 c sels sid t p).
    Hypothesis Hrecf : forall c sels sid t p, recf2 (cmap g c) sels sid t p = option_map (cmap g) (recf1 c sels sid t p).

    Lemma variants_cmap c sels sid tname prefix :
      calc_variantsG s frs R2 ov rec2 (cmap g c) sels sid tname prefix =
      option_map (cmap g) (calc_variantsG s frs R1 ov rec1 c sels sid tname prefix).
    Proof.
      unfold calc_variantsG.
      destruct (match find_kind_sdl s tname with
                | Some KInterface => Some (implementors s tname) | Some KUnion => find_union s tname | _ => None end) as [vs|];
        [|reflexivity].
      rewrite (fold_opt_cmap g
        (fun c v =>
           let mine := filter (fun x => match variant_selection frs tname x with Some t => String.eqb t v | None => false end) sels in
           match mine with
           | [] => Some (push_variant c sid (mkVariant v None None false))
           | _ =>
               let sname := (prefix ++ "On" ++ v)%string in
               let c1 := push_variant c sid (mkVariant v None (Some (RNamed sname)) false) in
               let '(c2, nid) := push_type c1 sname in
               match mine with
               | [RSpread n] => Some (push_alias c2 nid n (recursive frs n))
               | _ => fold_opt (fun c x =>
                        match x with
                        | RInline on sub => rec1 c sub nid v (prefix ++ "On" ++ camel on)%string
                        | RSpread n => Some (push_field c nid (R1 None (kw (snake n)) n [QRequired] true None (recursive frs n)))
                        | _ => Some c
                        end) mine c2
               end
           end)).
      - destruct (fold_opt _ vs c) as [c'|]; cbn [option_map]; [|reflexivity]. destruct ov; reflexivity.
      - intros c0 v _. cbn zeta.
        destruct (filter _ sels) as [|m0 mr] eqn:Em; [reflexivity|].
        set (mine := m0 :: mr).
        assert (Hfold : forall c2 nid,
          fold_opt (fun c x => match x with
                     | RInline on sub => rec2 c sub nid v (prefix ++ "On" ++ camel on)%string
                     | RSpread n => Some (push_field c nid (R2 None (kw (snake n)) n [QRequired] true None (recursive frs n)))
                     | _ => Some c end) mine (cmap g c2) =
          option_map (cmap g) (fold_opt (fun c x => match x with
                     | RInline on sub => rec1 c sub nid v (prefix ++ "On" ++ camel on)%string
                     | RSpread n => Some (push_field c nid (R1 None (kw (snake n)) n [QRequired] true None (recursive frs n)))
                     | _ => Some c end) mine c2)).
        { intros c2 nid. apply fold_opt_cmap. intros c1 x _. destruct x as [a fd sub|on sub|n|]; try reflexivity.
          - apply Hrec.
          - rewrite HR. reflexivity. }
        rewrite cmap_push_variant, cmap_push_type.
        destruct (push_type (push_variant c0 sid (mkVariant v None (Some (RNamed (prefix ++ "On" ++ v))) false)) (prefix ++ "On" ++ v)) as [c2 nid] eqn:Ep.
        cbn [fst snd].
        destruct m0 as [a fd sub|on sub|n|]; try exact (Hfold c2 nid).
        destruct mr; [reflexivity|exact (Hfold c2 nid)].
    Qed.

    Lemma fields_cmap c sels sid tname prefix :
      calc_fieldsG s frs o R2 rec2 recf2 (cmap g c) sels sid tname prefix =
      option_map (cmap g) (calc_fieldsG s frs o R1 rec1 recf1 c sels sid tname prefix).
    Proof.
      unfold calc_fieldsG. apply fold_opt_cmap. intros c0 x _.
      destruct x as [a fd sub|on sub|n|]; try reflexivity.
      - cbn zeta. destruct (find_kind_sdl s (gname (fd_type fd))) as [[]|]; try reflexivity;
          try (rewrite HR; reflexivity);
          rewrite HR, cmap_push_field, cmap_push_type;
          destruct (push_type _ _) as [c2 nid]; cbn [fst snd]; apply Hrec.
      - destruct (on_object s tname); [apply Hrecf|reflexivity].
      - destruct (_ || _); [rewrite HR; reflexivity|reflexivity].
    Qed.
  End Step.
End Map.

Section MapAll.
  Variables (s : aschema) (frs : list rfrag) (o : opts) (R1 R2 : renderer) (ov : bool) (g : option rfield -> option rfield).
  Hypothesis HR : forall a b c d e f h, R2 a b c d e f h = g (R1 a b c d e f h).

  Lemma calcG_cmap : forall fuel,
    (forall c sels sid t p, calcG s frs o R2 ov fuel (cmap g c) sels sid t p =
                            option_map (cmap g) (calcG s frs o R1 ov fuel c sels sid t p)) /\
    (forall c sels sid t p, calcfG s frs o R2 ov fuel (cmap g c) sels sid t p =
                            option_map (cmap g) (calcfG s frs o R1 ov fuel c sels sid t p)).
  Proof.
    induction fuel as [|f [IH1 IH2]]; [split; reflexivity|]. split; intros c sels sid t p.
    - cbn [calcG]. unfold calc_bodyG.
      assert (Hv := variants_cmap s frs R1 R2 ov g HR (calcG s frs o R1 ov f) (calcG s frs o R2 ov f) IH1 c sels sid t p).
      assert (Hf := fun c1 => fields_cmap s frs o R1 R2 g HR (calcG s frs o R1 ov f) (calcfG s frs o R1 ov f)
                                (calcG s frs o R2 ov f) (calcfG s frs o R2 ov f) IH1 IH2 c1 sels sid t p).
      destruct sels as [|x r]; [|destruct x as [a fd sub|on sub|n|]; try destruct r as [|y r']];
        try reflexivity;
        try (rewrite Hv; destruct (calc_variantsG s frs R1 ov (calcG s frs o R1 ov f) c _ sid t p) as [c1|];
             cbn [option_map]; [apply Hf|reflexivity]).
    - cbn [calcfG]. apply (fields_cmap s frs o R1 R2 g HR _ _ _ _ IH1 IH2).
  Qed.
End MapAll.

(* ---------- the three strategies *)
Definition with_strategy (o : opts) (d : dstrategy) : opts :=
  mkOpts (o_cli o) (o_operation_name o) (o_struct_name o) (o_variables_derives o) (o_response_derives o) (Some d)
         (o_norm_rust o) (o_custom_scalars_module o) (o_extern_enums o) (o_other_variant o) (o_skip_none o)
         (o_serde_path o) (o_visibility o) (o_query_file o).

Definition unmark (x : option rfield) : option rfield :=
  match x with
  | Some f => Some (mkField (f_ident f) (f_ty f) (f_rename f) (f_flatten f) (f_skip_none f) None (f_deser_with f) (f_default f))
  | None => None
  end.
Definition drop_marked (x : option rfield) : option rfield :=
  match x with
  | Some f => match f_deprecated f with Some _ => None | None => Some f end
  | None => None
  end.

Lemma render_allow_of_warn o a b c d e f h :
  render_field (with_strategy o DAllow) a b c d e f h = unmark (render_field (with_strategy o DWarn) a b c d e f h).
Proof. unfold render_field, strategy. cbn [with_strategy o_deprecation o_skip_none]. destruct f as [[m|]|]; reflexivity. Qed.

Lemma render_deny_of_warn o a b c d e f h :
  render_field (with_strategy o DDeny) a b c d e f h = drop_marked (render_field (with_strategy o DWarn) a b c d e f h).
Proof. unfold render_field, strategy. cbn [with_strategy o_deprecation o_skip_none]. destruct f as [[m|]|]; reflexivity. Qed.

Lemma calcG_strategy_irrelevant s frs o d1 d2 R ov fuel c sels sid t p :
  calcG s frs (with_strategy o d1) R ov fuel c sels sid t p = calcG s frs (with_strategy o d2) R ov fuel c sels sid t p.
Proof. destruct o as [a1 a2 a3 a4 a5 a6 a7 a8 a9 a10 a11 a12 a13 a14]. reflexivity. Qed.

(* allow = warn with the marks removed — for every schema, fragment set, selection, depth *)
Theorem allow_is_warn_unmarked s frs o fuel c sels sid t p :
  calc s frs (with_strategy o DAllow) fuel (cmap unmark c) sels sid t p =
  option_map (cmap unmark) (calc s frs (with_strategy o DWarn) fuel c sels sid t p).
Proof.
  rewrite !calcG_is_calc. cbn [with_strategy o_other_variant].
  rewrite (calcG_strategy_irrelevant s frs o DAllow DWarn).
  exact (proj1 (calcG_cmap s frs (with_strategy o DWarn) (render_field (with_strategy o DWarn)) (render_field (with_strategy o DAllow))
                           (o_other_variant o) unmark (render_allow_of_warn o) fuel) c sels sid t p).
Qed.

(* deny = warn with the marked (deprecated) fields removed, and nothing else *)
Theorem deny_is_warn_without_marked s frs o fuel c sels sid t p :
  calc s frs (with_strategy o DDeny) fuel (cmap drop_marked c) sels sid t p =
  option_map (cmap drop_marked) (calc s frs (with_strategy o DWarn) fuel c sels sid t p).
Proof.
  rewrite !calcG_is_calc. cbn [with_strategy o_other_variant].
  rewrite (calcG_strategy_irrelevant s frs o DDeny DWarn).
  exact (proj1 (calcG_cmap s frs (with_strategy o DWarn) (render_field (with_strategy o DWarn)) (render_field (with_strategy o DDeny))
                           (o_other_variant o) drop_marked (render_deny_of_warn o) fuel) c sels sid t p).
Qed.

(* ---------- at the level of the emitted items: warn and allow differ by the marks only *)
Definition unmark_field (f : rfield) : rfield :=
  mkField (f_ident f) (f_ty f) (f_rename f) (f_flatten f) (f_skip_none f) None (f_deser_with f) (f_default f).
Definition unmark_item (i : ritem) : ritem :=
  match i with
  | IStruct n d c fs => IStruct n d c (map unmark_field fs)
  | _ => i
  end.

Lemma flat_map_map {A B C} (f : A -> B) (g : B -> list C) l : flat_map g (map f l) = flat_map (fun x => g (f x)) l.
Proof. induction l as [|x r IH]; [reflexivity|]. cbn [map flat_map]. rewrite IH. reflexivity. Qed.

Lemma map_flat_map' {A B C} (g : B -> C) (f : A -> list B) l :
  map g (flat_map f l) = flat_map (fun x => map g (f x)) l.
Proof. induction l as [|x r IH]; [reflexivity|]. cbn [flat_map]. rewrite map_app, IH. reflexivity. Qed.

Lemma flat_map_ext'' {A B} (f g : A -> list B) l : (forall x, f x = g x) -> flat_map f l = flat_map g l.
Proof. intros H. induction l as [|x r IH]; [reflexivity|]. cbn [flat_map]. rewrite H, IH. reflexivity. Qed.

Lemma render_ctx_unmark o c :
  render_ctx (with_strategy o DAllow) (cmap unmark c) = map unmark_item (render_ctx (with_strategy o DWarn) c).
Proof.
  unfold render_ctx. cbn [cmap c_types c_fields c_variants c_aliases].
  rewrite map_flat_map'. apply flat_map_ext''. intros [idx name].
  destruct (find _ (rev (c_aliases c))) as [[? [fn boxed]]|]; [reflexivity|].
  rewrite <- map_rev, flat_map_map.
  assert (E : flat_map (fun x : nat * option rfield =>
                 if Nat.eqb (fst (fst x, unmark (snd x))) idx
                 then match snd (fst x, unmark (snd x)) with Some y => [y] | None => [] end else []) (rev (c_fields c))
            = map unmark_field (flat_map (fun e : nat * option rfield =>
                 if Nat.eqb (fst e) idx then match snd e with Some y => [y] | None => [] end else []) (rev (c_fields c)))).
  { rewrite map_flat_map'. apply flat_map_ext''. intros [k [f|]]; cbn [fst snd unmark]; destruct (Nat.eqb k idx); reflexivity. }
  rewrite E.
  destruct (flat_map (fun e : nat * option rfield => if Nat.eqb (fst e) idx then match snd e with Some y => [y] | None => [] end else []) (rev (c_fields c))) as [|f0 fr];
    destruct (flat_map (fun e : nat * rvariant => if Nat.eqb (fst e) idx then [snd e] else []) (rev (c_variants c))) as [|v0 vr];
    cbn [map unmark_item]; try reflexivity.
  rewrite map_app. reflexivity.
Qed.

Theorem expand_root_allow_warn s frs o root sels tname prefix :
  expand_root s frs (with_strategy o DAllow) root sels tname prefix =
  option_map (map unmark_item) (expand_root s frs (with_strategy o DWarn) root sels tname prefix).
Proof.
  unfold expand_root. destruct (push_type ctx0 root) as [c sid] eqn:Ep.
  assert (Hc : cmap unmark c = c) by (inversion Ep; reflexivity).
  rewrite <- Hc at 1. rewrite allow_is_warn_unmarked.
  destruct (calc s frs (with_strategy o DWarn) _ c sels sid tname prefix) as [c'|]; cbn [option_map]; [|reflexivity].
  f_equal. apply render_ctx_unmark.
Qed.

(* non-vacuity of the maps: a marked field is unmarked / dropped, an unmarked one is left alone *)
Example strategy_maps_example :
  let f := mkField "old" (RNamed "i64") None false false (Some (Some "gone")) None false in
  let h := mkField "fresh" (RNamed "i64") None false false None None false in
  unmark (Some f) = Some (mkField "old" (RNamed "i64") None false false None None false) /\
  drop_marked (Some f) = None /\ unmark (Some h) = Some h /\ drop_marked (Some h) = Some h.
Proof. repeat split. Qed.
