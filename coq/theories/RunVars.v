(* RunVars.v — executable entry points for C04 (and the variables half of C09): a generated
   program, one operation, reference assignments and what `to_value(Op::build_query(vars)).variables`
   gave for the Variables value deserialised from each. *)
From GC Require Import Base Rust Json TypeExpr Heck Naming Schema Query Attrs Codegen Serde RunSerde RunGen Conform Compose VarSpec VarCert.
From GC.Gen Require Import Keywords.

Record vvec := mkVV { vv_label : string; vv_input : json; vv_obs : sobs }.
Record vcase := mkVC { vc_g : gcase; vc_op : string; vc_vectors : list vvec }.
Definition case := vcase.

Definition model_schema (c : vcase) : option aschema :=
  match schema_of_sdl (g_schema (vc_g c)) with Ok s => Some s | _ => None end.
Definition model_items (c : vcase) : option (list ritem) :=
  match gen_model (vc_g c) with
  | GOk ms => option_map m_items (find (fun m => String.eqb (m_operation_name m) (vc_op c)) ms)
  | _ => None
  end.
Definition op_vars (c : vcase) : list vardef :=
  match find_op (g_doc (vc_g c)) (vc_op c) with Some (_, vars, _) => vars | None => [] end.

Definition corr_gen (c : vcase) : bool := gen_corr (vc_g c).

Definition corr_serde (c : vcase) : bool :=
  match model_items c with
  | None => match vc_vectors c with [] => true | _ => false end
  | Some items =>
      forallb (fun v => match vv_obs v with
                        | SNoCompile => true
                        | _ => sobs_equiv (run_model items "Variables" true (vv_input v)) (vv_obs v)
                        end) (vc_vectors c)
  end.

Definition is_valid (c : vcase) (j : json) : bool :=
  match model_schema c with Some s => valid_variables s (op_vars c) j | None => false end.

(* what the harness calls a valid assignment is one *)
Definition corr_spec (c : vcase) : bool :=
  forallb (fun v => if String.eqb (vv_label v) "valid" then is_valid c (vv_input v) else true) (vc_vectors c).

Definition same_set (a b : list string) : bool :=
  forallb (fun x => mem_str x b) a && forallb (fun x => mem_str x a) b.

Definition out_keys (j : json) : list string := match j with JObj m => map fst m | _ => [] end.

Definition prop_c04 (c : vcase) : bool :=
  match model_schema c with
  | None => true
  | Some s =>
      let vars := op_vars c in
      let skip := o_skip_none (g_opts (vc_g c)) in
      forallb (fun v =>
        match vv_obs v with
        | SNoCompile => true
        | SOk out =>
            (* forward: whatever Variables value this is, its serialisation is valid ... *)
            valid_variables s vars out &&
            (* ... has exactly the declared keys (skip: exactly those that are not None) ... *)
            nodup_str (out_keys out) &&
            same_set (out_keys out)
                     (if skip
                      then filter (fun n => match vv_input v with
                                            | JObj m => match obj_get n m with Some x => negb (is_null x) | None => false end
                                            | _ => false end) (map vd_name vars)
                      else map vd_name vars) &&
            (* ... with explicit nulls / omitted members in every input object ... *)
            forallb (fun vd => match out with
                               | JObj m => match obj_get (vd_name vd) m with
                                           | Some x => if skip then no_null_members s (20 + 4 * jdepth x) (vd_type vd) x
                                                       else all_members_present s (20 + 4 * jdepth x) (vd_type vd) x
                                           | None => true end
                               | _ => true end) vars &&
            (* ... and says what the assignment said *)
            json_eqb (canon (drop_nulls out)) (canon (drop_nulls (vv_input v)))
        | _ =>
            (* converse: a valid assignment must be expressible *)
            negb (is_valid c (vv_input v))
        end) (vc_vectors c)
  end.

(* known class: an enum value outside the schema reaches Variables through the catch-all variant
   `Other(String)` and is written back as is *)
Definition in_enum_other (c : vcase) : bool :=
  match model_schema c with
  | None => false
  | Some s =>
      existsb (fun v => match vv_input v with
                        | JObj m => existsb (fun vd => match obj_get (vd_name vd) m with
                                                        | Some x => foreign_enum s (20 + 4 * jdepth x) (vd_type vd) x
                                                        | None => false end) (op_vars c)
                        | _ => false end) (vc_vectors c)
  end.
Definition known_enum_other (c : vcase) : bool := negb (in_enum_other c).

(* ---------- certificate (VarCert.variables_valid): for operations whose items pass `vars_ok`, every
   clean value of Variables serialises to a valid variables object; evaluated per case, and its
   prediction compared with the compiled crate *)
Definition tmap_of (c : vcase) (s : aschema) (items : list ritem) : list (string * string) :=
  let o := g_opts (vc_g c) in
  let cands :=
    map (fun n => (if mem_str n default_scalars then n else norm o n, n)) (a_scalars s) ++
    map (fun e => (norm o (fst e), fst e)) (a_enums s) ++
    map (fun i => (norm_field_type o (ai_name i), ai_name i)) (a_inputs s) in
  filter (fun p => mem_str (snd p) ["String"] ||
                   match find_item (fst p) items with Some _ => true | None => false end) cands.

Definition var_certified (c : vcase) : bool :=
  match model_schema c, model_items c with
  | Some s, Some items => vars_ok s items (tmap_of c s items) (op_vars c)
  | _, _ => false
  end.

Definition corr_varcert (c : vcase) : bool :=
  negb (var_certified c) ||
  match model_schema c, model_items c with
  | Some s, Some items =>
      forallb (fun vec =>
        match deser henv FUEL items (RNamed "Variables") (vv_input vec), vv_obs vec with
        | Some v, SOk out => negb (clean v) || valid_variables s (op_vars c) out
        | _, _ => true
        end) (vc_vectors c)
  | _, _ => true
  end.

Definition info_var_uncertified (c : vcase) : bool := var_certified c.
