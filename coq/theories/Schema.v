(* Schema.v — SDL AST, introspection AST, the abstract (name-based, order-preserving) schema and
   the two builders: models of schema/graphql_parser_conversion.rs and schema/json_conversion.rs.
   MODEL ONLY. *)
From GC Require Import Base Rust TypeExpr.
From GC.Gen Require Import Keywords.

Record fielddef := mkFD {
  fd_name : string;
  fd_type : gtype;
  fd_deprecated : option (option string)      (* Some None = deprecated without reason *)
}.

Inductive typedef :=
| DScalar (n : string)
| DEnum (n : string) (values : list string)
| DObject (n : string) (implements : list string) (fields : list fielddef)
| DInterface (n : string) (fields : list fielddef)
| DUnion (n : string) (members : list string)
| DInput (n : string) (fields : list (string * gtype)) (one_of : bool)
| DExtend (n : string) (implements : list string) (fields : list fielddef).

Record sdl_doc := mkSdl {
  sd_defs : list typedef;
  sd_schema : option (option string * option string * option string)    (* schema { query mutation subscription } *)
}.

(* ---------- abstract schema *)
Inductive kind := KScalar | KEnum | KObject | KInterface | KUnion | KInput.
Definition kind_eqb (a b : kind) : bool :=
  match a, b with
  | KScalar, KScalar | KEnum, KEnum | KObject, KObject | KInterface, KInterface | KUnion, KUnion | KInput, KInput => true
  | _, _ => false
  end.

Record aobject := mkObj { ao_name : string; ao_implements : list string; ao_fields : list fielddef }.
Record ainput := mkInp { ai_name : string; ai_fields : list (string * gtype); ai_one_of : bool }.

Record aschema := mkSchema {
  a_scalars : list string;                          (* the five built-ins first, then user scalars *)
  a_enums : list (string * list string);
  a_objects : list aobject;
  a_interfaces : list (string * list fielddef);
  a_unions : list (string * list string);
  a_inputs : list ainput;
  a_query : option string; a_mutation : option string; a_subscription : option string
}.

(* Schema::find_type — the `names` BTreeMap; later insertions win:
   default scalars < enums < objects < interfaces < unions < inputs < user scalars  (SDL path) *)
Definition find_kind_sdl (s : aschema) (n : string) : option kind :=
  if mem_str n (skipn 5 (a_scalars s)) then Some KScalar
  else if existsb (fun i => String.eqb (ai_name i) n) (a_inputs s) then Some KInput
  else if existsb (fun u => String.eqb (fst u) n) (a_unions s) then Some KUnion
  else if existsb (fun i => String.eqb (fst i) n) (a_interfaces s) then Some KInterface
  else if existsb (fun o => String.eqb (ao_name o) n) (a_objects s) then Some KObject
  else if existsb (fun e => String.eqb (fst e) n) (a_enums s) then Some KEnum
  else if mem_str n (firstn 5 (a_scalars s)) then Some KScalar
  else None.

Definition find_object (s : aschema) (n : string) : option aobject :=
  find (fun o => String.eqb (ao_name o) n) (a_objects s).
Definition find_interface (s : aschema) (n : string) : option (list fielddef) :=
  option_map snd (find (fun i => String.eqb (fst i) n) (a_interfaces s)).
Definition find_union (s : aschema) (n : string) : option (list string) :=
  option_map snd (find (fun u => String.eqb (fst u) n) (a_unions s)).
Definition find_enum (s : aschema) (n : string) : option (list string) :=
  option_map snd (find (fun e => String.eqb (fst e) n) (a_enums s)).
Definition find_input (s : aschema) (n : string) : option ainput :=
  find (fun i => String.eqb (ai_name i) n) (a_inputs s).

(* implementors of an interface, in object order (selection.rs:145, query/selection.rs:55) *)
Definition implementors (s : aschema) (iface : string) : list string :=
  map ao_name (filter (fun o => mem_str iface (ao_implements o)) (a_objects s)).

(* ---------- SDL builder (graphql_parser_conversion.rs) *)
Definition def_name (d : typedef) : string :=
  match d with
  | DScalar n | DEnum n _ | DObject n _ _ | DInterface n _ | DUnion n _ | DInput n _ _ | DExtend n _ _ => n
  end.

Section Sdl.
  Variable d : sdl_doc.
  Let defs := sd_defs d.

  Definition sdl_scalars := default_scalars ++ flat_map (fun x => match x with DScalar n => [n] | _ => [] end) defs.
  Definition sdl_enums := flat_map (fun x => match x with DEnum n vs => [(n, vs)] | _ => [] end) defs.
  Definition sdl_interfaces := flat_map (fun x => match x with DInterface n fs => [(n, fs)] | _ => [] end) defs.
  Definition sdl_unions := flat_map (fun x => match x with DUnion n ms => [(n, ms)] | _ => [] end) defs.
  Definition sdl_inputs := flat_map (fun x => match x with DInput n fs o => [mkInp n fs o] | _ => [] end) defs.
  Definition sdl_objects0 := flat_map (fun x => match x with DObject n im fs => [mkObj n im fs] | _ => [] end) defs.
  Definition sdl_extends := flat_map (fun x => match x with DExtend n im fs => [(n, (im, fs))] | _ => [] end) defs.

  (* ingest_object_type_extension: appended to the FIRST object the name resolves to *)
  Fixpoint apply_extend (objs : list aobject) (n : string) (im : list string) (fs : list fielddef) : list aobject :=
    match objs with
    | [] => []
    | o :: r => if String.eqb (ao_name o) n
                then mkObj (ao_name o) (ao_implements o ++ im) (ao_fields o ++ fs) :: r
                else o :: apply_extend r n im fs
    end.
  Definition sdl_objects :=
    fold_left (fun objs e => apply_extend objs (fst e) (fst (snd e)) (snd (snd e))) sdl_extends sdl_objects0.

  Definition sdl_pre : aschema :=
    mkSchema sdl_scalars sdl_enums sdl_objects sdl_interfaces sdl_unions sdl_inputs None None None.

  Definition obj_root (n : string) : option string :=
    match find_kind_sdl sdl_pre n with Some KObject => Some n | _ => None end.

  (* every type name mentioned must resolve (find_type_id panics otherwise); implemented names
     must be interfaces; extended names must be objects *)
  Definition names_resolve : bool :=
    let known n := match find_kind_sdl sdl_pre n with Some _ => true | None => false end in
    let is_iface n := match find_kind_sdl sdl_pre n with Some KInterface => true | _ => false end in
    let is_obj n := match find_kind_sdl sdl_pre n with Some KObject => true | _ => false end in
    forallb (fun x =>
      match x with
      | DObject n im fs => is_obj n && forallb is_iface im && forallb (fun f => known (gname (fd_type f))) fs
      | DExtend n im fs => is_obj n && forallb is_iface im && forallb (fun f => known (gname (fd_type f))) fs
      | DInterface n fs => is_iface n && forallb (fun f => known (gname (fd_type f))) fs
      | DUnion _ ms => forallb known ms
      | DInput _ fs _ => forallb (fun f => known (gname (snd f))) fs
      | _ => true
      end) defs.

  Definition schema_of_sdl : result aschema :=
    if negb names_resolve then Panic "failed to resolve TypeId"
    else
      let roots := match sd_schema d with
                   | Some (q, m, s) => (match q with Some n => obj_root n | None => None end,
                                        match m with Some n => obj_root n | None => None end,
                                        match s with Some n => obj_root n | None => None end)
                   | None => (obj_root "Query", obj_root "Mutation", obj_root "Subscription")
                   end in
      Ok (mkSchema sdl_scalars sdl_enums sdl_objects sdl_interfaces sdl_unions sdl_inputs
                   (fst (fst roots)) (snd (fst roots)) (snd roots)).
End Sdl.

(* ---------- introspection AST (the members json_conversion.rs reads) *)
Inductive tkind := TKScalar | TKObject | TKInterface | TKUnion | TKEnum | TKInputObject | TKList | TKNonNull | TKOther.

Record jfield := mkJF {
  jf_name : string;
  jf_type : typeref;
  jf_is_deprecated : option bool;
  jf_reason : option string
}.

Record jtype := mkJT {
  jt_kind : tkind;
  jt_name : string;
  jt_fields : option (list jfield);
  jt_input_fields : option (list (string * typeref));
  jt_interfaces : option (list string);
  jt_enum_values : option (list string);
  jt_possible_types : option (list string);
  jt_is_one_of : option bool
}.

Record json_schema := mkJS {
  js_query : option string; js_mutation : option string; js_subscription : option string;
  js_types : list jtype
}.
