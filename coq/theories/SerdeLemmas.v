(* SerdeLemmas.v — general lemmas about Serde.v's building blocks (used by C15, C01, C03). *)
From GC Require Import Base Rust Json Enums Serde.

(* ---------- find_field *)
Lemma find_field_some k fs f : find_field k fs = Some f -> In f fs /\ field_wire f = k.
Proof.
  induction fs as [|g r IH]; cbn [find_field]; [discriminate|].
  destruct (String.eqb_spec (field_wire g) k) as [E|E].
  - intros H. injection H as <-. split; [left; reflexivity|exact E].
  - intros H. destruct (IH H) as [H1 H2]. split; [right; exact H1|exact H2].
Qed.

Lemma find_field_none k fs : find_field k fs = None -> forall g, In g fs -> field_wire g <> k.
Proof.
  induction fs as [|g r IH]; cbn [find_field]; intros H x Hx; [destruct Hx|].
  destruct (String.eqb_spec (field_wire g) k) as [E|E]; [discriminate|].
  destruct Hx as [->|Hx]; [exact E|exact (IH H x Hx)].
Qed.

Lemma find_field_in k fs g : NoDup (map field_wire fs) -> In g fs -> field_wire g = k -> find_field k fs = Some g.
Proof.
  induction fs as [|h r IH]; intros Hnd Hin Hw; [destruct Hin|].
  cbn [find_field]. inversion Hnd as [|? ? Hni Hnd']; subst.
  destruct (String.eqb_spec (field_wire h) (field_wire g)) as [E|E].
  - destruct Hin as [->|Hin]; [reflexivity|].
    exfalso. apply Hni. rewrite E. apply in_map. exact Hin.
  - destruct Hin as [->|Hin]; [congruence|]. apply IH; auto.
Qed.

Lemma nodup_map_inj {A} (f : A -> string) (l : list A) a b :
  NoDup (map f l) -> In a l -> In b l -> f a = f b -> a = b.
Proof.
  induction l as [|x r IH]; intros Hnd Ha Hb E; [destruct Ha|].
  inversion Hnd as [|? ? Hni Hnd']; subst.
  destruct Ha as [->|Ha], Hb as [->|Hb]; try reflexivity.
  - exfalso. apply Hni. rewrite E. apply in_map. exact Hb.
  - exfalso. apply Hni. rewrite <- E. apply in_map. exact Ha.
  - apply IH; auto.
Qed.

Lemma obj_get_notin k (m : list (string * json)) : ~ In k (map fst m) -> obj_get k m = None.
Proof.
  induction m as [|[k' v] r IH]; cbn [obj_get map fst]; intros H; [reflexivity|].
  destruct (String.eqb_spec k k') as [->|E]; [exfalso; apply H; left; reflexivity|].
  apply IH. intros X. apply H. right. exact X.
Qed.

(* ---------- claim: the walk over the payload's entries *)
Section Claim.
  Variable dv : rfield -> json -> option rvalue.
  Variable own : list rfield.
  Hypothesis Hw : NoDup (map field_wire own).
  Hypothesis Hi : NoDup (map f_ident own).

  Definition not_own (e : string * json) : bool :=
    match find_field (fst e) own with Some _ => false | None => true end.

  Lemma claim_general : forall m seen rest,
    NoDup (map fst m) ->
    (forall k v f, In (k, v) m -> find_field k own = Some f -> exists x, dv f v = Some x) ->
    (forall f, In f own -> assoc (f_ident f) seen <> None -> ~ In (field_wire f) (map fst m)) ->
    exists seen',
      claim dv own m seen rest = Some (seen', rev rest ++ filter not_own m) /\
      forall f, In f own ->
        assoc (f_ident f) seen' =
          match obj_get (field_wire f) m with
          | Some v => dv f v
          | None => assoc (f_ident f) seen
          end.
  Proof.
    induction m as [|[k v] r IH]; intros seen rest Hnd Hdv Hinv.
    - exists seen. cbn [claim filter]. rewrite app_nil_r. split; [reflexivity|]. intros f _. reflexivity.
    - cbn [claim]. inversion Hnd as [|? ? Hk Hnd']; subst.
      destruct (find_field k own) as [f|] eqn:Ef.
      + destruct (find_field_some _ _ _ Ef) as [Hfin Hfw].
        assert (Hnone : assoc (f_ident f) seen = None).
        { destruct (assoc (f_ident f) seen) eqn:E; [|reflexivity].
          exfalso. apply (Hinv f Hfin); [congruence|]. rewrite Hfw. left. reflexivity. }
        rewrite Hnone.
        destruct (Hdv k v f (or_introl eq_refl) Ef) as [x Hx]. rewrite Hx.
        destruct (IH ((f_ident f, x) :: seen) rest Hnd') as [seen' [Hc Hs]].
        * intros k' v' f' Hin' Ef'. apply (Hdv k' v' f'); [right; exact Hin'|exact Ef'].
        * intros g Hg Hne. cbn [assoc] in Hne.
          destruct (String.eqb_spec (f_ident g) (f_ident f)) as [E|E].
          -- assert (g = f) by (apply (nodup_map_inj f_ident own); auto). subst g. rewrite Hfw. exact Hk.
          -- intros X. apply (Hinv g Hg Hne). right. exact X.
        * exists seen'. split.
          -- rewrite Hc. f_equal. f_equal. cbn [filter]. unfold not_own at 2. cbn [fst]. rewrite Ef. reflexivity.
          -- intros g Hg. rewrite (Hs g Hg). cbn [obj_get].
             destruct (String.eqb_spec (field_wire g) k) as [E|E].
             ++ assert (g = f).
                { apply (nodup_map_inj field_wire own); auto. congruence. }
                subst g. rewrite (obj_get_notin _ _ (eq_ind_r (fun z => ~ In z (map fst r)) Hk E)).
                cbn [assoc]. rewrite String.eqb_refl. symmetry. exact Hx.
             ++ destruct (obj_get (field_wire g) r); [reflexivity|].
                cbn [assoc]. destruct (String.eqb_spec (f_ident g) (f_ident f)) as [E2|E2]; [|reflexivity].
                exfalso. apply E. assert (g = f) by (apply (nodup_map_inj f_ident own); auto). subst g. exact Hfw.
      + destruct (IH seen ((k, v) :: rest) Hnd') as [seen' [Hc Hs]].
        * intros k' v' f' Hin' Ef'. apply (Hdv k' v' f'); [right; exact Hin'|exact Ef'].
        * intros g Hg Hne X. apply (Hinv g Hg Hne). right. exact X.
        * exists seen'. split.
          -- rewrite Hc. f_equal. f_equal. cbn [rev filter]. unfold not_own at 2. cbn [fst]. rewrite Ef.
             rewrite <- app_assoc. reflexivity.
          -- intros g Hg. rewrite (Hs g Hg). cbn [obj_get].
             destruct (String.eqb_spec (field_wire g) k) as [E|E]; [|reflexivity].
             exfalso. exact (find_field_none _ _ Ef g Hg E).
  Qed.

  Corollary claim_ok m :
    NoDup (map fst m) ->
    (forall k v f, In (k, v) m -> find_field k own = Some f -> exists x, dv f v = Some x) ->
    exists seen,
      claim dv own m [] [] = Some (seen, filter not_own m) /\
      forall f, In f own ->
        assoc (f_ident f) seen = match obj_get (field_wire f) m with Some v => dv f v | None => None end.
  Proof.
    intros Hnd Hdv.
    destruct (claim_general m [] [] Hnd Hdv) as [seen [H1 H2]].
    - intros f _ H. cbn in H. congruence.
    - exists seen. split; [exact H1|exact H2].
  Qed.

  (* a value that fails to deserialise, or a repeated own key, makes the whole struct fail *)
  Lemma claim_value_error : forall m seen rest k v f,
    NoDup (map fst m) -> In (k, v) m -> find_field k own = Some f -> dv f v = None ->
    claim dv own m seen rest = None.
  Proof.
    induction m as [|[k0 v0] r IH]; intros seen rest k v f Hnd Hin Ef Hd; [destruct Hin|].
    cbn [claim]. inversion Hnd as [|? ? Hk Hnd']; subst.
    destruct Hin as [E|Hin].
    - inversion E; subst. rewrite Ef. destruct (assoc (f_ident f) seen); [reflexivity|]. rewrite Hd. reflexivity.
    - destruct (find_field k0 own) as [g|].
      + destruct (assoc (f_ident g) seen); [reflexivity|].
        destruct (dv g v0); [|reflexivity]. eapply IH; eauto.
      + eapply IH; eauto.
  Qed.
End Claim.

(* ---------- serve without flatten members *)
Lemma serve_no_flatten D env seen fs buf :
  forallb (fun fd => negb (f_flatten fd)) fs = true ->
  serve D env seen fs buf =
    map_opt (fun fd => option_map (fun v => (f_ident fd, v)) (field_value seen fd)) fs.
Proof.
  induction fs as [|fd r IH]; intros H; [reflexivity|].
  cbn [forallb] in H. apply andb_true_iff in H. destruct H as [Hf Hr].
  cbn [serve map_opt]. apply negb_true_iff in Hf. rewrite Hf. rewrite (IH Hr).
  destruct (field_value seen fd); cbn [option_map]; [|reflexivity].
  destruct (map_opt _ r); reflexivity.
Qed.

Lemma filter_no_flatten fs :
  forallb (fun fd => negb (f_flatten fd)) fs = true -> filter (fun fd => negb (f_flatten fd)) fs = fs.
Proof.
  induction fs as [|fd r IH]; intros H; [reflexivity|].
  cbn [forallb] in H. apply andb_true_iff in H. destruct H as [Hf Hr].
  cbn [filter]. rewrite Hf. f_equal. exact (IH Hr).
Qed.

Lemma map_opt_all {A B} (f : A -> option B) (g : A -> B) l :
  (forall x, In x l -> f x = Some (g x)) -> map_opt f l = Some (map g l).
Proof.
  induction l as [|x r IH]; intros H; [reflexivity|].
  cbn [map_opt map]. rewrite (H x (or_introl eq_refl)), IH; [reflexivity|].
  intros y Hy. apply H. right. exact Hy.
Qed.

Lemma map_opt_some_inv {A B} (f : A -> option B) l ys :
  map_opt f l = Some ys -> forall x, In x l -> exists y, f x = Some y.
Proof.
  revert ys. induction l as [|x r IH]; intros ys H z Hz; [destruct Hz|].
  cbn [map_opt] in H. destruct (f x) as [y|] eqn:E; [|discriminate].
  destruct (map_opt f r) as [ys'|] eqn:E2; [|discriminate].
  destruct Hz as [->|Hz]; [exists y; exact E|exact (IH ys' eq_refl z Hz)].
Qed.

(* ---------- acceptance of a struct without flatten members *)
Section StructAccept.
  Variables (D Dh : rtype -> json -> option rvalue) (env : list ritem).
  Variable fields : list rfield.
  Hypothesis Hplain : forallb (fun fd => negb (f_flatten fd)) fields = true.
  Hypothesis Hw : NoDup (map field_wire fields).
  Hypothesis Hi : NoDup (map f_ident fields).

  (* each member: either its key is present and the value deserialises, or the key is absent
     and serde's missing-field rule provides a value *)
  Definition member_ok (m : list (string * json)) (fd : rfield) : option rvalue :=
    match obj_get (field_wire fd) m with
    | Some v => deser_field D Dh fd v
    | None => field_value [] fd
    end.

  Lemma assoc_map_key {B} (key : rfield -> string) (g : rfield -> B) (l : list rfield) x :
    NoDup (map key l) -> In x l -> assoc (key x) (map (fun y => (key y, g y)) l) = Some (g x).
  Proof.
    induction l as [|y r IH]; intros Hnd Hin; [destruct Hin|].
    inversion Hnd as [|? ? Hni Hnd']; subst. cbn [map assoc].
    destruct (String.eqb_spec (key x) (key y)) as [E|E].
    - destruct Hin as [->|Hin]; [reflexivity|].
      exfalso. apply Hni. rewrite <- E. apply in_map. exact Hin.
    - destruct Hin as [->|Hin]; [congruence|]. apply IH; auto.
  Qed.

  Theorem struct_accepts m :
    NoDup (map fst m) ->
    (forall fd, In fd fields -> member_ok m fd <> None) ->
    exists vs,
      deser_struct D Dh env fields m = Some (VStruct vs) /\
      map fst vs = map f_ident fields /\
      forall fd, In fd fields -> exists v, member_ok m fd = Some v /\ assoc (f_ident fd) vs = Some v.
  Proof.
    intros Hnd Hok. unfold deser_struct. rewrite (filter_no_flatten fields Hplain).
    destruct (claim_ok (deser_field D Dh) fields Hw Hi m Hnd) as [seen [Hc Hs]].
    - intros k v f Hin Ef. destruct (find_field_some _ _ _ Ef) as [Hfin Hfw].
      specialize (Hok f Hfin). unfold member_ok in Hok.
      assert (Hg : obj_get (field_wire f) m = Some v).
      { rewrite Hfw. clear -Hnd Hin. induction m as [|[k' v'] r IH]; [destruct Hin|].
        cbn [obj_get]. inversion Hnd as [|? ? Hk Hnd']; subst.
        destruct Hin as [E|Hin].
        - inversion E; subst. rewrite String.eqb_refl. reflexivity.
        - destruct (String.eqb_spec k k') as [->|Hne]; [|exact (IH Hnd' Hin)].
          exfalso. apply Hk. change k' with (fst (k', v)). apply in_map. exact Hin. }
      rewrite Hg in Hok. destruct (deser_field D Dh f v) as [x|]; [exists x; reflexivity|congruence].
    - rewrite Hc. rewrite (serve_no_flatten D env seen fields _ Hplain).
      set (g := fun fd => match member_ok m fd with Some v => v | None => VNone end).
      assert (Hall : forall fd, In fd fields ->
                (fun fd => option_map (fun v => (f_ident fd, v)) (field_value seen fd)) fd =
                Some ((fun fd => (f_ident fd, g fd)) fd)).
      { intros fd Hfd. cbn beta. unfold g. specialize (Hok fd Hfd). unfold member_ok in *. unfold field_value.
        rewrite (Hs fd Hfd). destruct (obj_get (field_wire fd) m) as [v|].
        - destruct (deser_field D Dh fd v) as [x|]; [reflexivity|congruence].
        - unfold field_value in Hok. cbn [assoc] in Hok.
          destruct (f_default fd); [reflexivity|].
          destruct (f_deser_with fd); [congruence|].
          destruct (is_option_type (f_ty fd)); [reflexivity|congruence]. }
      rewrite (map_opt_all _ _ fields Hall). cbn [option_map].
      eexists. split; [reflexivity|]. split.
      + rewrite map_map. reflexivity.
      + intros fd Hfd. specialize (Hok fd Hfd).
        destruct (member_ok m fd) as [v|] eqn:E; [|congruence].
        exists v. split; [reflexivity|].
        rewrite (assoc_map_key f_ident g fields fd Hi Hfd). unfold g. rewrite E. reflexivity.
  Qed.

  (* ... and the converse direction used for precision (C03): a member that is present with a
     value its type rejects makes the struct fail *)
  Theorem struct_rejects_bad_member m fd v :
    NoDup (map fst m) -> In fd fields -> In (field_wire fd, v) m -> deser_field D Dh fd v = None ->
    deser_struct D Dh env fields m = None.
  Proof.
    intros Hnd Hfd Hin Hbad. unfold deser_struct. rewrite (filter_no_flatten fields Hplain).
    rewrite (claim_value_error (deser_field D Dh) fields m [] [] (field_wire fd) v fd Hnd Hin); [reflexivity| |exact Hbad].
    apply find_field_in; auto.
  Qed.

  (* a member that is absent and not defaultable makes the struct fail *)
  Theorem struct_rejects_missing m fd :
    NoDup (map fst m) ->
    (forall k v f, In (k, v) m -> find_field k fields = Some f -> exists x, deser_field D Dh f v = Some x) ->
    In fd fields -> obj_get (field_wire fd) m = None -> field_value [] fd = None ->
    deser_struct D Dh env fields m = None.
  Proof.
    intros Hnd Hdv Hfd Habs Hmiss. unfold deser_struct. rewrite (filter_no_flatten fields Hplain).
    destruct (claim_ok (deser_field D Dh) fields Hw Hi m Hnd Hdv) as [seen [Hc Hs]].
    rewrite Hc. rewrite (serve_no_flatten D env seen fields _ Hplain).
    destruct (map_opt _ fields) as [vs|] eqn:E; [|reflexivity].
    exfalso. destruct (map_opt_some_inv _ _ _ E fd Hfd) as [y Hy].
    unfold field_value in Hy. rewrite (Hs fd Hfd), Habs in Hy.
    unfold field_value in Hmiss. cbn [assoc] in Hmiss.
    destruct (f_default fd); [discriminate|].
    destruct (f_deser_with fd); [discriminate|].
    destruct (is_option_type (f_ty fd)); discriminate.
  Qed.
End StructAccept.
