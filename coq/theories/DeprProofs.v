(* DeprProofs.v — C14: what ExpandedField::render does with a deprecation, under each strategy. *)
From GC Require Import Base Rust TypeExpr Heck Strs Naming Enums Schema Query Attrs Codegen Json Serde SerdeLemmas.

Definition with_strategy (o : opts) (d : dstrategy) : opts :=
  mkOpts (o_cli o) (o_operation_name o) (o_struct_name o) (o_variables_derives o) (o_response_derives o)
         (Some d) (o_norm_rust o) (o_custom_scalars_module o) (o_extern_enums o) (o_other_variant o)
         (o_skip_none o) (o_serde_path o) (o_visibility o) (o_query_file o).

Section R.
  Variables (o : opts) (g : option string) (rust ft : string) (quals : list qual) (fl boxed : bool).
  Notation R st depr := (render_field (with_strategy o st) g rust ft quals fl depr boxed).

  (* allow: emitted, never marked *)
  Lemma allow_emits depr : exists f, R DAllow depr = Some f /\ f_deprecated f = None /\ f_ident f = rust.
  Proof. unfold render_field, strategy; cbn. destruct depr; eexists; repeat split. Qed.

  (* warn: emitted, marked exactly with the schema's status, reason verbatim *)
  Lemma warn_emits depr : exists f, R DWarn depr = Some f /\ f_deprecated f = depr /\ f_ident f = rust.
  Proof. unfold render_field, strategy; cbn. destruct depr; eexists; repeat split. Qed.

  (* deny: omitted iff deprecated *)
  Lemma deny_omits msg : R DDeny (Some msg) = None.
  Proof. reflexivity. Qed.
  Lemma deny_keeps : exists f, R DDeny None = Some f /\ f_deprecated f = None /\ f_ident f = rust.
  Proof. unfold render_field, strategy; cbn. eexists; repeat split. Qed.

  (* a field that is not deprecated is emitted unmarked under every strategy *)
  Lemma current_untouched st : exists f, R st None = Some f /\ f_deprecated f = None.
  Proof. unfold render_field, strategy; cbn. destruct st; eexists; split; reflexivity. Qed.

  (* the strategy changes nothing but the mark / the omission *)
  Lemma strategy_only_marks st st' depr f f' :
    R st depr = Some f -> R st' depr = Some f' ->
    f_ident f = f_ident f' /\ f_ty f = f_ty f' /\ f_rename f = f_rename f' /\ f_flatten f = f_flatten f' /\
    f_skip_none f = f_skip_none f' /\ f_deser_with f = f_deser_with f' /\ f_default f = f_default f'.
  Proof.
    unfold render_field, strategy; cbn.
    destruct depr, st, st'; intros H H'; inversion H; inversion H'; cbn; repeat split; reflexivity || discriminate.
  Qed.
End R.

(* the default strategy is warn *)
Lemma default_is_warn o : o_deprecation o = None -> strategy o = DWarn.
Proof. unfold strategy. intros ->. reflexivity. Qed.

(* under deny a payload that still contains the removed key deserialises exactly as without it:
   serde's walk puts a key that no member claims aside *)
Lemma claim_skips_unknown dv own k v m seen rest :
  find_field k own = None ->
  claim dv own ((k, v) :: m) seen rest = claim dv own m seen ((k, v) :: rest).
Proof. intros H. cbn [claim]. rewrite H. reflexivity. Qed.

Lemma serve_ignores_buffer D env seen fs buf buf' :
  forallb (fun fd => negb (f_flatten fd)) fs = true -> serve D env seen fs buf = serve D env seen fs buf'.
Proof. intros H. rewrite !(serve_no_flatten D env seen fs _ H). reflexivity. Qed.

Theorem removed_key_is_ignored D Dh env fields k v m :
  forallb (fun fd => negb (f_flatten fd)) fields = true ->
  find_field k fields = None ->
  deser_struct D Dh env fields ((k, v) :: m) = deser_struct D Dh env fields m.
Proof.
  intros Hp Hk. unfold deser_struct. rewrite (filter_no_flatten fields Hp).
  rewrite claim_skips_unknown by exact Hk.
  (* the walk over m produces the same `seen`; only the collected rest differs *)
  assert (G : forall m seen rest rest',
            match claim (deser_field D Dh) fields m seen rest, claim (deser_field D Dh) fields m seen rest' with
            | Some (s1, _), Some (s2, _) => s1 = s2
            | None, None => True
            | _, _ => False
            end).
  { clear. induction m as [|[k v] r IH]; intros seen rest rest'; cbn [claim]; [reflexivity|].
    destruct (find_field k fields) as [f|].
    - destruct (assoc (f_ident f) seen); [exact I|].
      destruct (deser_field D Dh f v); [apply IH|exact I].
    - apply IH. }
  specialize (G m [] [(k, v)] []).
  destruct (claim _ fields m [] [(k, v)]) as [[s1 r1]|], (claim _ fields m [] []) as [[s2 r2]|]; try contradiction; [|reflexivity].
  subst s2. rewrite (serve_ignores_buffer D env s1 fields r1 r2 Hp). reflexivity.
Qed.
