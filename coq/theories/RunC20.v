(* RunC20.v — executable entry points for the C20 correspondence check. *)
From GC Require Import Base Cli.
From GC.Gen Require Import CliFacts.

(* refused by the command-line parser | the pair the server received (name lower-cased by HTTP) |
   accepted by the parser, nothing observable on the wire *)
Inductive hobs := HRefused | HSent (name value : list N) | HUnobserved.

Inductive case :=
(* one --header value, as code points; observation: refused by the command line (before any request),
   or the (name, value) pair the mock server received *)
| CHeader (input : list N) (obs : hobs)
(* one run: flags, server behaviour, whether an output file was asked for and pre-existed *)
| CRun (is_one_of specify_by_url : bool) (behaviour : string) (with_output pre_existing : bool)
       (exit_ok : bool)
       (sent_operation : option string)      (* operationName of the recorded request *)
       (sent_query_matches : bool)           (* the recorded `query` is the selected document, byte for byte *)
       (headers_ok auth_ok : bool)           (* every --header and the bearer token arrived *)
       (output_json_equal : option bool)     (* written file / stdout parses to the served JSON *)
       (old_file_untouched : bool).

Definition expected_operation (is_one_of specify_by_url : bool) : option string :=
  match nth_error introspection_docs (chosen_document is_one_of specify_by_url) with
  | Some (_, _, [op]) => Some op
  | _ => None
  end.

Definition lower_n (l : list N) : list N := map (fun c => if (65 <=? c) && (c <=? 90) then c + 32 else c)%N l.
(* RFC 7230 token characters: what the HTTP stack accepts in a field name *)
Definition is_tchar (c : N) : bool :=
  ((48 <=? c) && (c <=? 57) || (65 <=? c) && (c <=? 90) || (97 <=? c) && (c <=? 122) ||
   existsb (N.eqb c) [33; 35; 36; 37; 38; 39; 42; 43; 45; 46; 94; 95; 96; 124; 126])%N.
(* bytes the HTTP stack refuses in a field value *)
Definition bad_vchar (c : N) : bool := ((c <? 32) && negb (c =? 9) || (c =? 127))%N.
Definition unobservable (name value : list N) : bool :=
  negb (forallb is_tchar name) || existsb bad_vchar value || match value with [] => true | _ => false end.

Definition obs_matches (expected : option (list N * list N)) (o : hobs) : bool :=
  match expected, o with
  | None, HRefused => true
  | Some (n, v), HSent n' v' => list_eqb N.eqb (lower_n n) n' && list_eqb N.eqb v v'
  | Some (n, v), HUnobserved => unobservable n v
  | _, _ => false
  end.

(* the server behaviours under which the command must succeed: a 200 reply carrying the JSON document
   (whatever charset its Content-Type claims — a JSON text is UTF-8) *)
Definition succeeds (beh : string) : bool :=
  String.eqb beh "200-json" || String.eqb beh "200-json-charset-label".

Definition corr (c : case) : bool :=
  match c with
  | CHeader i o => obs_matches (parse_header i) o
  | CRun i s beh _ _ ok op _ _ _ _ _ =>
      Bool.eqb ok (succeeds beh) &&
      (match op with Some o => opt_eqb String.eqb (Some o) (expected_operation i s) | None => true end)
  end.

(* ---- the property on observations alone *)
(* split at the first colon, trim both sides; refuse if no colon, empty name, white space in name *)
Definition prop_header (c : case) : bool :=
  match c with
  | CHeader i o =>
      match split_colon i [] with
      | None => obs_matches None o
      | Some (n, v) =>
          let name := trim_n n in
          if match name with [] => true | _ => existsb is_ws name end
          then obs_matches None o
          else obs_matches (Some (name, trim_n v)) o
      end
  | _ => true
  end.

Definition prop_run (c : case) : bool :=
  match c with
  | CRun i s beh with_out pre ok op qm hok aok out_eq untouched =>
      if succeeds beh then
        ok && opt_eqb String.eqb op (expected_operation i s) && qm && hok && aok &&
        match out_eq with Some true => true | _ => false end
      else
        (* any failure: non-zero exit, an existing output file untouched *)
        negb ok && untouched &&
        (* when a request reached the server it was the right one *)
        match op with Some o => opt_eqb String.eqb (Some o) (expected_operation i s) && qm && hok && aok | None => true end
  | _ => true
  end.
