(* RunC20.v — executable entry points for the C20 correspondence check. *)
From GC Require Import Base Cli.
From GC.Gen Require Import CliFacts.

Inductive case :=
(* one --header value, as code points; observation: refused by the command line (before any request),
   or the (name, value) pair the mock server received *)
| CHeader (input : list N) (obs : option (list N * list N))
(* one run: flags, server behaviour, whether an output file was asked for and pre-existed *)
| CRun (is_one_of specify_by_url : bool) (behaviour : string) (with_output pre_existing : bool)
       (exit_ok : bool)
       (sent_operation : option string)      (* operationName of the recorded request *)
       (sent_query_matches : bool)           (* the recorded `query` is the selected document, byte for byte *)
       (headers_ok auth_ok : bool)           (* every --header and the bearer token arrived *)
       (output_json_equal : option bool)     (* written file / stdout parses to the served JSON *)
       (old_file_untouched : bool).

Definition header_eqb (a b : option (list N * list N)) : bool :=
  opt_eqb (fun x y => list_eqb N.eqb (fst x) (fst y) && list_eqb N.eqb (snd x) (snd y)) a b.

Definition expected_operation (is_one_of specify_by_url : bool) : option string :=
  match nth_error introspection_docs (chosen_document is_one_of specify_by_url) with
  | Some (_, _, [op]) => Some op
  | _ => None
  end.

Definition corr (c : case) : bool :=
  match c with
  | CHeader i o => header_eqb (parse_header i) o
  | CRun i s beh _ _ ok op _ _ _ _ _ =>
      Bool.eqb ok (String.eqb beh "200-json") &&
      (match op with Some o => opt_eqb String.eqb (Some o) (expected_operation i s) | None => true end)
  end.

(* ---- the property on observations alone *)
(* split at the first colon, trim both sides; refuse if no colon, empty name, white space in name *)
Definition prop_header (c : case) : bool :=
  match c with
  | CHeader i o =>
      match split_colon i [] with
      | None => match o with None => true | Some _ => false end
      | Some (n, v) =>
          let name := trim_n n in
          if match name with [] => true | _ => existsb is_ws name end
          then match o with None => true | Some _ => false end
          else header_eqb o (Some (name, trim_n v))
      end
  | _ => true
  end.

Definition prop_run (c : case) : bool :=
  match c with
  | CRun i s beh with_out pre ok op qm hok aok out_eq untouched =>
      if String.eqb beh "200-json" then
        ok && opt_eqb String.eqb op (expected_operation i s) && qm && hok && aok &&
        match out_eq with Some true => true | _ => false end
      else
        (* any failure: non-zero exit, an existing output file untouched *)
        negb ok && untouched &&
        (* when a request reached the server it was the right one *)
        match op with Some o => opt_eqb String.eqb (Some o) (expected_operation i s) && qm && hok && aok | None => true end
  | _ => true
  end.
