(* EnvelopeProofs.v — C15 over the TRANSLATED Response / Error / Location / PathFragment. *)
From GC Require Import Base Rust Json Enums Serde SerdeLemmas RunSerde Envelope.
From GC.Gen Require Import LibTypes.

Notation D f := (deser henv f lib_items).

(* ---------- one-step unfoldings *)
Lemma deser_struct_step f n nm d c fields m :
  prim_deser n (JObj m) = None -> find_item n lib_items = Some (IStruct nm d c fields) ->
  D (S f) (RNamed n) (JObj m) = deser_struct (D f) (deser henv f henv) lib_items fields m.
Proof. intros Hp Hf. cbn [deser]. rewrite Hp, Hf. reflexivity. Qed.

Lemma deser_option_step f u j :
  D (S f) (ROption u) j = if is_null j then Some VNone else option_map VSome (D f u j).
Proof. reflexivity. Qed.

Lemma deser_vec_step f u l : D (S f) (RVec u) (JArr l) = option_map VSeq (map_opt (D f u) l).
Proof. reflexivity. Qed.

Lemma map_opt_exists {A B} (g : A -> option B) l :
  (forall x, In x l -> exists y, g x = Some y) -> exists ys, map_opt g l = Some ys.
Proof.
  induction l as [|x r IH]; intros H; [exists []; reflexivity|].
  destruct (H x (or_introl eq_refl)) as [y Hy].
  destruct IH as [ys Hys]; [intros z Hz; apply H; right; exact Hz|].
  exists (y :: ys). cbn [map_opt]. rewrite Hy, Hys. reflexivity.
Qed.

Lemma keys_nodup_NoDup m : keys_nodup m = true -> NoDup (map fst m).
Proof. unfold keys_nodup. apply nodup_str_NoDup. Qed.

Ltac nodup_concrete := apply nodup_str_NoDup; vm_compute; reflexivity.

(* the translated declarations, as the proofs below need them (checked by computation against
   Gen/LibTypes.v on every run: a change of field names, order, types or renames breaks here) *)
Definition location_fields : list rfield :=
  [mkField "line" (RNamed "i32") None false false None None false;
   mkField "column" (RNamed "i32") None false false None None false].
Definition error_fields : list rfield :=
  [mkField "message" (RNamed "String") None false false None None false;
   mkField "locations" (ROption (RVec (RNamed "Location"))) None false false None None false;
   mkField "path" (ROption (RVec (RNamed "PathFragment"))) None false false None None false;
   mkField "extensions" (ROption (RMap (RNamed "serde_json::Value"))) None false false None None false].
Definition response_fields : list rfield :=
  [mkField "data" (ROption (RNamed "Data")) None false false None None false;
   mkField "errors" (ROption (RVec (RNamed "Error"))) None false false None None false;
   mkField "extensions" (ROption (RMap (RNamed "serde_json::Value"))) None false false None None false].

Definition fields_of (n : string) : option (list rfield) :=
  match find_item n lib_items with Some (IStruct _ _ _ fs) => Some fs | _ => None end.

Lemma translated_location : fields_of "Location" = Some location_fields.  Proof. vm_compute. reflexivity. Qed.
Lemma translated_error : fields_of "Error" = Some error_fields.  Proof. vm_compute. reflexivity. Qed.
Lemma translated_response : fields_of "Response" = Some response_fields.  Proof. vm_compute. reflexivity. Qed.
Lemma translated_pathfragment :
  match find_item "PathFragment" lib_items with
  | Some (IUntagged _ _ vs) => map (fun v => (v_ident v, v_payload v)) vs
  | _ => []
  end = [("Key", Some (RNamed "String")); ("Index", Some (RNamed "i32"))].
Proof. vm_compute. reflexivity. Qed.

Lemma find_struct n fs : fields_of n = Some fs -> exists nm d c, find_item n lib_items = Some (IStruct nm d c fs).
Proof.
  unfold fields_of. destruct (find_item n lib_items) as [[nm d c f| | | | | | | |]|]; try discriminate.
  intros H; inversion H; subst. eauto.
Qed.

(* ---------- acceptance *)
Lemma i32_accepts f z : in_i32 z = true -> D (S f) (RNamed "i32") (JInt z) = Some (VInt z).
Proof. intros H. cbn [deser]. unfold prim_deser. cbn. rewrite H. reflexivity. Qed.

Lemma location_accepts f j : loc_ok j = true ->
  exists v, D (S (S f)) (RNamed "Location") j = Some v.
Proof.
  destruct j as [| | | | | |m]; try discriminate. cbn [loc_ok].
  intros H. apply andb_true_iff in H. destruct H as [Hk H].
  destruct (obj_get "line" m) as [[| |l| | | |]|] eqn:El; try discriminate.
  destruct (obj_get "column" m) as [[| |c| | | |]|] eqn:Ec; try discriminate.
  apply andb_true_iff in H. destruct H as [Hl Hc].
  destruct (find_struct _ _ translated_location) as [nm [d [cc Hf]]].
  rewrite (deser_struct_step (S f) "Location" nm d cc location_fields m eq_refl Hf).
  destruct (struct_accepts (D (S f)) (deser henv (S f) henv) lib_items location_fields) with (m := m) as [vs [Hs _]].
  - reflexivity.
  - nodup_concrete.
  - nodup_concrete.
  - apply keys_nodup_NoDup. exact Hk.
  - intros fd [<-|[<-|[]]]; unfold member_ok, field_wire; cbn [f_rename f_ident].
    + rewrite El. unfold deser_field; cbn [f_deser_with f_ty]. rewrite (i32_accepts f l Hl). discriminate.
    + rewrite Ec. unfold deser_field; cbn [f_deser_with f_ty]. rewrite (i32_accepts f c Hc). discriminate.
  - exists (VStruct vs). exact Hs.
Qed.

Lemma path_elem_accepts f j : path_elem_ok j = true ->
  exists v, D (S (S f)) (RNamed "PathFragment") j = Some v.
Proof.
  destruct j as [| |z| |s| |]; try discriminate; cbn [path_elem_ok]; intros H.
  - (* integer: Key(String) refuses, Index(i32) accepts *)
    eexists. cbn [deser]. unfold prim_deser at 1. cbn. rewrite H. reflexivity.
  - eexists. cbn [deser]. unfold prim_deser at 1. cbn. reflexivity.
Qed.

Lemma vec_accepts f u l :
  (forall x, In x l -> exists v, D f u x = Some v) -> exists v, D (S f) (RVec u) (JArr l) = Some v.
Proof.
  intros H. rewrite deser_vec_step. destruct (map_opt_exists _ _ H) as [ys Hy]. rewrite Hy. eexists. reflexivity.
Qed.

Lemma forallb_In {A} (p : A -> bool) l : forallb p l = true -> forall x, In x l -> p x = true.
Proof. intros H. apply forallb_forall. exact H. Qed.

(* HashMap<String, serde_json::Value>: every object is accepted *)
Lemma deser_map_total (Dx : rtype -> json -> option rvalue) u m :
  (forall v, exists x, Dx u v = Some x) -> exists r, deser_map Dx u m = Some r.
Proof.
  intros H. unfold deser_map.
  assert (G : forall acc, exists r, fold_left
            (fun acc e => match acc, Dx u (snd e) with
                          | Some a, Some v => Some (insert_kv (fst e) v a) | _, _ => None end) m (Some acc) = Some r).
  { induction m as [|[k v] r IH]; intros acc; [exists acc; reflexivity|].
    cbn [fold_left fst snd]. destruct (H v) as [x Hx]. rewrite Hx. apply IH. }
  destruct (G []) as [r Hr]. rewrite Hr. eexists. reflexivity.
Qed.

Lemma ext_map_accepts f m : exists v, D (S (S f)) (RMap (RNamed "serde_json::Value")) (JObj m) = Some v.
Proof.
  change (D (S (S f)) (RMap (RNamed "serde_json::Value")) (JObj m))
    with (deser_map (D (S f)) (RNamed "serde_json::Value") m).
  apply deser_map_total. intros v. exists (VJson v). reflexivity.
Qed.

(* an optional member given through opt_member *)
Lemma opt_member_accepts f u k m (ok : json -> bool) :
  opt_member k m ok = true ->
  (forall v, ok v = true -> is_null v = false -> exists x, D f u v = Some x) ->
  match obj_get k m with
  | Some v => D (S f) (ROption u) v
  | None => Some VNone
  end <> None.
Proof.
  unfold opt_member. intros H Hok. destruct (obj_get k m) as [v|]; [|discriminate].
  rewrite deser_option_step. destruct (is_null v) eqn:En; [discriminate|].
  assert (Hv : ok v = true) by (destruct v; try exact H; discriminate).
  destruct (Hok v Hv En) as [x Hx]. rewrite Hx. discriminate.
Qed.

Lemma error_accepts f j : error_ok j = true ->
  exists v, D (6 + f) (RNamed "Error") j = Some v.
Proof.
  destruct j as [| | | | | |m]; try discriminate. cbn [error_ok].
  intros H.
  apply andb_true_iff in H; destruct H as [H Hext]. apply andb_true_iff in H; destruct H as [H Hpath].
  apply andb_true_iff in H; destruct H as [H Hloc]. apply andb_true_iff in H; destruct H as [Hk Hmsg].
  destruct (find_struct _ _ translated_error) as [nm [d [cc Hf]]].
  change (6 + f) with (S (5 + f)).
  rewrite (deser_struct_step (5 + f) "Error" nm d cc error_fields m eq_refl Hf).
  destruct (struct_accepts (D (5 + f)) (deser henv (5 + f) henv) lib_items error_fields) with (m := m) as [vs [Hs _]].
  - reflexivity.
  - nodup_concrete.
  - nodup_concrete.
  - apply keys_nodup_NoDup. exact Hk.
  - intros fd [<-|[<-|[<-|[<-|[]]]]]; unfold member_ok, field_wire, deser_field, field_value;
      cbn [f_rename f_ident f_deser_with f_ty f_default assoc is_option_type strip_box].
    + destruct (obj_get "message" m) as [[| | | |s| |]|]; try discriminate.
    + change (5 + f) with (S (4 + f)).
      apply (opt_member_accepts (4 + f) (RVec (RNamed "Location")) "locations" m _ Hloc).
      intros v Hv _. destruct v as [| | | | |l|]; try discriminate.
      change (4 + f) with (S (S (S (1 + f)))). apply vec_accepts. intros x Hx.
      apply location_accepts. exact (forallb_In _ _ Hv x Hx).
    + change (5 + f) with (S (4 + f)).
      apply (opt_member_accepts (4 + f) (RVec (RNamed "PathFragment")) "path" m _ Hpath).
      intros v Hv _. destruct v as [| | | | |l|]; try discriminate.
      change (4 + f) with (S (S (S (1 + f)))). apply vec_accepts. intros x Hx.
      apply path_elem_accepts. exact (forallb_In _ _ Hv x Hx).
    + change (5 + f) with (S (4 + f)).
      apply (opt_member_accepts (4 + f) (RMap (RNamed "serde_json::Value")) "extensions" m _ Hext).
      intros v Hv _. destruct v as [| | | | | |e]; try discriminate.
      change (4 + f) with (S (S (2 + f))). apply ext_map_accepts.
  - exists (VStruct vs). exact Hs.
Qed.

Theorem response_accepts f j : body_ok j = true ->
  exists v, D (9 + f) (RNamed "Response") j = Some v.
Proof.
  destruct j as [| | | | | |m]; try discriminate. cbn [body_ok].
  intros H.
  apply andb_true_iff in H; destruct H as [H Hext]. apply andb_true_iff in H; destruct H as [Hk Herr].
  destruct (find_struct _ _ translated_response) as [nm [d [cc Hf]]].
  change (9 + f) with (S (8 + f)).
  rewrite (deser_struct_step (8 + f) "Response" nm d cc response_fields m eq_refl Hf).
  destruct (struct_accepts (D (8 + f)) (deser henv (8 + f) henv) lib_items response_fields) with (m := m) as [vs [Hs _]].
  - reflexivity.
  - nodup_concrete.
  - nodup_concrete.
  - apply keys_nodup_NoDup. exact Hk.
  - intros fd [<-|[<-|[<-|[]]]]; unfold member_ok, field_wire, deser_field, field_value;
      cbn [f_rename f_ident f_deser_with f_ty f_default assoc is_option_type strip_box].
    + (* data: any JSON (the data type is opaque here) *)
      destruct (obj_get "data" m) as [v|]; [|discriminate].
      change (8 + f) with (S (7 + f)). rewrite deser_option_step.
      destruct (is_null v); [discriminate|].
      change (D (7 + f) (RNamed "Data") v) with (Some (VJson v)). discriminate.
    + change (8 + f) with (S (7 + f)).
      apply (opt_member_accepts (7 + f) (RVec (RNamed "Error")) "errors" m _ Herr).
      intros v Hv _. destruct v as [| | | | |l|]; try discriminate.
      change (7 + f) with (S (6 + f)). apply vec_accepts. intros x Hx.
      apply error_accepts. exact (forallb_In _ _ Hv x Hx).
    + change (8 + f) with (S (7 + f)).
      apply (opt_member_accepts (7 + f) (RMap (RNamed "serde_json::Value")) "extensions" m _ Hext).
      intros v Hv _. destruct v as [| | | | | |e]; try discriminate.
      change (7 + f) with (S (S (5 + f))). apply ext_map_accepts.
  - exists (VStruct vs). exact Hs.
Qed.

Corollary response_accepts_FUEL j : body_ok j = true ->
  exists v, deser henv FUEL lib_items (RNamed "Response") j = Some v.
Proof. intros H. change FUEL with (9 + 391). apply response_accepts. exact H. Qed.

(* ---------- Display *)
Definition json_show (x : json) : string :=
  match x with JStr s => s | JInt z => decimal z | _ => "" end.

Lemma path_elem_value f x : path_elem_ok x = true ->
  exists v, D (S (S f)) (RNamed "PathFragment") x = Some v /\ show_fragment v = json_show x.
Proof.
  destruct x as [| |z| |s| |]; try discriminate; cbn [path_elem_ok]; intros H.
  - eexists. split; [cbn [deser]; unfold prim_deser at 1; cbn; rewrite H; reflexivity|reflexivity].
  - eexists. split; [cbn [deser]; unfold prim_deser at 1; cbn; reflexivity|reflexivity].
Qed.

Lemma path_value f l : forallb path_elem_ok l = true ->
  exists frs, map_opt (D (S (S f)) (RNamed "PathFragment")) l = Some frs /\
              map show_fragment frs = map json_show l.
Proof.
  induction l as [|x r IH]; intros H; [exists []; split; reflexivity|].
  cbn [forallb] in H. apply andb_true_iff in H. destruct H as [Hx Hr].
  destruct (path_elem_value f x Hx) as [v [Hv Hs]]. destruct (IH Hr) as [frs [Hf Hm]].
  exists (v :: frs). split; [cbn [map_opt]; rewrite Hv, Hf; reflexivity|cbn [map]; rewrite Hs, Hm; reflexivity].
Qed.

Lemma location_value f m : loc_ok (JObj m) = true ->
  exists vs a b, D (S (S f)) (RNamed "Location") (JObj m) = Some (VStruct vs) /\
    obj_get "line" m = Some (JInt a) /\ obj_get "column" m = Some (JInt b) /\
    assoc "line" vs = Some (VInt a) /\ assoc "column" vs = Some (VInt b).
Proof.
  cbn [loc_ok]. intros H. apply andb_true_iff in H. destruct H as [Hk H].
  destruct (obj_get "line" m) as [[| |l| | | |]|] eqn:El; try discriminate.
  destruct (obj_get "column" m) as [[| |c| | | |]|] eqn:Ec; try discriminate.
  apply andb_true_iff in H. destruct H as [Hl Hc].
  destruct (find_struct _ _ translated_location) as [nm [d [cc Hf]]].
  rewrite (deser_struct_step (S f) "Location" nm d cc location_fields m eq_refl Hf).
  destruct (struct_accepts (D (S f)) (deser henv (S f) henv) lib_items location_fields) with (m := m) as [vs [Hs [_ Hv]]].
  - reflexivity.
  - nodup_concrete.
  - nodup_concrete.
  - apply keys_nodup_NoDup. exact Hk.
  - intros fd [<-|[<-|[]]]; unfold member_ok, field_wire; cbn [f_rename f_ident].
    + rewrite El. unfold deser_field; cbn [f_deser_with f_ty]. rewrite (i32_accepts f l Hl). discriminate.
    + rewrite Ec. unfold deser_field; cbn [f_deser_with f_ty]. rewrite (i32_accepts f c Hc). discriminate.
  - exists vs, l, c. split; [exact Hs|]. split; [reflexivity|]. split; [reflexivity|].
    destruct (Hv (mkField "line" (RNamed "i32") None false false None None false) (or_introl eq_refl)) as [v1 [H1 H1']].
    destruct (Hv (mkField "column" (RNamed "i32") None false false None None false) (or_intror (or_introl eq_refl))) as [v2 [H2 H2']].
    unfold member_ok, field_wire, deser_field in H1, H2; cbn [f_rename f_ident f_deser_with f_ty] in H1, H2.
    rewrite El, (i32_accepts f l Hl) in H1. rewrite Ec, (i32_accepts f c Hc) in H2.
    inversion H1; inversion H2; subst. split; assumption.
Qed.

Theorem error_display f j : error_ok j = true ->
  exists v, D (6 + f) (RNamed "Error") j = Some v /\ display_error v = display_spec j.
Proof.
  destruct j as [| | | | | |m]; try discriminate. cbn [error_ok].
  intros H.
  apply andb_true_iff in H; destruct H as [H Hext]. apply andb_true_iff in H; destruct H as [H Hpath].
  apply andb_true_iff in H; destruct H as [H Hloc]. apply andb_true_iff in H; destruct H as [Hk Hmsg].
  destruct (find_struct _ _ translated_error) as [nm [d [cc Hf]]].
  change (6 + f) with (S (5 + f)).
  rewrite (deser_struct_step (5 + f) "Error" nm d cc error_fields m eq_refl Hf).
  destruct (struct_accepts (D (5 + f)) (deser henv (5 + f) henv) lib_items error_fields) with (m := m) as [vs [Hs [_ Hv]]].
  - reflexivity.
  - nodup_concrete.
  - nodup_concrete.
  - apply keys_nodup_NoDup. exact Hk.
  - intros fd [<-|[<-|[<-|[<-|[]]]]]; unfold member_ok, field_wire, deser_field, field_value;
      cbn [f_rename f_ident f_deser_with f_ty f_default assoc is_option_type strip_box].
    + destruct (obj_get "message" m) as [[| | | |s| |]|]; try discriminate.
    + change (5 + f) with (S (4 + f)).
      apply (opt_member_accepts (4 + f) (RVec (RNamed "Location")) "locations" m _ Hloc).
      intros v Hv' _. destruct v as [| | | | |l|]; try discriminate.
      change (4 + f) with (S (S (S (1 + f)))). apply vec_accepts. intros x Hx.
      apply location_accepts. exact (forallb_In _ _ Hv' x Hx).
    + change (5 + f) with (S (4 + f)).
      apply (opt_member_accepts (4 + f) (RVec (RNamed "PathFragment")) "path" m _ Hpath).
      intros v Hv' _. destruct v as [| | | | |l|]; try discriminate.
      change (4 + f) with (S (S (S (1 + f)))). apply vec_accepts. intros x Hx.
      apply path_elem_accepts. exact (forallb_In _ _ Hv' x Hx).
    + change (5 + f) with (S (4 + f)).
      apply (opt_member_accepts (4 + f) (RMap (RNamed "serde_json::Value")) "extensions" m _ Hext).
      intros v Hv' _. destruct v as [| | | | | |e]; try discriminate.
      change (4 + f) with (S (S (2 + f))). apply ext_map_accepts.
  - exists (VStruct vs). split; [exact Hs|].
    (* the three members Display reads *)
    destruct (Hv (mkField "message" (RNamed "String") None false false None None false) (or_introl eq_refl)) as [vm [Hm Hm']].
    destruct (Hv (mkField "locations" (ROption (RVec (RNamed "Location"))) None false false None None false)
                 (or_intror (or_introl eq_refl))) as [vl [Hl Hl']].
    destruct (Hv (mkField "path" (ROption (RVec (RNamed "PathFragment"))) None false false None None false)
                 (or_intror (or_intror (or_introl eq_refl)))) as [vp [Hp Hp']].
    unfold member_ok, field_wire, deser_field, field_value in Hm, Hl, Hp;
      cbn [f_rename f_ident f_deser_with f_ty f_default assoc is_option_type strip_box] in Hm, Hl, Hp.
    cbn [f_ident] in Hm', Hl', Hp'.
    unfold display_error, display_spec, get_field. rewrite Hm', Hl', Hp'.
    (* message *)
    assert (Emsg : match vm with VStr s => s | _ => "" end =
                   match obj_get "message" m with Some (JStr s) => s | _ => "" end).
    { destruct (obj_get "message" m) as [[| | | |s| |]|]; try discriminate.
      change (5 + f) with (S (4 + f)) in Hm. cbn [deser] in Hm. unfold prim_deser in Hm. cbn in Hm.
      inversion Hm. reflexivity. }
    (* path *)
    assert (Epath : match vp with VSome (VSeq frs) => display_path frs | _ => "<query>" end =
                    match obj_get "path" m with
                    | Some (JArr l) => join_str "/" (map json_show l)
                    | _ => "<query>" end).
    { unfold opt_member in Hpath. destruct (obj_get "path" m) as [pv|]; [|inversion Hp; reflexivity].
      change (5 + f) with (S (4 + f)) in Hp. rewrite deser_option_step in Hp.
      destruct pv as [| | | | |l|]; try discriminate; cbn [is_null] in Hp.
      - inversion Hp. reflexivity.
      - change (4 + f) with (S (S (S (1 + f)))) in Hp. rewrite deser_vec_step in Hp.
        destruct (path_value (1 + f) l Hpath) as [frs [Hfr Hsh]]. rewrite Hfr in Hp. cbn [option_map] in Hp.
        inversion Hp. unfold display_path. rewrite Hsh. reflexivity. }
    (* first location *)
    assert (Eloc : match vl with
                   | VSome (VSeq (VStruct l :: _)) =>
                       match assoc "line" l, assoc "column" l with
                       | Some (VInt a), Some (VInt b) => (a, b) | _, _ => (0%Z, 0%Z) end
                   | _ => (0%Z, 0%Z) end =
                   match obj_get "locations" m with
                   | Some (JArr (JObj l :: _)) =>
                       match obj_get "line" l, obj_get "column" l with
                       | Some (JInt a), Some (JInt b) => (a, b) | _, _ => (0%Z, 0%Z) end
                   | _ => (0%Z, 0%Z) end).
    { unfold opt_member in Hloc. destruct (obj_get "locations" m) as [lv|]; [|inversion Hl; reflexivity].
      change (5 + f) with (S (4 + f)) in Hl. rewrite deser_option_step in Hl.
      destruct lv as [| | | | |l|]; try discriminate; cbn [is_null] in Hl.
      - inversion Hl. reflexivity.
      - change (4 + f) with (S (S (S (1 + f)))) in Hl. rewrite deser_vec_step in Hl.
        destruct l as [|x r].
        + cbn in Hl. inversion Hl. reflexivity.
        + cbn [forallb] in Hloc. apply andb_true_iff in Hloc. destruct Hloc as [Hx Hr].
          destruct x as [| | | | | |lm]; try discriminate.
          destruct (location_value (1 + f) lm Hx) as [lvs [a [b [Hd [Ha [Hb [Ha' Hb']]]]]]].
          cbn [map_opt] in Hl. rewrite Hd in Hl.
          destruct (map_opt _ r) as [rest|]; [|discriminate]. cbn [option_map] in Hl.
          inversion Hl. rewrite Ha, Hb, Ha', Hb'. reflexivity. }
    cbn [get_field] in *. rewrite Emsg, Epath, Eloc. reflexivity.
Qed.

(* the pre-repair rendering is refuted by a concrete spec-shaped error *)
Theorem display_prefix_refuted :
  display_path_prefix [VVariant "Key" (Some (VStr "a/"))] = "a" /\
  display_path [VVariant "Key" (Some (VStr "a/"))] = "a/".
Proof. vm_compute. split; reflexivity. Qed.
