(* RunC09.v — executable entry points for C09: one program under several settings of the options
   that are documented as wire-neutral; the same response payloads and variable assignments are
   run under each of them. *)
From GC Require Import Base Rust Json TypeExpr Schema Query Attrs Codegen Serde RunSerde RunGen.

Record variant := mkVar9 {
  v9_what : string;                 (* which option was changed *)
  v9_g : gcase;                     (* same schema and document, this variant's options and emitted modules *)
  v9_resp : list sobs;              (* one per response payload *)
  v9_vars : list sobs;              (* one per variables assignment *)
  v9_envelope : sobs                (* [operationName; query] of the serialised request body *)
}.

Record c09case := mkC09 {
  c9_op : string;
  c9_payloads : list json;
  c9_assignments : list json;
  c9_with_ser : bool;
  c9_variants : list variant        (* the first one is the base *)
}.
Definition case := c09case.

Definition items_of (v : variant) (op : string) : option (list ritem) :=
  match gen_model (v9_g v) with
  | GOk ms => option_map m_items (find (fun m => String.eqb (m_operation_name m) op) ms)
  | _ => None
  end.

Definition corr_gen (c : c09case) : bool := forallb (fun v => gen_corr (v9_g v)) (c9_variants c).

Fixpoint all2 {A B} (f : A -> B -> bool) (a : list A) (b : list B) : bool :=
  match a, b with
  | [], [] => true
  | x :: r, y :: s => f x y && all2 f r s
  | _, _ => false
  end.

Definition compiled (v : variant) : bool :=
  forallb (fun o => match o with SNoCompile => false | _ => true end) (v9_envelope v :: v9_resp v ++ v9_vars v).

(* an externally defined enum is the consumer crate's type: opaque to Serde.v, so such variants are
   judged on the observations only (prop_c09) *)
Definition has_extern (v : variant) : bool :=
  match o_extern_enums (g_opts (v9_g v)) with [] => false | _ => true end.

Definition corr_serde (c : c09case) : bool :=
  forallb (fun v =>
    negb (compiled v) || has_extern v ||
    match items_of v (c9_op c) with
    | None => false
    | Some items =>
        all2 (fun p o => sobs_equiv (run_model items "ResponseData" (c9_with_ser c) p) o) (c9_payloads c) (v9_resp v) &&
        all2 (fun a o => sobs_equiv (run_model items "Variables" true a) o) (c9_assignments c) (v9_vars v) &&
        (* the request names the operation as the document does *)
        match v9_envelope v with
        | SOk (JArr [JStr n; JStr _]) => String.eqb n (c9_op c)
        | _ => false
        end
    end) (c9_variants c).

(* the property, on the observations of the compiled consumer crates alone: every variant that
   compiles behaves exactly like the base on every vector *)
Definition prop_c09 (c : c09case) : bool :=
  match c9_variants c with
  | [] => true
  | base :: others =>
      negb (compiled base) ||
      forallb (fun v => negb (compiled v) ||
                        (all2 sobs_equiv (v9_resp base) (v9_resp v) && all2 sobs_equiv (v9_vars base) (v9_vars v) &&
                         sobs_equiv (v9_envelope base) (v9_envelope v))) others
  end.

(* ... and the same statement about the models (a disagreement here that the consumer crates do
   not show would be a modelling error) *)
Definition model_neutral (c : c09case) : bool :=
  match c9_variants c with
  | [] => true
  | base :: others =>
      match items_of base (c9_op c) with
      | None => true
      | Some bi =>
          forallb (fun v => has_extern v ||
                            match items_of v (c9_op c) with
                            | None => true
                            | Some vi =>
                                forallb (fun p => sobs_equiv (run_model bi "ResponseData" (c9_with_ser c) p)
                                                             (run_model vi "ResponseData" (c9_with_ser c) p)) (c9_payloads c) &&
                                forallb (fun a => sobs_equiv (run_model bi "Variables" true a) (run_model vi "Variables" true a))
                                        (c9_assignments c)
                            end) others
      end
  end.
