(* RunC14.v — executable entry points for the C14 correspondence check. *)
From GC Require Import Base Rust TypeExpr Heck Strs Naming Enums Schema Query Attrs Codegen RunGen Serde.

Definition case := gcase.
Definition corr := gen_corr.

(* ---- property oracle: walks the OBSERVED items, guided by the resolved selection.
   For a struct `sname` and the selection set it was generated from: every directly selected
   field f (wire key = alias or name) must be
     allow: present, unmarked          warn: present, marked iff the schema deprecates it, reason verbatim
     deny : absent iff deprecated      and never marked / omitted when not deprecated. *)
Fixpoint leaf_name (t : rtype) : string :=
  match t with RNamed n => n | ROption u | RVec u | RBox u | RMap u => leaf_name u end.

Definition struct_fields (items : list ritem) (n : string) : option (list rfield) :=
  match find_item n items with Some (IStruct _ _ _ fs) => Some fs | _ => None end.

Fixpoint check_sels (fuel : nat) (st : dstrategy) (items : list ritem) (sname : string) (l : list rsel) {struct fuel} : bool :=
  match fuel with
  | O => true
  | S f =>
      match struct_fields items sname with
      | None =>
          (* alias / enum-only type: covered by the model correspondence; but a selection WITH fields
             must stay something that accepts an object carrying them ("payloads that contain the
             field still deserialize"): a unit struct only takes null *)
          match find_item sname items with
          | Some (IUnit _ _ _) => negb (existsb (fun x => match x with RField _ _ _ => true | _ => false end) l)
          | _ => true
          end
      | Some fs =>
          forallb (fun x =>
            match x with
            | RField alias fd sub =>
                let key := selected_name alias fd in
                match find_field key fs, fd_deprecated fd, st with
                | None, Some _, DDeny => true                             (* omitted *)
                | None, _, _ => false                                      (* a field went missing *)
                | Some _, Some _, DDeny => false                           (* deny must omit *)
                | Some rf, d, DWarn =>
                    opt_eqb (opt_eqb String.eqb) (f_deprecated rf) d &&
                    (match sub with [] => true | _ => check_sels f st items (leaf_name (f_ty rf)) sub end)
                | Some rf, _, _ =>
                    (match f_deprecated rf with None => true | Some _ => false end) &&
                    (match sub with [] => true | _ => check_sels f st items (leaf_name (f_ty rf)) sub end)
                end
            | _ => true
            end) l
      end
  end.

Definition prop_depr (c : gcase) : bool :=
  match g_obs c, schema_of_sdl (g_schema c) with
  | GOk ms, Ok s =>
      match resolve s (g_doc c) with
      | Ok q =>
          forallb (fun m =>
            match select_operation (g_opts c) (rq_ops q) (norm (g_opts c) (m_operation_name m)) with
            | Some op => check_sels 50 (strategy (g_opts c)) (m_items m) "ResponseData" (ro_sel op) &&
                         forallb (fun fr => check_sels 50 (strategy (g_opts c)) (m_items m) (rf_name fr) (rf_sel fr)) (rq_frags q)
            | None => false
            end) ms
      | _ => true
      end
  | _, _ => true
  end.

(* how many cases actually contain a selected deprecated field *)
Fixpoint has_deprecated (x : rsel) : bool :=
  match x with
  | RField _ fd sub => (match fd_deprecated fd with Some _ => true | None => false end) || existsb has_deprecated sub
  | RInline _ sub => existsb has_deprecated sub
  | _ => false
  end.
Definition exercises (c : gcase) : bool :=
  match schema_of_sdl (g_schema c) with
  | Ok s => match resolve s (g_doc c) with
            | Ok q => negb (existsb (fun op => existsb has_deprecated (ro_sel op)) (rq_ops q) ||
                            existsb (fun fr => existsb has_deprecated (rf_sel fr)) (rq_frags q))
            | _ => true end
  | _ => true
  end.
