(* RunC06.v — executable entry points for the C06 correspondence check. *)
From GC Require Import Base Rust TypeExpr Heck Strs Naming Enums Schema Query Attrs Codegen RunGen.

Record case := mkCase {
  c_gen : gcase;
  c_edit : option string        (* the single invalidating edit applied (None = the valid original) *)
}.

Definition corr (c : case) : bool := gen_class (c_gen c) && match c_edit c with None => gen_corr (c_gen c) | Some _ => true end.

(* the property: an invalidated document never yields code *)
Definition prop_rejected (c : case) : bool :=
  match c_edit c, g_obs (c_gen c) with
  | Some _, GOk _ => false
  | Some _, GUnparsable => false
  | _, _ => true
  end.

(* known finding K9: a composite field without a sub-selection is accepted *)
Definition known_composite_without_subselection (c : case) : bool :=
  negb (match c_edit c with Some e => String.eqb e "no_subselection_on_composite" | None => false end).

(* the valid originals must be accepted (otherwise the edits prove nothing) *)
Definition original_accepted (c : case) : bool :=
  match c_edit c, g_obs (c_gen c) with
  | None, GOk _ => true
  | None, _ => false
  | _, _ => true
  end.
