(* RunC02.v — executable entry points for C02: a program, and what rustc said about the emitted code
   in each delivery form. *)
From GC Require Import Base Rust Json TypeExpr Heck Schema Query Attrs Codegen Serde RunGen Closed.

Record form := mkForm {
  fm_name : string;                 (* library | cli | derive | derive-without-serde *)
  fm_generated : bool;              (* the delivery form produced code at all *)
  fm_compiled : bool;
  fm_errors : list string           (* rustc error codes *)
}.

Record c02case := mkC02 {
  c2_g : gcase;
  c2_expect_ok : bool;              (* a directed program that is valid by construction *)
  c2_forms : list form
}.
Definition case := c02case.

Definition corr_gen (c : c02case) : bool := gen_corr (c2_g c).

Definition model_modules (c : c02case) : list rmodule :=
  match gen_model (c2_g c) with GOk ms => ms | _ => [] end.

(* names the module takes from its parent: externally defined enums, under the configured spelling *)
Definition imported_names (c : c02case) : list string :=
  let o := g_opts (c2_g c) in
  flat_map (fun e => [e; norm o e]) (o_extern_enums o).

Definition static_ok (c : c02case) : bool :=
  forallb (fun m => items_closed (m_items m) (imported_names c) && idents_distinct (m_items m)) (model_modules c).

Definition form_named (c : c02case) (n : string) : option form :=
  find (fun f => String.eqb (fm_name f) n) (c2_forms c).

(* if rustc accepted the library form, the static conditions hold on the model's items
   (equivalently: when they fail, rustc must refuse) *)
Definition corr_static (c : c02case) : bool :=
  match form_named c "library" with
  | Some f => negb (fm_compiled f) || static_ok c
  | None => true
  end.

(* the property: accepted, and every delivery form type-checks *)
Definition prop_c02 (c : c02case) : bool :=
  (negb (c2_expect_ok c) || match g_obs (c2_g c) with GOk _ => true | _ => false end) &&
  match g_obs (c2_g c) with
  | GOk _ => forallb (fun f => fm_generated f && fm_compiled f) (c2_forms c)
  | _ => true
  end.

(* ---------- known classes *)
(* identifiers that collide inside an item, or two items with one name (C10's K3/K4) *)
Definition in_ident_collision (c : c02case) : bool :=
  existsb (fun m => negb (nodup_str (map item_name (m_items m))) || negb (idents_distinct (m_items m))) (model_modules c).
Definition known_ident_collision (c : c02case) : bool := negb (in_ident_collision c).

(* the operation's struct and its module get the same name *)
Definition in_op_module_clash (c : c02case) : bool :=
  existsb (fun m => String.eqb (m_name m) (m_impl_for m)) (model_modules c).
Definition known_op_module_clash (c : c02case) : bool := negb (in_op_module_clash c).

(* `Default` among the derives of a type that cannot have one: an @oneOf enum, or a struct with a
   non-optional member of enum / @oneOf / externally defined type *)
Definition top_named (t : rtype) : option string :=
  match strip_box t with RNamed n => Some n | _ => None end.
Definition default_blocked (items : list ritem) (imported : list string) : bool :=
  existsb (fun i =>
    match i with
    | IExtEnum _ d _ _ => mem_str "Default" d
    | IStruct _ d _ fs =>
        mem_str "Default" d &&
        existsb (fun f => match top_named (f_ty f) with
                          | Some n => match find_item n items with
                                      | Some (IStrEnum _ _ _ _ _ _ _) | Some (IExtEnum _ _ _ _) => true
                                      | None => mem_str n imported
                                      | _ => false end
                          | None => false end) fs
    | _ => false
    end) items.
Definition in_default_derive (c : c02case) : bool :=
  existsb (fun m => default_blocked (m_items m) (imported_names c)) (model_modules c).
Definition known_default_derive (c : c02case) : bool := negb (in_default_derive c).

(* K14: a variable whose DEFAULT VALUE is of enum or input-object type.  The default_<name>() body is
   rendered from the GraphQL literal without the generated names: an enum value as a bare identifier,
   object members under their schema spelling, no Box / Option wrapping below the top level. *)
Definition in_default_value_rendering (c : c02case) : bool :=
  match schema_of_sdl (g_schema (c2_g c)) with
  | Ok s =>
      existsb (fun d =>
        match d with
        | QOp _ _ vars _ =>
            existsb (fun v => vd_has_default v &&
                              match find_kind_sdl s (gname (vd_type v)) with
                              | Some KEnum | Some KInput => true
                              | _ => false
                              end) vars
        | _ => false
        end) (g_doc (c2_g c))
  | _ => false
  end.
Definition known_default_value_rendering (c : c02case) : bool := negb (in_default_value_rendering c).

(* K15: a GraphQL type (enum, input, object ...), fragment or operation whose NAME is a Rust keyword is
   emitted as an item of that name: the module is not Rust *)
Definition in_keyword_type_name (c : c02case) : bool :=
  match gen_model (c2_g c) with GUnparsable => true | _ => false end.
Definition known_keyword_type_name (c : c02case) : bool := negb (in_keyword_type_name c).
