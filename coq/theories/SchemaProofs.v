(* SchemaProofs.v — C07: the JSON builder applied to the introspection rendering of an SDL
   document yields the abstract schema the SDL builder yields. *)
From GC Require Import Base Rust TypeExpr Schema SchemaJson.
From GC.Gen Require Import Keywords.

Lemma typeref_roundtrip t : gtype_of_typeref (typeref_of t) = Some t.
Proof. induction t as [n|u IH|u IH]; cbn; [reflexivity| |]; rewrite IH; reflexivity. Qed.

Lemma fd_roundtrip f : fd_of_jfield (jfield_of_fd f) = Some f.
Proof.
  destruct f as [n t dep]. unfold fd_of_jfield, jfield_of_fd; cbn. rewrite typeref_roundtrip. cbn.
  destruct dep as [[r|]|]; reflexivity.
Qed.

Lemma all_some_map_roundtrip {A B} (f : A -> B) (g : B -> option A) l :
  (forall x, g (f x) = Some x) -> all_some (map g (map f l)) = Some l.
Proof. intros H. induction l as [|x r IH]; cbn; [reflexivity|]. rewrite H, IH. reflexivity. Qed.

Lemma fields_roundtrip fs : all_some (map fd_of_jfield (map jfield_of_fd fs)) = Some fs.
Proof. apply all_some_map_roundtrip. exact fd_roundtrip. Qed.

Lemma input_fields_roundtrip (fs : list (string * gtype)) :
  all_some (map (fun f => option_map (fun ty => (fst f, ty)) (gtype_of_typeref (snd f)))
                (map (fun f => (fst f, typeref_of (snd f))) fs)) = Some fs.
Proof.
  induction fs as [|[n t] r IH]; cbn; [reflexivity|]. rewrite typeref_roundtrip. cbn. rewrite IH. reflexivity.
Qed.

(* ---------- well-formed SDL documents *)
Definition user_scalars (d : sdl_doc) : list string :=
  flat_map (fun x => match x with DScalar n => [n] | _ => [] end) (sd_defs d).
Definition object_names (d : sdl_doc) : list string :=
  flat_map (fun x => match x with DObject n _ _ => [n] | _ => [] end) (sd_defs d).

Definition wf_sdl (d : sdl_doc) : bool :=
  names_resolve d &&                                                        (* the SDL builder does not panic *)
  forallb (fun n => negb (mem_str n default_scalars)) (user_scalars d) &&   (* built-in scalars are not re-declared *)
  nodup_str (object_names d).                                               (* one definition per object type *)

Section Thm.
  Variable d : sdl_doc.
  Variable b : bool.
  Let defs := sd_defs d.
  Let J := render d b.

  Definition is_kind (k : tkind) (t : jtype) : bool :=
    match jt_kind t, k with
    | TKScalar, TKScalar | TKObject, TKObject | TKInterface, TKInterface
    | TKUnion, TKUnion | TKEnum, TKEnum | TKInputObject, TKInputObject => true
    | _, _ => false end.

  Lemma of_kind_render k :
    of_kind J k = filter (is_kind k) (if b then builtin_types else []) ++
                  flat_map (fun x => filter (is_kind k) (render_def d x)) defs.
  Proof.
    unfold of_kind, J, render. cbn [js_types]. rewrite filter_app. f_equal.
    unfold defs. generalize (sd_defs d) as l. intros l.
    induction l as [|x r IH]; cbn [flat_map]; [reflexivity|]. rewrite filter_app. f_equal. exact IH.
  Qed.

  Lemma builtins_not k : k <> TKScalar -> filter (is_kind k) (if b then builtin_types else []) = [].
  Proof.
    intros H. destruct b; [|reflexivity]. unfold builtin_types.
    induction default_scalars as [|x r IH]; cbn; [reflexivity|]. destruct k; try congruence; exact IH.
  Qed.

  (* ---- enums *)
  Lemma enums_eq : json_enums J = Some (sdl_enums d).
  Proof.
    unfold json_enums. rewrite of_kind_render, builtins_not by discriminate. cbn [app].
    unfold sdl_enums, defs. generalize (sd_defs d) as l. intros l.
    induction l as [|x r IH]; cbn [flat_map map all_some]; [reflexivity|].
    destruct x; cbn [render_def filter is_kind jt_kind app map all_some jt_enum_values jt_name option_map];
      try exact IH.
    rewrite IH. reflexivity.
  Qed.

  (* ---- unions *)
  Lemma unions_eq : json_unions J = Some (sdl_unions d).
  Proof.
    unfold json_unions. rewrite of_kind_render, builtins_not by discriminate. cbn [app].
    unfold sdl_unions, defs. generalize (sd_defs d) as l. intros l.
    induction l as [|x r IH]; cbn [flat_map map all_some]; [reflexivity|].
    destruct x; cbn [render_def filter is_kind jt_kind app map all_some jt_possible_types jt_name option_map];
      try exact IH.
    rewrite IH. reflexivity.
  Qed.

  (* ---- interfaces *)
  Lemma interfaces_eq : json_interfaces J = Some (sdl_interfaces d).
  Proof.
    unfold json_interfaces. rewrite of_kind_render, builtins_not by discriminate. cbn [app].
    unfold sdl_interfaces, defs. generalize (sd_defs d) as l. intros l.
    induction l as [|x r IH]; cbn [flat_map map all_some]; [reflexivity|].
    destruct x; cbn [render_def filter is_kind jt_kind app map all_some jt_name option_map]; try exact IH.
    unfold json_fields at 1. cbn [jt_fields]. rewrite fields_roundtrip. cbn [option_map]. rewrite IH. reflexivity.
  Qed.

  (* ---- inputs *)
  Lemma inputs_eq : json_inputs J = Some (sdl_inputs d).
  Proof.
    unfold json_inputs. rewrite of_kind_render, builtins_not by discriminate. cbn [app].
    unfold sdl_inputs, defs. generalize (sd_defs d) as l. intros l.
    induction l as [|x r IH]; cbn [flat_map map all_some]; [reflexivity|].
    destruct x; cbn [render_def filter is_kind jt_kind app map all_some jt_name jt_input_fields jt_is_one_of option_map];
      try exact IH.
    rewrite input_fields_roundtrip. cbn [option_map]. rewrite IH. reflexivity.
  Qed.

  (* ---- scalars *)
  Lemma scalars_eq : forallb (fun n => negb (mem_str n default_scalars)) (user_scalars d) = true ->
    json_scalars J = sdl_scalars d.
  Proof.
    intros Hwf. unfold json_scalars, sdl_scalars. f_equal. rewrite of_kind_render, map_app, filter_app.
    assert (Hb : filter (fun n => negb (mem_str n default_scalars))
                        (map jt_name (filter (is_kind TKScalar) (if b then builtin_types else []))) = []).
    { destruct b; [|reflexivity]. vm_compute. reflexivity. }
    rewrite Hb. cbn [app]. unfold user_scalars in Hwf. unfold defs. revert Hwf. generalize (sd_defs d) as l. intros l Hwf.
    induction l as [|x r IH]; cbn [flat_map map filter]; [reflexivity|].
    destruct x; cbn [render_def filter is_kind jt_kind app map jt_name flat_map] in *; try (apply IH; exact Hwf).
    cbn [forallb app] in Hwf. apply andb_true_iff in Hwf. destruct Hwf as [H1 H2]. rewrite H1. f_equal. exact (IH H2).
  Qed.

  (* ---- objects: extensions folded in *)
  Definition folded (o : aobject) : aobject :=
    mkObj (ao_name o) (ao_implements o ++ ext_implements d (ao_name o)) (ao_fields o ++ ext_fields d (ao_name o)).

  Lemma objects_json : json_objects J = Some (map folded (sdl_objects0 d)).
  Proof.
    unfold json_objects. rewrite of_kind_render, builtins_not by discriminate. cbn [app].
    unfold sdl_objects0, defs. generalize (sd_defs d) as l. intros l.
    induction l as [|x r IH]; cbn [flat_map map all_some]; [reflexivity|].
    destruct x; cbn [render_def filter is_kind jt_kind app map all_some jt_name jt_interfaces option_map]; try exact IH.
    unfold json_fields at 1. cbn [jt_fields]. rewrite fields_roundtrip. cbn [option_map]. rewrite IH. reflexivity.
  Qed.

  (* applying the extensions one after the other = appending, per object, the extensions that
     name it, in document order — when object names are pairwise distinct *)
  Lemma map_no_match (r : list aobject) n (g : aobject -> aobject) :
    ~ In n (map ao_name r) -> map (fun o => if String.eqb (ao_name o) n then g o else o) r = r.
  Proof.
    induction r as [|o r' IH]; intros H; [reflexivity|]. cbn [map].
    destruct (String.eqb_spec (ao_name o) n) as [E|E].
    - exfalso. apply H. left. exact E.
    - f_equal. apply IH. intros X. apply H. right. exact X.
  Qed.

  Lemma apply_extend_map objs n im fs : NoDup (map ao_name objs) ->
    apply_extend objs n im fs =
    map (fun o => if String.eqb (ao_name o) n then mkObj (ao_name o) (ao_implements o ++ im) (ao_fields o ++ fs) else o) objs.
  Proof.
    induction objs as [|o r IH]; intros Hnd; [reflexivity|]. cbn [apply_extend map].
    inversion Hnd as [|? ? Hni Hnd']; subst.
    destruct (String.eqb_spec (ao_name o) n) as [E|E].
    - f_equal. symmetry. apply map_no_match. rewrite <- E. exact Hni.
    - f_equal. exact (IH Hnd').
  Qed.

  Lemma apply_extend_names objs n im fs : map ao_name (apply_extend objs n im fs) = map ao_name objs.
  Proof.
    induction objs as [|o r IH]; [reflexivity|]. cbn [apply_extend].
    destruct (String.eqb (ao_name o) n); cbn [map ao_name]; [reflexivity|]. f_equal. exact IH.
  Qed.

  Definition ext_of (l : list typedef) (n : string) : list string * list fielddef :=
    (flat_map (fun x => match x with DExtend m im _ => if String.eqb m n then im else [] | _ => [] end) l,
     flat_map (fun x => match x with DExtend m _ fs => if String.eqb m n then fs else [] | _ => [] end) l).

  Lemma ext_of_cons x l n :
    ext_of (x :: l) n =
    match x with
    | DExtend m im fs => if String.eqb m n then (im ++ fst (ext_of l n), fs ++ snd (ext_of l n)) else ext_of l n
    | _ => ext_of l n
    end.
  Proof. destruct x; try reflexivity. unfold ext_of. cbn [flat_map]. destruct (String.eqb n0 n); reflexivity. Qed.

  Definition exts_list (l : list typedef) : list (string * (list string * list fielddef)) :=
    flat_map (fun x => match x with DExtend n im fs => [(n, (im, fs))] | _ => [] end) l.

  Lemma exts_list_cons x l :
    exts_list (x :: l) = match x with DExtend n im fs => (n, (im, fs)) :: exts_list l | _ => exts_list l end.
  Proof. destruct x; reflexivity. Qed.

  Lemma fold_extends l : forall objs, NoDup (map ao_name objs) ->
    fold_left (fun objs e => apply_extend objs (fst e) (fst (snd e)) (snd (snd e))) (exts_list l) objs =
    map (fun o => mkObj (ao_name o) (ao_implements o ++ fst (ext_of l (ao_name o))) (ao_fields o ++ snd (ext_of l (ao_name o)))) objs.
  Proof.
    induction l as [|x r IH]; intros objs Hnd.
    - cbn. induction objs as [|o r' IHo]; [reflexivity|]. cbn [map]. rewrite !app_nil_r. destruct o. cbn. f_equal.
      apply IHo. inversion Hnd; assumption.
    - rewrite exts_list_cons.
      assert (Hsame : (forall o, ext_of (x :: r) (ao_name o) = ext_of r (ao_name o)) ->
                      fold_left (fun objs e => apply_extend objs (fst e) (fst (snd e)) (snd (snd e))) (exts_list r) objs =
                      map (fun o => mkObj (ao_name o) (ao_implements o ++ fst (ext_of (x :: r) (ao_name o)))
                                          (ao_fields o ++ snd (ext_of (x :: r) (ao_name o)))) objs).
      { intros H. rewrite (IH objs Hnd). apply map_ext. intros o. rewrite H. reflexivity. }
      destruct x as [n|n vs|n im fs|n fs|n ms|n fs o|n im fs];
        try (apply Hsame; intros o0; rewrite ext_of_cons; reflexivity).
      cbn [fold_left fst snd]. rewrite IH.
      + rewrite (apply_extend_map objs n im fs Hnd). rewrite map_map. apply map_ext. intros o.
        rewrite ext_of_cons.
        destruct (String.eqb_spec (ao_name o) n) as [E|E]; cbn [ao_name ao_implements ao_fields].
        * rewrite E, String.eqb_refl. cbn [fst snd]. rewrite <- !app_assoc. reflexivity.
        * destruct (String.eqb_spec n (ao_name o)) as [E2|E2]; [congruence|]. reflexivity.
      + rewrite apply_extend_names. exact Hnd.
  Qed.

  Lemma objects0_names : map ao_name (sdl_objects0 d) = object_names d.
  Proof.
    unfold sdl_objects0, object_names. induction (sd_defs d) as [|x r IH]; [reflexivity|].
    destruct x; cbn [flat_map app map ao_name]; try exact IH. f_equal. exact IH.
  Qed.

  Lemma objects_eq : nodup_str (object_names d) = true -> json_objects J = Some (sdl_objects d).
  Proof.
    intros Hnd. rewrite objects_json. f_equal. unfold sdl_objects, sdl_extends.
    change (flat_map (fun x => match x with DExtend n im fs => [(n, (im, fs))] | _ => [] end) (sd_defs d)) with (exts_list (sd_defs d)).
    rewrite fold_extends.
    - apply map_ext. intros o. unfold folded, ext_of, ext_implements, ext_fields. reflexivity.
    - rewrite objects0_names. apply nodup_str_NoDup. exact Hnd.
  Qed.

  (* ---- roots *)
  Lemma has_object_iff n :
    existsb (fun x => match x with DObject m _ _ => String.eqb m n | _ => false end) defs = false ->
    find_kind_sdl (sdl_pre d) n <> Some KObject.
  Proof.
    intros H. unfold find_kind_sdl.
    destruct (mem_str n _); [discriminate|]. destruct (existsb _ (a_inputs _)); [discriminate|].
    destruct (existsb _ (a_unions _)); [discriminate|]. destruct (existsb _ (a_interfaces _)); [discriminate|].
    destruct (existsb (fun o => String.eqb (ao_name o) n) (a_objects (sdl_pre d))) eqn:E.
    - exfalso. apply existsb_exists in E. destruct E as [o [Hin He]].
      assert (Hn : In n (map ao_name (sdl_objects d))).
      { apply String.eqb_eq in He. subst n. apply in_map. exact Hin. }
      assert (Hnames : map ao_name (sdl_objects d) = map ao_name (sdl_objects0 d)).
      { unfold sdl_objects. generalize (sdl_objects0 d). induction (sdl_extends d) as [|e r IH]; intros objs; [reflexivity|].
        cbn [fold_left]. rewrite IH. apply apply_extend_names. }
      rewrite Hnames, objects0_names in Hn. unfold object_names in Hn. fold defs in Hn.
      apply in_flat_map in Hn. destruct Hn as [x [Hx Hxn]].
      assert (X : existsb (fun x => match x with DObject m _ _ => String.eqb m n | _ => false end) defs = true).
      { apply existsb_exists. exists x. split; [exact Hx|]. destruct x; try (destruct Hxn; fail).
        destruct Hxn as [<-|[]]. apply String.eqb_refl. }
      congruence.
    - destruct (existsb _ (a_enums _)); [discriminate|]. destruct (mem_str n _); discriminate.
  Qed.

  Theorem json_equals_sdl : wf_sdl d = true -> schema_of_json J = schema_of_sdl d.
  Proof.
    unfold wf_sdl. intros H. apply andb_true_iff in H. destruct H as [H Hobj].
    apply andb_true_iff in H. destruct H as [Hres Hsc].
    unfold schema_of_json, schema_of_sdl. rewrite Hres. cbn [negb].
    rewrite enums_eq, interfaces_eq, (objects_eq Hobj), unions_eq, inputs_eq, (scalars_eq Hsc).
    fold (sdl_pre d).
    unfold J, render; cbn [js_query js_mutation js_subscription]. fold defs.
    destruct (sd_schema d) as [[[q m] sb]|].
    - cbn [fst snd]. unfold obj_root. destruct q, m, sb; reflexivity.
    - cbn [fst snd]. unfold obj_root.
      assert (G : forall n, match (if existsb (fun x => match x with DObject m _ _ => String.eqb m n | _ => false end) defs
                                   then Some n else None) with
                            | Some x => match find_kind_sdl (sdl_pre d) x with Some KObject => Some x | _ => None end
                            | None => None end =
                            match find_kind_sdl (sdl_pre d) n with Some KObject => Some n | _ => None end).
      { intros n. destruct (existsb _ defs) eqn:E; [reflexivity|].
        pose proof (has_object_iff n E) as X. destruct (find_kind_sdl (sdl_pre d) n) as [[| | | | |]|]; try reflexivity. congruence. }
      rewrite !G. reflexivity.
  Qed.
End Thm.
