(* VarProofs.v — the layers on which C04 rests, for ALL inputs: what a serialised Variables /
   input object / @oneOf input / enum looks like on the wire, for any value of the generated type. *)
From GC Require Import Base Rust Json TypeExpr Heck Naming NamingProofs Enums EnumsProofs Schema Query Attrs
  Codegen Serde SerdeLemmas Conform RespProofs VarSpec.

(* ---------- structs: the keys written are exactly the wire names of the members that are kept *)
Definition kept (vals : list (string * rvalue)) (fd : rfield) : bool :=
  match assoc (f_ident fd) vals with
  | Some x => negb (f_skip_none fd && is_vnone x)
  | None => false
  end.

Lemma ser_fields_keys S vals fs m :
  forallb (fun fd => negb (f_flatten fd)) fs = true ->
  ser_fields S vals fs = Some m ->
  map fst m = map field_wire (filter (kept vals) fs).
Proof.
  revert m. induction fs as [|fd more IH]; intros m Hp H; cbn [ser_fields] in H.
  - inversion H. reflexivity.
  - cbn [forallb] in Hp. apply andb_true_iff in Hp. destruct Hp as [Hfd Hmore].
    apply negb_true_iff in Hfd. cbn [filter]. unfold kept at 1.
    destruct (assoc (f_ident fd) vals) as [x|]; [|discriminate].
    rewrite Hfd in H.
    destruct (f_skip_none fd && is_vnone x) eqn:Es; cbn [negb].
    + apply IH; assumption.
    + destruct (S (f_ty fd) x) as [jx|]; [|discriminate].
      destruct (ser_fields S vals more) as [rest|] eqn:Er; [|discriminate].
      inversion H; subst m. cbn [map fst]. f_equal. apply IH; [assumption|reflexivity].
Qed.

(* a member that is kept is written with the value its type serialises to; null only if that is null *)
Lemma ser_fields_member S vals fs m fd :
  forallb (fun fd => negb (f_flatten fd)) fs = true -> NoDup (map field_wire fs) ->
  ser_fields S vals fs = Some m -> In fd fs -> kept vals fd = true ->
  exists x j, assoc (f_ident fd) vals = Some x /\ S (f_ty fd) x = Some j /\ In (field_wire fd, j) m.
Proof.
  revert m. induction fs as [|g more IH]; intros m Hp Hnd H Hin Hk; [destruct Hin|].
  cbn [ser_fields] in H. cbn [forallb] in Hp. apply andb_true_iff in Hp. destruct Hp as [Hg Hmore].
  apply negb_true_iff in Hg. inversion Hnd as [|? ? Hni Hnd']; subst.
  destruct (assoc (f_ident g) vals) as [y|] eqn:Ey; [|discriminate]. rewrite Hg in H.
  destruct Hin as [->|Hin].
  - unfold kept in Hk. rewrite Ey in Hk. apply negb_true_iff in Hk. rewrite Hk in H.
    destruct (S (f_ty fd) y) as [jy|] eqn:Ej; [|discriminate].
    destruct (ser_fields S vals more) as [rest|]; [|discriminate]. inversion H; subst m.
    exists y, jy. repeat split; auto. left. reflexivity.
  - destruct (f_skip_none g && is_vnone y).
    + apply (IH m); assumption.
    + destruct (S (f_ty g) y) as [jy|]; [|discriminate].
      destruct (ser_fields S vals more) as [rest|] eqn:Er; [|discriminate]. inversion H; subst m.
      destruct (IH rest Hmore Hnd' eq_refl Hin Hk) as [x [j [H1 [H2 H3]]]].
      exists x, j. repeat split; auto. right. exact H3.
Qed.

(* ---------- the Variables struct: wire names are the declared variable names, in order *)
Section Variables.
  Variables (s : aschema) (o : opts).

  Definition variable_field (v : vardef) : rfield :=
    let p := field_names tbl snake (vd_name v) in
    let quals := quals_sdl (vd_type v) in
    let tyname := kw (norm_field_type o (gname (vd_type v))) in
    mkField (fst p)
            (match decorate tyname quals with Some t => t | None => RNamed "<double required>" end)
            (snd p) false
            (o_skip_none o && negb (match quals with QRequired :: _ => true | _ => false end))
            None None false.

  Lemma variables_item_fields op v vs : ro_vars op = v :: vs ->
    variables_item o op = IStruct "Variables" (variable_derives o)
                                  (Some (serde_path_str o)) (map variable_field (v :: vs)).
  Proof. intros H. unfold variables_item. rewrite H. reflexivity. Qed.

  Lemma variable_field_wire v : field_wire (variable_field v) = vd_name v.
  Proof.
    unfold field_wire, variable_field. cbn [f_rename f_ident].
    exact (field_wire_key tbl snake (vd_name v)).
  Qed.

  Lemma variable_fields_plain vars : forallb (fun fd => negb (f_flatten fd)) (map variable_field vars) = true.
  Proof. induction vars as [|v r IH]; [reflexivity|]. cbn. exact IH. Qed.

  Lemma map_filter_wire (vals : list (string * rvalue)) vars :
    map field_wire (filter (kept vals) (map variable_field vars)) =
    map vd_name (filter (fun v => kept vals (variable_field v)) vars).
  Proof.
    induction vars as [|v r IH]; [reflexivity|]. cbn [map filter].
    destruct (kept vals (variable_field v)); cbn [map]; [rewrite variable_field_wire|]; rewrite IH; reflexivity.
  Qed.

  (* serialising ANY value of Variables writes an object whose keys are exactly the declared
     variable names, minus (under skip_serializing_none) the nullable ones that are None *)
  Theorem variables_keys S vals vars m :
    ser_fields S vals (map variable_field vars) = Some m ->
    map fst m = map vd_name (filter (fun v => kept vals (variable_field v)) vars).
  Proof.
    intros H. rewrite (ser_fields_keys S vals _ m (variable_fields_plain vars) H). apply map_filter_wire.
  Qed.

  (* without skip_serializing_none nothing is ever dropped: exactly the declared names *)
  Theorem variables_keys_all S vals vars m :
    o_skip_none o = false ->
    ser_fields S vals (map variable_field vars) = Some m -> map fst m = map vd_name vars.
  Proof.
    intros Hs H. rewrite (variables_keys S vals vars m H). f_equal.
    assert (Hall : forall v, In v vars -> kept vals (variable_field v) = true).
    { clear -Hs H. revert m H. induction vars as [|v r IH]; intros m H v0 Hin; [destruct Hin|].
      cbn [map ser_fields] in H.
      destruct (assoc (f_ident (variable_field v)) vals) as [x|] eqn:Ex; [|discriminate].
      cbn [variable_field f_flatten] in H.
      assert (Hk : f_skip_none (variable_field v) = false) by (unfold variable_field; cbn; rewrite Hs; reflexivity).
      rewrite Hk in H. cbn [andb] in H.
      destruct (S _ x); [|discriminate]. destruct (ser_fields S vals (map variable_field r)) as [rest|] eqn:Er; [|discriminate].
      destruct Hin as [<-|Hin].
      - unfold kept. rewrite Ex, Hk. reflexivity.
      - exact (IH rest eq_refl v0 Hin). }
    clear H. induction vars as [|v r IH]; [reflexivity|]. cbn [filter].
    rewrite (Hall v (or_introl eq_refl)). f_equal. apply IH. intros v0 Hv. apply Hall. right. exact Hv.
  Qed.
End Variables.

(* ---------- @oneOf inputs: exactly one key, and it is the schema's member name *)
Theorem oneof_one_key env F n d c vs v j :
  find_item n env = Some (IExtEnum n d c vs) -> prim_ser n v = None ->
  (forall x, In x vs -> v_payload x <> None) ->
  ser (S F) env (RNamed n) v = Some j ->
  exists x j', In x vs /\ j = JObj [(variant_wire x, j')].
Proof.
  intros Hf Hp Hpay H. cbn [ser] in H. rewrite Hp, Hf in H.
  destruct v as [| | | | | | | |i p| | |]; try discriminate.
  destruct (find (fun x => String.eqb (v_ident x) i) vs) as [x|] eqn:Ex; [|discriminate].
  apply find_some in Ex. destruct Ex as [Hin _].
  destruct (v_payload x) as [pt|] eqn:Epx; [|exfalso; exact (Hpay x Hin Epx)].
  destruct p as [pv|]; [|discriminate].
  destruct (ser F env pt pv) as [j'|]; [|discriminate]. cbn in H. inversion H.
  exists x, j'. split; [exact Hin|reflexivity].
Qed.

Lemma oneof_variant_wire o s fld :
  variant_wire (mkVariant (fst (oneof_names tbl camel (fst fld))) (snd (oneof_names tbl camel (fst fld)))
                          (Some (input_field_type s o (snd fld) true)) false) = fst fld.
Proof. unfold variant_wire. cbn [v_rename v_ident]. exact (oneof_wire_key tbl camel (fst fld)). Qed.

(* ---------- non-null positions are never null: a type without a top-level Option writes null
   only if its leaf does *)
Theorem core_never_null env F t n v j :
  (forall F' v' , ser F' env (RNamed n) v' <> Some JNull) ->
  ser F env (core (rename t n)) v = Some j -> j <> JNull.
Proof.
  intros Hleaf. revert F v j. induction t as [m|u IH|u IH]; intros F v j H; cbn [rename core] in H.
  - intros ->. exact (Hleaf F v H).
  - destruct F as [|F]; [discriminate|]. cbn [ser] in H.
    destruct v; try discriminate. destruct (map_opt _ l); [|discriminate]. inversion H. discriminate.
  - exact (IH F v j H).
Qed.

(* ---------- input objects: the keys written are the schema's field names *)
Section Inputs.
  Variables (s : aschema) (o : opts).

  Definition input_member (fld : string * gtype) : rfield :=
    let p := field_names tbl snake (fst fld) in
    mkField (fst p) (input_field_type s o (snd fld) false) (snd p) false
            (o_skip_none o && quals_optional (quals_sdl (snd fld))) None None false.

  Lemma input_item_struct inp : ai_one_of inp = false ->
    input_item s o inp = IStruct (kw (norm o (ai_name inp))) (variable_derives o) (Some (serde_path_str o))
                                 (map input_member (ai_fields inp)).
  Proof. intros H. unfold input_item. rewrite H. reflexivity. Qed.

  Lemma input_member_wire fld : field_wire (input_member fld) = fst fld.
  Proof. unfold field_wire, input_member. cbn [f_rename f_ident]. exact (field_wire_key tbl snake (fst fld)). Qed.

  Lemma input_members_plain fs : forallb (fun fd => negb (f_flatten fd)) (map input_member fs) = true.
  Proof. induction fs as [|v r IH]; [reflexivity|]. cbn. exact IH. Qed.

  Theorem input_keys S vals fs m :
    ser_fields S vals (map input_member fs) = Some m ->
    map fst m = map fst (filter (fun fld => kept vals (input_member fld)) fs).
  Proof.
    intros H. rewrite (ser_fields_keys S vals _ m (input_members_plain fs) H).
    clear H. induction fs as [|v r IH]; [reflexivity|]. cbn [map filter].
    destruct (kept vals (input_member v)); cbn [map]; [rewrite input_member_wire|]; rewrite IH; reflexivity.
  Qed.

  (* every key written is a field name of the schema's input type *)
  Corollary input_keys_in_schema S vals fs m k :
    ser_fields S vals (map input_member fs) = Some m -> In k (map fst m) -> In k (map fst fs).
  Proof.
    intros H Hk. rewrite (input_keys S vals fs m H) in Hk.
    apply in_map_iff in Hk. destruct Hk as [fld [<- Hin]]. apply filter_In in Hin.
    apply in_map. exact (proj1 Hin).
  Qed.

  Lemma input_item_oneof inp : ai_one_of inp = true ->
    input_item s o inp = IExtEnum (kw (norm o (ai_name inp))) (variable_derives o) (Some (serde_path_str o))
      (map (fun fld => let p := oneof_names tbl camel (fst fld) in
                       mkVariant (fst p) (snd p) (Some (input_field_type s o (snd fld) true)) false) (ai_fields inp)).
  Proof. intros H. unfold input_item. rewrite H. reflexivity. Qed.
End Inputs.

(* ---------- enums: a variant other than the catch-all is written as one of the schema's value names *)
Lemma assoc_in_combine (ks vs : list string) k w : assoc k (combine ks vs) = Some w -> In w vs.
Proof.
  revert vs. induction ks as [|a r IH]; intros [|b t] H; cbn in H; try discriminate.
  destruct (String.eqb k a); [inversion H; left; reflexivity|right; exact (IH t H)].
Qed.

Theorem enum_ser_in_schema tbl norm camel d name values i w :
  item_ser (enum_item tbl norm camel d name values) (EVariant i) = Some (JStr w) -> In w values.
Proof.
  unfold item_ser, enum_item, strenum_ser.
  destruct (assoc i (combine _ values)) as [x|] eqn:E; [|discriminate].
  intros H. inversion H; subst. exact (assoc_in_combine _ _ _ _ E).
Qed.

(* ... and the catch-all writes whatever string it holds: the known class of C04 *)
Theorem enum_other_refuted tbl norm camel d name values x :
  ~ In x values -> item_ser (enum_item tbl norm camel d name values) (EOther x) = Some (JStr x) /\ ~ In x values.
Proof. intros H. split; [reflexivity|exact H]. Qed.
