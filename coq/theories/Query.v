(* Query.v — query documents, binding against the schema and the three validations:
   model of query.rs (create_roots, resolve_xxx), query/validation.rs, query/selection.rs
   (validate_type_conditions).  MODEL ONLY. *)
From GC Require Import Base Rust TypeExpr Schema.
From GC.Gen Require Import Keywords.

Inductive sel :=
| SField (alias : option string) (name : string) (sub : list sel)
| SInline (on : option string) (sub : list sel)
| SSpread (name : string).

Inductive opkind := OQuery | OMutation | OSubscription.

Record vardef := mkVar { vd_name : string; vd_type : gtype; vd_has_default : bool }.

Inductive qdef :=
| QOp (k : opkind) (name : option string) (vars : list vardef) (sels : list sel)
| QFrag (name : string) (on : string) (sels : list sel)
| QAnon (sels : list sel).

(* ---------- resolved query: a tree; every field carries its schema definition and the name
   of the type it is selected on *)
Inductive rsel :=
| RField (alias : option string) (fd : fielddef) (sub : list rsel)
| RTypename
| RInline (on : string) (sub : list rsel)
| RSpread (frag : string).

Record rfrag := mkRFrag { rf_name : string; rf_on : string; rf_sel : list rsel }.
Record rop := mkROp { ro_name : string; ro_kind : opkind; ro_root : string; ro_vars : list vardef; ro_sel : list rsel }.
Record rquery := mkRQ { rq_frags : list rfrag; rq_ops : list rop }.

Definition find_frag (q : list rfrag) (n : string) : option rfrag := find (fun f => String.eqb (rf_name f) n) q.

Section Resolve.
  Variable s : aschema.
  (* names and type conditions of ALL fragments of the document (create_roots runs first) *)
  Variable frag_names : list (string * string).

  Definition fields_of_type (t : string) : option (list fielddef) :=
    match find_kind_sdl s t with
    | Some KObject => option_map ao_fields (find_object s t)
    | Some KInterface => find_interface s t
    | _ => None
    end.

  Definition field_named (fs : list fielddef) (n : string) : option fielddef :=
    find (fun f => String.eqb (fd_name f) n) fs.

  (* resolve_selection on a parent type of kind k named t; structural on the selection tree *)
  Fixpoint resolve_sel (k : kind) (t : string) (x : sel) {struct x} : result rsel :=
    match k with
    | KObject | KInterface | KUnion =>
        match x with
        | SSpread n =>
            match assoc n frag_names with
            | Some _ => Ok (RSpread n)
            | None => Err "Could not find fragment referenced by fragment spread"
            end
        | SInline None _ => Panic "missing type condition on inline fragment"
        | SInline (Some on) sub =>
            match find_kind_sdl s on with
            | None => Err "Could not find type referenced by inline fragment"
            | Some k' =>
                do sub' <- (fix go (l : list sel) : result (list rsel) :=
                              match l with
                              | [] => Ok []
                              | y :: r => do y' <- resolve_sel k' on y; do r' <- go r; Ok (y' :: r')
                              end) sub;
                Ok (RInline on sub')
            end
        | SField alias n sub =>
            if String.eqb n typename_field then Ok RTypename
            else
              match k with
              | KUnion => Err "Invalid field selection on union field"
              | _ =>
                  match fields_of_type t with
                  | None => Err "no fields"
                  | Some fs =>
                      match field_named fs n with
                      | None => Err "No field named ... on ..."
                      | Some fd =>
                          let ft := gname (fd_type fd) in
                          match find_kind_sdl s ft with
                          | None => Panic "field type does not resolve"
                          | Some k' =>
                              do sub' <- (fix go (l : list sel) : result (list rsel) :=
                                            match l with
                                            | [] => Ok []
                                            | y :: r => do y' <- resolve_sel k' ft y; do r' <- go r; Ok (y' :: r')
                                            end) sub;
                              Ok (RField alias fd sub')
                          end
                      end
                  end
              end
        end
    | _ => Err "Selection set on non-object, non-interface type"
    end.

  Fixpoint resolve_list (k : kind) (t : string) (l : list sel) : result (list rsel) :=
    match l with
    | [] => Ok []
    | y :: r => do y' <- resolve_sel k t y; do r' <- resolve_list k t r; Ok (y' :: r')
    end.
End Resolve.

(* ---------- create_roots + resolve *)
Definition frag_table (doc : list qdef) : list (string * string) :=
  flat_map (fun d => match d with QFrag n on _ => [(n, on)] | _ => [] end) doc.

Definition root_of (s : aschema) (k : opkind) : result string :=
  match k with
  | OQuery => match a_query s with Some r => Ok r | None => Panic "Query operation type must be defined" end
  | OMutation => match a_mutation s with Some r => Ok r
                 | None => Err "Query contains a mutation operation, but the schema has no mutation type." end
  | OSubscription => match a_subscription s with Some r => Ok r
                     | None => Err "Query contains a subscription operation, but the schema has no subscription type." end
  end.

(* first pass: ids for fragments and operations, with the checks create_roots makes *)
Fixpoint create_roots (s : aschema) (doc : list qdef) : result unit :=
  match doc with
  | [] => Ok tt
  | QFrag n on _ :: r =>
      match find_kind_sdl s on with
      | None => Err "Could not find type for fragment in schema."
      | Some _ => create_roots s r
      end
  | QOp k name _ sels :: r =>
      do _ <- root_of s k;
      match k, sels with
      | OSubscription, [_] | OQuery, _ | OMutation, _ =>
          match name with
          | None => Panic "operation without name"
          | Some _ => create_roots s r
          end
      | OSubscription, _ => Err "Multiple-field queries on the root subscription field are forbidden by the spec."
      end
  | QAnon _ :: _ => Err "Operations in queries must be named."
  end.

Fixpoint resolve_defs (s : aschema) (ft : list (string * string)) (doc : list qdef)
  : result (list rfrag * list rop) :=
  match doc with
  | [] => Ok ([], [])
  | QFrag n on sels :: r =>
      match find_kind_sdl s on with
      | None => Err "Could not find type referenced by fragment"
      | Some k =>
          do sels' <- resolve_list s ft k on sels;
          do rest <- resolve_defs s ft r;
          Ok (mkRFrag n on sels' :: fst rest, snd rest)
      end
  | QOp k name vars sels :: r =>
      do root <- root_of s k;
      (* operations select on an object type: resolve_object_selection *)
      do sels' <- resolve_list s ft KObject root sels;
      do rest <- resolve_defs s ft r;
      Ok (fst rest, mkROp (match name with Some n => n | None => "" end) k root vars sels' :: snd rest)
  | QAnon _ :: _ => Err "unreachable"
  end.

(* variables: resolve_field_type -> find_type_id panics on unknown names *)
Definition vars_resolve (s : aschema) (doc : list qdef) : bool :=
  forallb (fun d => match d with
                    | QOp _ _ vars _ => forallb (fun v => match find_kind_sdl s (gname (vd_type v)) with Some _ => true | None => false end) vars
                    | _ => true end) doc.

(* ---------- validate_typename_presence *)
Definition is_abstract (s : aschema) (t : string) : bool :=
  match find_kind_sdl s t with Some KInterface | Some KUnion => true | _ => false end.

(* selection_set_contains_type_name (validation.rs, after the repair recorded in
   known_findings.json): follows spreads of fragments on the SAME type; the visited list is
   threaded through the siblings exactly like the `&mut Vec`.  None = out of fuel.
   (The original had no visited list and recursed forever on `fragment A on I { ...A }`.) *)
Fixpoint contains_typename (fuel : nat) (frs : list rfrag) (parent : string) (visited : list string)
         (l : list rsel) {struct fuel} : option (bool * list string) :=
  match fuel with
  | O => None
  | S f =>
      (fix walk (l : list rsel) (visited : list string) : option (bool * list string) :=
         match l with
         | [] => Some (false, visited)
         | RTypename :: _ => Some (true, visited)
         | RSpread n :: r =>
             if mem_str n visited then walk r visited
             else
               let visited' := n :: visited in
               match find_frag frs n with
               | Some fr =>
                   if String.eqb (rf_on fr) parent then
                     match contains_typename f frs parent visited' (rf_sel fr) with
                     | None => None
                     | Some (true, v) => Some (true, v)
                     | Some (false, v) => walk r v
                     end
                   else walk r visited'
               | None => walk r visited'
               end
         | _ :: r => walk r visited
         end) l visited
  end.

Definition has_typename (s : aschema) (frs : list rfrag) (parent : string) (l : list rsel) : bool :=
  match contains_typename (S (List.length frs)) frs parent [] l with
  | Some (b, _) => b
  | None => false
  end.

(* all (field type name, sub-selection) pairs of a selection tree, in selection-id order *)
Fixpoint abstract_fields (s : aschema) (x : rsel) : list (string * list rsel) :=
  match x with
  | RField _ fd sub =>
      let t := gname (fd_type fd) in
      (if is_abstract s t then [(t, sub)] else []) ++ flat_map (abstract_fields s) sub
  | RInline _ sub => flat_map (abstract_fields s) sub
  | _ => []
  end.

Definition typename_ok (s : aschema) (q : rquery) : bool :=
  forallb (fun fr => negb (is_abstract s (rf_on fr)) || has_typename s (rq_frags q) (rf_on fr) (rf_sel fr)) (rq_frags q) &&
  forallb (fun p => has_typename s (rq_frags q) (fst p) (snd p))
          (flat_map (fun fr => flat_map (abstract_fields s) (rf_sel fr)) (rq_frags q) ++
           flat_map (fun o => flat_map (abstract_fields s) (ro_sel o)) (rq_ops q)).

(* ---------- validate_type_conditions: spreads / inline fragments under a union or interface
   parent must name the parent itself or one of its variants; other parents are not checked *)
Definition condition_ok (s : aschema) (parent selected : string) : bool :=
  if String.eqb parent selected then true
  else match find_kind_sdl s parent with
       | Some KUnion => match find_union s parent with Some ms => mem_str selected ms | None => true end
       | Some KInterface => mem_str selected (implementors s parent)
       | Some KObject =>
           (* after the repair: an interface the object implements, or a union it belongs to *)
           match find_kind_sdl s selected with
           | Some KInterface => match find_object s parent with Some o => mem_str selected (ao_implements o) | None => false end
           | Some KUnion => match find_union s selected with Some ms => mem_str parent ms | None => false end
           | _ => false
           end
       | _ => true
       end.

Fixpoint conditions_ok (s : aschema) (frs : list rfrag) (parent : string) (x : rsel) : bool :=
  match x with
  | RField _ fd sub => forallb (conditions_ok s frs (gname (fd_type fd))) sub
  | RInline on sub => condition_ok s parent on && forallb (conditions_ok s frs on) sub
  | RSpread n => match find_frag frs n with Some fr => condition_ok s parent (rf_on fr) | None => true end
  | RTypename => true
  end.

Definition resolve (s : aschema) (doc : list qdef) : result rquery :=
  do _ <- create_roots s doc;
  if negb (vars_resolve s doc) then Panic "failed to resolve TypeId" else
  do fo <- resolve_defs s (frag_table doc) doc;
  let q := mkRQ (fst fo) (snd fo) in
  if negb (typename_ok s q) then Err "does not select `__typename`"
  else if negb (forallb (fun fr => forallb (conditions_ok s (rq_frags q) (rf_on fr)) (rf_sel fr)) (rq_frags q) &&
                forallb (fun o => forallb (conditions_ok s (rq_frags q) (ro_root o)) (ro_sel o)) (rq_ops q))
  then Err "The spread ... on ... is not valid."
  else Ok q.
