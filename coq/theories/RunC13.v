(* RunC13.v — executable entry points for the C13 correspondence check. *)
From GC Require Import Base Rust TypeExpr.

Record case := mkCase {
  c_type : gtype;            (* the GraphQL type expression of the field / variable / input field *)
  c_json : bool;             (* schema given as introspection JSON (true) or SDL (false) *)
  c_obs : option rtype       (* the Rust type syn found in the implementation's token stream *)
}.

Definition model (c : case) : option rtype :=
  if c_json c then
    match quals_json (typeref_of (c_type c)) with
    | Some (q, n) => decorate n q
    | None => None
    end
  else decorate (gname (c_type c)) (quals_sdl (c_type c)).

(* correspondence: the model predicts the implementation *)
Definition corr (c : case) : bool := opt_eqb rtype_eqb (model c) (c_obs c).
(* property oracle, independent of the model: the implementation obeys the rule *)
Definition prop (c : case) : bool := opt_eqb rtype_eqb (Some (spec_rust (c_type c))) (c_obs c).
