(* RespProofs.v — the layers on which C01 / C03 rest, each for ALL inputs:
   (T2) a field of GraphQL type t, rendered by decorate_type, accepts exactly the values that
        conform to t (null only at nullable positions, arrays exactly at list positions, at every
        nesting), given what its leaf type accepts;
   (T3) what the built-in scalar leaves accept;
   (T4) an internally tagged enum: a known `__typename` selects its own variant and no other, an
        unknown one is an error unless a catch-all variant exists.
   The composition of these layers over a whole selection tree is evaluated per case (RunResp). *)
From GC Require Import Base Rust Json TypeExpr TypeExprProofs Enums Serde SerdeLemmas Conform.

Definition is_some {A} (o : option A) : bool := match o with Some _ => true | None => false end.

Lemma is_some_option_map {A B} (f : A -> B) o : is_some (option_map f o) = is_some o.
Proof. destruct o; reflexivity. Qed.

Lemma is_some_map_opt {A B} (f : A -> option B) l : is_some (map_opt f l) = forallb (fun x => is_some (f x)) l.
Proof.
  induction l as [|x r IH]; [reflexivity|]. cbn [map_opt forallb].
  destruct (f x); cbn [is_some andb]; [|reflexivity].
  rewrite <- IH. destruct (map_opt f r); reflexivity.
Qed.

Lemma forallb_ext {A} (f g : A -> bool) l : (forall x, f x = g x) -> forallb f l = forallb g l.
Proof. intros H. induction l as [|x r IH]; [reflexivity|]. cbn. rewrite H, IH. reflexivity. Qed.

(* ---------- renaming the leaf of a type expression *)
Fixpoint rename (t : gtype) (n : string) : gtype :=
  match t with GNamed _ => GNamed n | GList u => GList (rename u n) | GNonNull u => GNonNull (rename u n) end.
Lemma rename_quals t n : quals_sdl (rename t n) = quals_sdl t.
Proof. induction t; cbn; congruence. Qed.
Lemma rename_gname t n : gname (rename t n) = n.
Proof. induction t; cbn; congruence. Qed.
Lemma rename_wf t n : wf_gtype (rename t n) = wf_gtype t.
Proof. induction t as [m|u IH|u IH]; cbn; try assumption; [reflexivity|]. destruct u; cbn in *; auto. Qed.
Lemma rename_ctype leaf b t n j : ctype leaf b (rename t n) j = ctype leaf b t j.
Proof.
  revert b j. induction t as [m|u IH|u IH]; intros b j; cbn [rename ctype]; [reflexivity| |apply IH].
  destruct (is_null j); [reflexivity|]. destruct j; try reflexivity.
  apply forallb_ext. intros x. apply IH.
Qed.

(* the field type the generator emits for schema type t with leaf type name n *)
Theorem decorate_leaf t n : wf_gtype t = true -> decorate n (quals_sdl t) = Some (spec_rust (rename t n)).
Proof.
  intros H. rewrite <- (rename_quals t n). rewrite <- (rename_gname t n) at 1.
  apply decorate_is_spec. rewrite rename_wf. exact H.
Qed.

Fixpoint wraps (t : gtype) : nat :=
  match t with GNamed _ => 0 | GList u => 2 + wraps u | GNonNull u => wraps u end.

Section TypeAccept.
  Variables (henv env : list ritem) (n : string) (leaf : json -> bool) (F0 : nat).
  (* what the leaf type accepts, from fuel F0 on *)
  Hypothesis Hleaf : forall F j, F0 <= F -> is_null j = false -> is_some (deser henv F env (RNamed n) j) = leaf j.
  Hypothesis Hnull : forall F, deser henv F env (RNamed n) JNull = None.

  Lemma deser_option F u j :
    deser henv (S F) env (ROption u) j = if is_null j then Some VNone else option_map VSome (deser henv F env u j).
  Proof. reflexivity. Qed.
  Lemma deser_vec F u j :
    deser henv (S F) env (RVec u) j =
      match j with JArr l => option_map VSeq (map_opt (deser henv F env u) l) | _ => None end.
  Proof. reflexivity. Qed.

  Lemma leaf_any F j : F0 <= F -> is_some (deser henv F env (RNamed n) j) = if is_null j then false else leaf j.
  Proof.
    intros HF. destruct (is_null j) eqn:E.
    - destruct j; try discriminate. rewrite Hnull. reflexivity.
    - apply Hleaf; assumption.
  Qed.

  (* both shapes at once: the nullable rendering and, for a type that is not itself `!`, its core *)
  Lemma accepts_both t : wf_gtype t = true ->
    (forall F j, F0 + wraps t + 1 <= F ->
       is_some (deser henv F env (spec_rust (rename t n)) j) = ctype leaf true t j) /\
    (match t with GNonNull _ => True | _ =>
       forall F j, F0 + wraps t <= F ->
         is_some (deser henv F env (core (rename t n)) j) = ctype leaf false t j end).
  Proof.
    induction t as [m|u IH|u IH]; intros Hwf.
    - split.
      + intros F j HF. destruct F as [|F]; [lia|]. cbn [rename spec_rust core]. rewrite deser_option.
        cbn [ctype]. destruct (is_null j) eqn:E; [reflexivity|].
        rewrite is_some_option_map. apply Hleaf; [cbn in HF; lia|exact E].
      + intros F j HF. cbn [rename core ctype]. apply leaf_any. cbn in HF; lia.
    - cbn [wf_gtype] in Hwf. destruct (IH Hwf) as [IHs _].
      assert (Hcore : forall F j, F0 + wraps (GList u) <= F ->
                is_some (deser henv F env (core (rename (GList u) n)) j) = ctype leaf false (GList u) j).
      { intros F j HF. cbn [rename]. rewrite core_list. destruct F as [|F]; [cbn in HF; lia|].
        rewrite deser_vec. cbn [ctype]. destruct j; try reflexivity.
        cbn [is_null]. rewrite is_some_option_map, is_some_map_opt.
        apply forallb_ext. intros x. apply IHs. cbn [wraps] in HF. lia. }
      split; [|exact Hcore].
      intros F j HF. cbn [rename]. rewrite spec_nullable_list. destruct F as [|F]; [lia|].
      rewrite deser_option. cbn [ctype]. destruct (is_null j) eqn:E; [reflexivity|].
      rewrite is_some_option_map.
      specialize (Hcore F j). cbn [rename] in Hcore. rewrite core_list in Hcore. rewrite Hcore by lia.
      cbn [ctype]. rewrite E. reflexivity.
    - split; [|exact I]. cbn [wf_gtype] in Hwf.
      destruct u as [m|v|v]; [| |discriminate].
      + destruct (IH Hwf) as [_ IHc]. intros F j HF. cbn [rename spec_rust ctype]. apply IHc. cbn [wraps] in *. lia.
      + destruct (IH Hwf) as [_ IHc]. intros F j HF. cbn [rename spec_rust]. cbn [ctype].
        change (ctype leaf false (GList v) j) with (ctype leaf false (GList v) j).
        specialize (IHc F j). cbn [rename] in IHc. apply IHc. cbn [wraps] in *. lia.
  Qed.

  (* T2 *)
  Theorem field_type_accepts t : wf_gtype t = true ->
    exists r, decorate n (quals_sdl t) = Some r /\
      forall F j, F0 + wraps t + 1 <= F -> is_some (deser henv F env r j) = ctype leaf true t j.
  Proof.
    intros Hwf. exists (spec_rust (rename t n)). split; [apply decorate_leaf; exact Hwf|].
    exact (proj1 (accepts_both t Hwf)).
  Qed.
End TypeAccept.

(* conformance is monotone in the leaf predicate: a leaf type that accepts more accepts every
   conforming value (C01 direction) *)
Lemma ctype_mono (l1 l2 : json -> bool) : (forall j, l1 j = true -> l2 j = true) ->
  forall t b j, ctype l1 b t j = true -> ctype l2 b t j = true.
Proof.
  intros H. induction t as [m|u IH|u IH]; intros b j; cbn [ctype]; [| |apply IH].
  - destruct (is_null j); [tauto|apply H].
  - destruct (is_null j); [tauto|]. destruct j; try tauto.
    rewrite !forallb_forall. intros Hall x Hx. apply IH. apply Hall. exact Hx.
Qed.

(* the single-point corruptions of C03 at the level of one type expression *)
Theorem null_at_nonnull_rejected leaf t j : is_null j = true -> ctype leaf true (GNonNull t) j = false.
Proof.
  intros Hn. cbn [ctype]. revert j Hn. induction t as [m|u IH|u IH]; intros j Hn; cbn [ctype].
  - rewrite Hn. reflexivity.
  - rewrite Hn. reflexivity.
  - apply IH. exact Hn.
Qed.

Theorem non_list_at_list_rejected leaf b t j :
  is_null j = false -> (forall l, j <> JArr l) -> ctype leaf b (GList t) j = false.
Proof. intros Hn Hl. cbn [ctype]. rewrite Hn. destruct j; try reflexivity. exfalso. exact (Hl l eq_refl). Qed.

Theorem null_at_nullable_accepted leaf t : match t with GNonNull _ => True | _ => ctype leaf true t JNull = true end.
Proof. destruct t; cbn; exact I || reflexivity. Qed.

(* ---------- T3: what the built-in scalar leaves accept (module environment with the alias block) *)
Section Leaves.
  Variables (henv env : list ritem).
  Hypothesis Hint : find_item "Int" env = Some (IAlias "Int" (RNamed "i64")).
  Hypothesis Hfloat : find_item "Float" env = Some (IAlias "Float" (RNamed "f64")).
  Hypothesis Hbool : find_item "Boolean" env = Some (IAlias "Boolean" (RNamed "bool")).

  Theorem int_leaf F j : deser henv (S (S F)) env (RNamed "Int") j =
    match j with JInt z => if in_i64 z then Some (VInt z) else None | _ => None end.
  Proof. cbn [deser]. change (prim_deser "Int" j) with (@None (option rvalue)). cbv iota. rewrite Hint. reflexivity. Qed.

  Theorem float_leaf F j : deser henv (S (S F)) env (RNamed "Float") j =
    match j with JInt _ | JFrac _ => Some (VFloat j) | _ => None end.
  Proof. cbn [deser]. change (prim_deser "Float" j) with (@None (option rvalue)). cbv iota. rewrite Hfloat. reflexivity. Qed.

  Theorem bool_leaf F j : deser henv (S (S F)) env (RNamed "Boolean") j =
    match j with JBool b => Some (VBool b) | _ => None end.
  Proof. cbn [deser]. change (prim_deser "Boolean" j) with (@None (option rvalue)). cbv iota. rewrite Hbool. reflexivity. Qed.

  Theorem string_leaf F j : deser henv (S F) env (RNamed "String") j =
    match j with JStr s => Some (VStr s) | _ => None end.
  Proof. reflexivity. Qed.

  (* every value the specification allows for a built-in scalar is accepted; nothing of another
     JSON kind is *)
  Corollary int_conforming F j : scalar_leaf "Int" j = true -> is_some (deser henv (S (S F)) env (RNamed "Int") j) = true.
  Proof.
    rewrite int_leaf. destruct j; cbn; try discriminate. intros H.
    assert (in_i64 z = true) as ->; [|reflexivity].
    unfold in_i32, in_i64, i32_min, i32_max, i64_min, i64_max in *. lia.
  Qed.
  Corollary int_wrong_kind F j : (forall z, j <> JInt z) -> deser henv (S (S F)) env (RNamed "Int") j = None.
  Proof. rewrite int_leaf. destruct j; try reflexivity. intros H. exfalso. exact (H z eq_refl). Qed.
  Corollary float_conforming F j : scalar_leaf "Float" j = is_some (deser henv (S (S F)) env (RNamed "Float") j).
  Proof. rewrite float_leaf. destruct j; reflexivity. Qed.
  Corollary bool_conforming F j : scalar_leaf "Boolean" j = is_some (deser henv (S (S F)) env (RNamed "Boolean") j).
  Proof. rewrite bool_leaf. destruct j; reflexivity. Qed.
  Corollary string_conforming F j : scalar_leaf "String" j = is_some (deser henv (S F) env (RNamed "String") j).
  Proof. rewrite string_leaf. destruct j; reflexivity. Qed.
End Leaves.

(* an enum leaf: every string is accepted (schema values as themselves, others through Other),
   nothing else is *)
Theorem enum_leaf henv env n d vs sa so da F j :
  find_item n env = Some (IStrEnum n d vs sa so da true) -> prim_deser n j = None ->
  is_some (deser henv (S F) env (RNamed n) j) = match j with JStr _ => true | _ => false end.
Proof.
  intros Hf Hp. cbn [deser]. rewrite Hp, Hf. unfold strenum_deser.
  destruct j; try reflexivity. destruct (assoc s da); reflexivity.
Qed.

(* ---------- T4: internally tagged enums (`#[serde(tag = "__typename")]`) *)
Section Tagged.
  Variables (D : rtype -> json -> option rvalue) (tag : string) (variants : list rvariant).

  Definition tag_of (m : list (string * json)) : option string :=
    match filter (fun e => String.eqb (fst e) tag) m with [(_, JStr s)] => Some s | _ => None end.

  Lemma find_wire_first s v : find (fun x => String.eqb (variant_wire x) s) variants = Some v -> variant_wire v = s /\ In v variants.
  Proof. intros H. apply find_some in H. destruct H as [Hin He]. apply String.eqb_eq in He. tauto. Qed.

  (* a known `__typename` always selects its own variant: whatever is returned carries the
     identifier of the FIRST variant with that wire name, never another one *)
  Theorem tagged_selects_own m s v r :
    tag_of m = Some s -> find (fun x => String.eqb (variant_wire x) s) variants = Some v ->
    deser_tagged D tag variants m = Some r -> exists p, r = VVariant (v_ident v) p.
  Proof.
    unfold tag_of, deser_tagged. intros Ht Hf.
    destruct (filter (fun e => String.eqb (fst e) tag) m) as [|[k [| | | |s'| |]] [|? ?]]; try discriminate.
    inversion Ht; subst s'. rewrite Hf.
    destruct (v_payload v) as [pt|].
    - destruct (D pt _); cbn; [|discriminate]. intros H; inversion H. eexists; reflexivity.
    - intros H; inversion H. eexists; reflexivity.
  Qed.

  (* an unknown `__typename`: the catch-all variant if there is one, else an error *)
  Theorem tagged_unknown m s :
    tag_of m = Some s -> find (fun x => String.eqb (variant_wire x) s) variants = None ->
    deser_tagged D tag variants m =
      match find v_other variants with
      | Some o => match v_payload o with
                  | None => Some (VVariant (v_ident o) None)
                  | Some pt => option_map (fun x => VVariant (v_ident o) (Some x))
                                          (D pt (JObj (filter (fun e => negb (String.eqb (fst e) tag)) m)))
                  end
      | None => None
      end.
  Proof.
    unfold tag_of, deser_tagged. intros Ht Hf.
    destruct (filter (fun e => String.eqb (fst e) tag) m) as [|[k [| | | |s'| |]] [|? ?]]; try discriminate.
    inversion Ht; subst s'. rewrite Hf. reflexivity.
  Qed.

  (* no tag, a repeated tag or a tag that is not a string: always an error *)
  Theorem tagged_without_tag m : tag_of m = None -> deser_tagged D tag variants m = None.
  Proof.
    unfold tag_of, deser_tagged.
    destruct (filter (fun e => String.eqb (fst e) tag) m) as [|[k [| | | |s'| |]] [|? ?]]; try reflexivity.
    discriminate.
  Qed.
End Tagged.
