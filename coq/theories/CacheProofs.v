(* CacheProofs.v — C08: every outcome logged under every schedule equals the outcome of the same
   call made alone in a fresh process. *)
From GC Require Import Base Cache.

Section P.
  Variables Text Q Sch Opts Out : Type.
  Variable fs : string -> option Text.
  Variable parse_q : Text -> option Q.
  Variable parse_s : string -> Text -> option Sch.
  Variable gen : Q -> Sch -> Opts -> Out.

  Notation load_q := (load_q Text Q fs parse_q).
  Notation load_s := (load_s Text Sch fs parse_s).
  Notation pure := (pure Text Q Sch Opts Out fs parse_q parse_s gen).
  Notation step := (step Text Q Sch Opts Out fs parse_q parse_s gen).
  Notation run := (run Text Q Sch Opts Out fs parse_q parse_s gen).
  Notation state := (state Q Sch Opts Out).
  Notation thread := (thread Q Opts).

  Definition cache_ok {A} (load : string -> res A) (c : list (string * A)) : Prop :=
    forall p v, assoc p c = Some v -> load p = Val v.
  Definition thread_ok (th : thread) : Prop :=
    match held _ _ th, todo _ _ th with
    | Some q, c :: _ => load_q (qp _ c) = Val q
    | Some _, [] => False
    | None, _ => True
    end.
  Definition Inv (st : state) : Prop :=
    cache_ok load_q (cq _ _ _ _ st) /\ cache_ok load_s (cs _ _ _ _ st) /\ Forall thread_ok (ths _ _ _ _ st) /\
    forall c o, In (c, o) (log _ _ _ _ st) -> o = pure c.

  Lemma gol_ok {A} (load : string -> res A) c p : cache_ok load c ->
    cache_ok load (fst (get_or_load load c p)) /\ snd (get_or_load load c p) = load p.
  Proof.
    intros H. unfold get_or_load. destruct (assoc p c) eqn:E.
    - cbn. split; [exact H|symmetry; apply H, E].
    - destruct (load p) eqn:L; cbn; [|split; [exact H|reflexivity]].
      split; [|reflexivity]. intros p' v. cbn [assoc]. destruct (String.eqb_spec p' p) as [->|Ep].
      + intros X. inversion X; subst. exact L.
      + apply H.
  Qed.

  Lemma Forall_set_nth {A} (P : A -> Prop) l n x : Forall P l -> P x -> Forall P (set_nth n x l).
  Proof.
    revert n. induction l as [|y l IH]; intros n Hl Hx; cbn; [destruct n; constructor|].
    inversion Hl; subst. destruct n; constructor; auto.
  Qed.

  Lemma step_inv st i : Inv st -> Inv (step st i).
  Proof.
    intros (Hq & Hs & Hth & Hlog). unfold Cache.step.
    destruct (nth_error (ths _ _ _ _ st) i) as [th|] eqn:En; [|repeat split; assumption].
    assert (Hok : thread_ok th).
    { apply nth_error_In in En. rewrite Forall_forall in Hth. apply Hth, En. }
    destruct (todo _ _ th) as [|c rest] eqn:Et; [repeat split; assumption|].
    destruct (held _ _ th) as [q|] eqn:Eh.
    - unfold thread_ok in Hok. rewrite Eh, Et in Hok.
      destruct (gol_ok load_s (cs _ _ _ _ st) (sp _ c) Hs) as [Hs' Hr].
      destruct (get_or_load load_s (cs _ _ _ _ st) (sp _ c)) as [cs' r]. cbn in Hs', Hr. subst r.
      repeat split; cbn; try assumption.
      + apply Forall_set_nth; [exact Hth|exact I].
      + intros c0 o [X|X]; [|apply Hlog, X]. inversion X; subst. unfold Cache.pure. rewrite Hok.
        destruct (load_s (sp _ c0)); reflexivity.
    - destruct (gol_ok load_q (cq _ _ _ _ st) (qp _ c) Hq) as [Hq' Hr].
      destruct (get_or_load load_q (cq _ _ _ _ st) (qp _ c)) as [cq' r]. cbn in Hq', Hr. subst r.
      destruct (load_q (qp _ c)) as [q|] eqn:L.
      + repeat split; cbn; try assumption.
        apply Forall_set_nth; [exact Hth|]. unfold thread_ok; cbn. exact L.
      + repeat split; cbn; try assumption.
        * apply Forall_set_nth; [exact Hth|exact I].
        * intros c0 o [X|X]; [|apply Hlog, X]. inversion X; subst. unfold Cache.pure. rewrite L. reflexivity.
  Qed.

  Lemma run_inv sched : forall st, Inv st -> Inv (run st sched).
  Proof. induction sched as [|i sched IH]; intros st H; cbn; [exact H|]. apply IH, step_inv, H. Qed.

  Lemma init_inv progs : Inv (init Q Sch Opts Out progs).
  Proof.
    repeat split; cbn; try (intros ? ? X; discriminate X); try tauto.
    rewrite Forall_forall. intros th Hin. apply in_map_iff in Hin. destruct Hin as [p [<- _]]. exact I.
  Qed.

  (* every schedule, any number of threads, any prefix of the execution *)
  Theorem cache_pure : forall progs sched c o,
    In (c, o) (log _ _ _ _ (run (init Q Sch Opts Out progs) sched)) -> o = pure c.
  Proof.
    intros progs sched. destruct (run_inv sched _ (init_inv progs)) as (_ & _ & _ & Hlog). exact Hlog.
  Qed.

  (* a failed call changes nothing: the caches after it are the caches before it *)
  Theorem failed_load_changes_nothing {A} (load : string -> res A) c p :
    snd (get_or_load load c p) = Panicked -> fst (get_or_load load c p) = c.
  Proof.
    unfold get_or_load. destruct (assoc p c); cbn; [discriminate|]. destruct (load p); cbn; [discriminate|reflexivity].
  Qed.
End P.

(* the ORIGINAL code is refuted: after one failed call, a perfectly good call fails *)
Definition demo_fs (p : string) : option string :=
  if String.eqb p "q.graphql" then Some "Q" else if String.eqb p "s.graphql" then Some "S" else None.
Theorem poison_refuted :
  let pq := fun t : string => Some t in
  let ps := fun (_ : string) (t : string) => Some t in
  let gen := fun (q s : string) (_ : unit) => (q ++ s)%string in
  let good := mkCall unit "q.graphql" "s.graphql" tt in
  let bad := mkCall unit "missing.graphql" "s.graphql" tt in
  let st0 := mkP string string [] [] false false in
  snd (call_poison string string string unit string demo_fs pq ps gen st0 good) = Val "QS" /\
  snd (call_poison string string string unit string demo_fs pq ps gen
         (fst (call_poison string string string unit string demo_fs pq ps gen st0 bad)) good) = Panicked.
Proof. vm_compute. split; reflexivity. Qed.
